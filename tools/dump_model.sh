#!/bin/sh
# usage: dump_model.sh <seed id | abs patch | -> <function short name>...  -- print the canonicalised model (after sa/inline.py etc.) of functions
P="$1"; shift
S=$(mktemp -d /tmp/verif-dump-XXXXXX)
trap 'rm -rf "$S"' EXIT
cp -r /repo/robotools "$S/robotools"
case "$P" in -) ;; /*) ( cd "$S" && patch -p1 -s --no-backup-if-mismatch < "$P" ) || exit 3;; *) ( cd "$S" && patch -p1 -s --no-backup-if-mismatch < /verif/seeded/$P/patch.diff ) || exit 3;; esac
/venv/bin/python - "$S" "$@" <<'PY'
import sys, ast
sys.path.insert(0, '/verif')
from sa.main import Ctx
ctx = Ctx("C01", "quick", sys.argv[1])
for name in sys.argv[2:]:
    f = ctx.prog.func(name)
    print("#####", name, "->", getattr(f, "qualname", None))
    if f is not None:
        print(ast.unparse(f.node))
print("# inline log:")
for l in getattr(ctx.prog, "inline_log", []):
    print("#  ", l)
PY
