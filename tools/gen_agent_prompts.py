#!/venv/bin/python
"""Development tool: create the scratch worktrees and prompt files for one round of seeding agents.
usage: gen_agent_prompts.py <round number> <theme file>     -> /tmp/seeded<r>-prompts/Cxx.txt, worktrees /tmp/wt<r>-Cxx
The agents see only the property text, one-line summaries of earlier changes (to avoid repeats) and their worktree."""
import glob
import json
import os
import subprocess
import sys

r = sys.argv[1]
theme = open(sys.argv[2]).read().strip()
props = [json.loads(l) for l in open("/verif/properties.jsonl")]
na = {x["property_id"] for x in json.load(open("/verif/MANIFEST.json")).get("not_applicable", [])}
os.makedirs(f"/tmp/seeded{r}-prompts", exist_ok=True)
os.makedirs(f"/tmp/seeded{r}-out", exist_ok=True)
TEMPLATE = open("/verif/tools/seed_prompt_template.txt").read()
for p in props:
    pid = p["id"]
    if pid in na:
        continue
    wt = f"/tmp/wt{r}-{pid}"
    if not os.path.exists(wt):
        subprocess.run(["git", "-C", "/repo", "worktree", "add", "--detach", wt, "HEAD"], check=True, capture_output=True)
    known = []
    for m in sorted(glob.glob(f"/verif/seeded/{pid}-*/meta.json")):
        known.append("  - " + json.load(open(m)).get("summary", "")[:260])
    txt = TEMPLATE
    for k, v in {"@WT@": wt, "@OUT@": f"/tmp/seeded{r}-out/{pid}", "@PID@": pid, "@TITLE@": p["title"], "@STATEMENT@": p["statement"], "@QUANT@": p["quantifier"]["text"],
                 "@WHY@": p["why_tests_cant"], "@FILES@": ", ".join(p["anchors"]["files"]), "@KNOWN@": "\n".join(known), "@THEME@": theme}.items():
        txt = txt.replace(k, v)
    open(f"/tmp/seeded{r}-prompts/{pid}.txt", "w").write(txt)
    os.makedirs(f"/tmp/seeded{r}-out/{pid}", exist_ok=True)
print("ok")
