#!/bin/sh
# usage: try_benign.sh <patch.diff>  -- all 19 checks on a scratch copy with the patch; prints only non-zero exits
P="$1"
S=$(mktemp -d /tmp/verif-try-XXXXXX)
trap 'rm -rf "$S"' EXIT
cp -r /repo/robotools "$S/robotools"
( cd "$S" && patch -p1 -s --no-backup-if-mismatch < "$P" ) || { echo "PATCH FAILED $P"; exit 3; }
mkdir -p "$S/ev"
bad=0
for id in C01 C02 C03 C04 C05 C06 C07 C08 C09 C10 C11 C13 C14 C15 C16 C17 C18 C19 C20; do
  out=$(VERIF_EVIDENCE_DIR="$S/ev" /verif/check "$id" --root "$S" 2>&1); rc=$?
  if [ $rc -ne 0 ]; then bad=1; echo "--- $id exit=$rc"; echo "$out" | grep -v "^C[0-9]* \[" | sed "s#$S#<scratch>#g" | cut -c1-330 | head -8; fi
done
[ $bad -eq 0 ] && echo "silent: $P"
