#!/usr/bin/env python3
"""Confirm candidate seeded changes and file them under /verif/seeded/<id>/.

usage: confirm_seeded.py <candidate dir> <id> [--props C01,C02,...]
  candidate dir contains patch.diff, demo.py, meta.json (as written by a seeding sub-agent)

For each candidate (in a scratch copy of /repo's HEAD, outside /repo and /verif, removed afterwards):
  1. the patch applies;   2. the unedited suite reports 148 passed with the patch;
  3. demo.py fails with the patch;   4. demo.py passes without it;
  5. every static check is run on the patched copy (analysis only) and the detecting checks are recorded.
"""
import json
import os
import shutil
import subprocess
import sys
import tempfile

VERIF = os.path.dirname(os.path.dirname(os.path.abspath(__file__)))
PROPS = ["C01", "C02", "C03", "C04", "C05", "C06", "C07", "C08", "C09", "C10", "C11", "C13", "C14", "C15", "C16", "C17", "C18", "C19", "C20"]


def run(cmd, cwd=None, env=None, timeout=600):
    p = subprocess.run(cmd, cwd=cwd, env=env, shell=isinstance(cmd, str), capture_output=True, text=True, timeout=timeout)
    return p.returncode, (p.stdout + p.stderr)


def main():
    cand, sid = sys.argv[1], sys.argv[2]
    props = PROPS
    if "--props" in sys.argv:
        props = sys.argv[sys.argv.index("--props") + 1].split(",")
    meta = json.load(open(os.path.join(cand, "meta.json"))) if os.path.exists(os.path.join(cand, "meta.json")) else {}
    S = tempfile.mkdtemp(prefix="verif-seed-")
    result = {"id": sid}
    try:
        shutil.copytree("/repo/robotools", os.path.join(S, "robotools"), ignore=shutil.ignore_patterns("__pycache__"))
        clean = tempfile.mkdtemp(prefix="verif-seed-clean-")
        shutil.copytree("/repo/robotools", os.path.join(clean, "robotools"), ignore=shutil.ignore_patterns("__pycache__"))
        rc, out = run(["patch", "-p1", "-s", "--no-backup-if-mismatch", "-i", os.path.abspath(os.path.join(cand, "patch.diff"))], cwd=S)
        result["applies"] = rc == 0
        if rc != 0:
            result["error"] = out[-400:]
            print(json.dumps(result))
            return 1
        env = dict(os.environ, PYTHONPATH=S, PYTHONDONTWRITEBYTECODE="1")
        rc, out = run(["/venv/bin/python", "-m", "pytest", "-q", "-p", "no:cacheprovider", "robotools"], cwd=S, env=env)
        result["suite"] = out.strip().splitlines()[-1] if out.strip() else ""
        result["suite_passes"] = "148 passed" in result["suite"]
        rc1, out1 = run(["/venv/bin/python", os.path.abspath(os.path.join(cand, "demo.py"))], cwd=S, env=env)
        result["demo_with_change_rc"] = rc1
        result["demo_with_change_tail"] = out1.strip().splitlines()[-1][:300] if out1.strip() else ""
        env2 = dict(os.environ, PYTHONPATH=clean, PYTHONDONTWRITEBYTECODE="1")
        rc2, out2 = run(["/venv/bin/python", os.path.abspath(os.path.join(cand, "demo.py"))], cwd=clean, env=env2)
        result["demo_without_change_rc"] = rc2
        shutil.rmtree(clean, ignore_errors=True)
        detected = {}
        ev = os.path.join(S, "ev")
        os.makedirs(ev)
        for p in props:
            rc, out = run([os.path.join(VERIF, "check"), p, "--root", S], env=dict(os.environ, VERIF_EVIDENCE_DIR=ev))
            rules = sorted({ln.split("rule=")[1].split(" ")[0] for ln in out.splitlines() if ln.strip().startswith("rule=")})
            detected[p] = {"exit": rc, "rules": rules}
        result["checks"] = {p: d for p, d in detected.items() if d["exit"] != 0}
        result["detected_by"] = sorted(p for p, d in detected.items() if d["exit"] == 1)
        result["inconclusive_in"] = sorted(p for p, d in detected.items() if d["exit"] == 2)
    finally:
        shutil.rmtree(S, ignore_errors=True)
    ok = result.get("suite_passes") and result.get("demo_with_change_rc", 0) != 0 and result.get("demo_without_change_rc", 1) == 0
    result["confirmed"] = bool(ok)
    if ok:
        dst = os.path.join(VERIF, "seeded", sid)
        os.makedirs(dst, exist_ok=True)
        if os.path.abspath(cand) != os.path.abspath(dst):
            shutil.copy(os.path.join(cand, "patch.diff"), os.path.join(dst, "patch.diff"))
            shutil.copy(os.path.join(cand, "demo.py"), os.path.join(dst, "demo.py"))
        prop = meta.get("property", sid.split("-")[0])
        m = {
            "id": sid,
            "property": prop,
            "summary": meta.get("summary", ""),
            "clause": meta.get("clause", ""),
            "needs": meta.get("needs", ""),
            "origin": "independent sub-agent given only the property text and a scratch worktree",
            "confirmed": {
                "repo_head": subprocess.run(["git", "-C", "/repo", "rev-parse", "--short", "HEAD"], capture_output=True, text=True).stdout.strip(),
                "ran": [
                    "patch -p1 < patch.diff on a scratch copy of /repo/robotools (outside /repo and /verif, removed afterwards)",
                    f"PYTHONPATH=<scratch> /venv/bin/python -m pytest -q -p no:cacheprovider robotools -> {result['suite']}",
                    f"PYTHONPATH=<scratch> /venv/bin/python demo.py -> exit {result['demo_with_change_rc']}: {result['demo_with_change_tail']}",
                    f"PYTHONPATH=<clean copy> /venv/bin/python demo.py -> exit {result['demo_without_change_rc']}",
                    "./check <Cxx> --root <scratch> for all 19 claimed properties (static analysis of the patched copy)",
                ],
            },
            "detected_by": result["detected_by"],
            "detected_by_own_property_check": prop in result["detected_by"],
            "rules": {p: d["rules"] for p, d in result["checks"].items()},
            "inconclusive_in": result["inconclusive_in"],
        }
        json.dump(m, open(os.path.join(dst, "meta.json"), "w"), indent=1)
    print(json.dumps({k: result[k] for k in ("id", "confirmed", "suite", "demo_with_change_rc", "demo_without_change_rc", "detected_by", "inconclusive_in") if k in result}))
    return 0 if ok else 1


if __name__ == "__main__":
    sys.exit(main())
