#!/usr/bin/env python3
"""Generic AST mutation sweep used to *validate the checks* (not part of any check).

For every mutant of the non-test sources of /repo/robotools (one AST edit each):
  1. materialise it in a scratch copy outside /repo and /verif,
  2. run the unedited test suite on it; a mutant the suite kills is of no interest,
  3. run all static checks on the surviving mutant and record which report a VIOLATION / are INCONCLUSIVE.
Survivors that no check reports are written to <out>/undetected.jsonl for manual triage
(equivalent mutant / outside every property / a miss of the rules).

usage: mutate.py <out dir> [--jobs 16] [--files a.py,b.py] [--limit N]
"""
import ast
import copy
import json
import multiprocessing
import os
import shutil
import subprocess
import sys
import tempfile

REPO = "/repo"
VERIF = os.path.dirname(os.path.dirname(os.path.abspath(__file__)))
PROPS = ["C01", "C02", "C03", "C04", "C05", "C06", "C07", "C08", "C09", "C10", "C11", "C13", "C14", "C15", "C16", "C17", "C18", "C19", "C20"]

CMP_SWAP = {ast.Lt: ast.LtE, ast.LtE: ast.Lt, ast.Gt: ast.GtE, ast.GtE: ast.Gt, ast.Eq: ast.NotEq, ast.NotEq: ast.Eq, ast.Is: ast.IsNot, ast.IsNot: ast.Is, ast.In: ast.NotIn, ast.NotIn: ast.In}
BIN_SWAP = {ast.Add: ast.Sub, ast.Sub: ast.Add, ast.Mult: ast.FloorDiv, ast.FloorDiv: ast.Div, ast.Div: ast.Mult}


def sources():
    out = []
    for d, _, fs in os.walk(os.path.join(REPO, "robotools")):
        for f in fs:
            if f.endswith(".py") and not f.startswith("test_"):
                out.append(os.path.relpath(os.path.join(d, f), REPO))
    return sorted(out)


def enumerate_sites(tree):
    """[(kind, node index in ast.walk order, variant)]"""
    sites = []
    for i, n in enumerate(ast.walk(tree)):
        if isinstance(n, ast.Compare):
            for j, op in enumerate(n.ops):
                if type(op) in CMP_SWAP:
                    sites.append(("cmp", i, j))
        elif isinstance(n, ast.BinOp) and type(n.op) in BIN_SWAP:
            sites.append(("bin", i, 0))
        elif isinstance(n, ast.BoolOp):
            sites.append(("bool", i, 0))
        elif isinstance(n, ast.UnaryOp) and isinstance(n.op, ast.Not):
            sites.append(("not", i, 0))
        elif isinstance(n, ast.Constant) and isinstance(n.value, (int, float)) and not isinstance(n.value, bool):
            sites.append(("const", i, 0))
        elif isinstance(n, ast.Constant) and isinstance(n.value, bool):
            sites.append(("boolconst", i, 0))
        elif isinstance(n, (ast.If, ast.While)):
            sites.append(("negate-test", i, 0))
        if isinstance(n, (ast.FunctionDef, ast.If, ast.For, ast.While, ast.With, ast.Try, ast.ExceptHandler)):
            for fld in ("body", "orelse", "finalbody"):
                body = getattr(n, fld, None)
                if isinstance(body, list):
                    for j, st in enumerate(body):
                        if isinstance(st, (ast.Expr, ast.Assign, ast.AugAssign, ast.Raise, ast.Return, ast.Continue, ast.Break, ast.Assert, ast.If)) and not (
                                isinstance(st, ast.Expr) and isinstance(st.value, ast.Constant)):
                            sites.append(("del:" + fld, i, j))
        if isinstance(n, ast.Call) and len(n.args) >= 2:
            sites.append(("swapargs", i, 0))
        if isinstance(n, ast.Call) and n.keywords:
            for j, k in enumerate(n.keywords):
                if k.arg is not None:
                    sites.append(("dropkw", i, j))
    return sites


def apply(tree, site):
    kind, idx, j = site
    t = copy.deepcopy(tree)
    n = list(ast.walk(t))[idx]
    if kind == "cmp":
        n.ops[j] = CMP_SWAP[type(n.ops[j])]()
    elif kind == "bin":
        n.op = BIN_SWAP[type(n.op)]()
    elif kind == "bool":
        n.op = ast.Or() if isinstance(n.op, ast.And) else ast.And()
    elif kind == "not":
        n.op = ast.UAdd()  # replaced below
        return None if True else t
    elif kind == "const":
        n.value = n.value + 1 if n.value != 1 else 0
    elif kind == "boolconst":
        n.value = not n.value
    elif kind == "negate-test":
        n.test = ast.UnaryOp(op=ast.Not(), operand=n.test)
    elif kind.startswith("del:"):
        body = getattr(n, kind[4:])
        body[j] = ast.Pass()
    elif kind == "swapargs":
        n.args[0], n.args[1] = n.args[1], n.args[0]
    elif kind == "dropkw":
        del n.keywords[j]
    ast.fix_missing_locations(t)
    return t


def apply_not(tree, site):
    _, idx, _ = site
    t = copy.deepcopy(tree)
    parent_of = {}
    for p in ast.walk(t):
        for fld, val in ast.iter_fields(p):
            if isinstance(val, list):
                for k, c in enumerate(val):
                    if isinstance(c, ast.AST):
                        parent_of[id(c)] = (p, fld, k)
            elif isinstance(val, ast.AST):
                parent_of[id(val)] = (p, fld, None)
    n = list(ast.walk(t))[idx]
    p, fld, k = parent_of[id(n)]
    if k is None:
        setattr(p, fld, n.operand)
    else:
        getattr(p, fld)[k] = n.operand
    ast.fix_missing_locations(t)
    return t


def work(job):
    rel, site, mid, outdir = job
    src = open(os.path.join(REPO, rel)).read()
    tree = ast.parse(src)
    try:
        t = apply_not(tree, site) if site[0] == "not" else apply(tree, site)
        if t is None:
            return None
        new_src = ast.unparse(t)
    except Exception as e:
        return {"id": mid, "status": "unbuildable", "why": str(e)}
    if new_src == ast.unparse(tree):
        return None
    node = list(ast.walk(tree))[site[1]]
    line = getattr(node, "lineno", 0)
    if site[0].startswith("del:"):
        line = getattr(getattr(node, site[0][4:])[site[2]], "lineno", line)
    S = tempfile.mkdtemp(prefix="verif-mut-")
    try:
        shutil.copytree(os.path.join(REPO, "robotools"), os.path.join(S, "robotools"), ignore=shutil.ignore_patterns("__pycache__", "*.pyc"))
        # keep the original formatting everywhere except the mutated file (unparse of the whole file: comments are lost, semantics kept)
        open(os.path.join(S, rel), "w").write(new_src)
        env = dict(os.environ, PYTHONPATH=S, PYTHONDONTWRITEBYTECODE="1")
        p = subprocess.run(["/venv/bin/python", "-m", "pytest", "-q", "-x", "-p", "no:cacheprovider", "robotools"], cwd=S, env=env, capture_output=True, text=True, timeout=300)
        tail = (p.stdout.strip().splitlines() or [""])[-1]
        if "148 passed" not in tail:
            return {"id": mid, "file": rel, "line": line, "site": list(site), "status": "killed"}
        det, inc = [], []
        ev = os.path.join(S, "ev")
        os.makedirs(ev, exist_ok=True)
        for prop in PROPS:
            q = subprocess.run([os.path.join(VERIF, "check"), prop, "--root", S], env=dict(os.environ, VERIF_EVIDENCE_DIR=ev), capture_output=True, text=True, timeout=300)
            if q.returncode == 1:
                det.append(prop)
            elif q.returncode != 0:
                inc.append(prop)
        # the mutated line, for triage
        old_lines, new_lines = ast.unparse(tree).splitlines(), new_src.splitlines()
        diff = [(a, b) for a, b in zip(old_lines, new_lines) if a != b][:2]
        return {"id": mid, "file": rel, "line": line, "site": list(site), "status": "survived", "detected_by": det, "inconclusive_in": inc,
                "diff": [{"old": a.strip()[:160], "new": b.strip()[:160]} for a, b in diff]}
    except subprocess.TimeoutExpired:
        return {"id": mid, "file": rel, "line": line, "site": list(site), "status": "timeout"}
    finally:
        shutil.rmtree(S, ignore_errors=True)


def one(mid: str, props):
    """Materialise one mutant (id `<relative file>#<site index>`) and run the given checks on it (no test run)."""
    rel, k = mid.rsplit("#", 1)
    tree = ast.parse(open(os.path.join(REPO, rel)).read())
    site = enumerate_sites(tree)[int(k)]
    t = apply_not(tree, site) if site[0] == "not" else apply(tree, site)
    S = tempfile.mkdtemp(prefix="verif-mut-")
    try:
        shutil.copytree(os.path.join(REPO, "robotools"), os.path.join(S, "robotools"), ignore=shutil.ignore_patterns("__pycache__", "*.pyc"))
        open(os.path.join(S, rel), "w").write(ast.unparse(t))
        ev = os.path.join(S, "ev")
        os.makedirs(ev, exist_ok=True)
        for prop in props:
            q = subprocess.run([os.path.join(VERIF, "check"), prop, "--root", S], env=dict(os.environ, VERIF_EVIDENCE_DIR=ev), capture_output=True, text=True)
            lines = [l for l in q.stdout.splitlines() if "rule=" in l or "INCONCLUSIVE" in l]
            print(f"{mid} {prop} exit={q.returncode}")
            for l in lines[:4]:
                print("   ", l.strip()[:260])
    finally:
        shutil.rmtree(S, ignore_errors=True)


def main():
    if sys.argv[1] == "--one":
        return one(sys.argv[2], sys.argv[3].split(","))
    outdir = sys.argv[1]
    jobs_n = int(sys.argv[sys.argv.index("--jobs") + 1]) if "--jobs" in sys.argv else 16
    files = sys.argv[sys.argv.index("--files") + 1].split(",") if "--files" in sys.argv else sources()
    limit = int(sys.argv[sys.argv.index("--limit") + 1]) if "--limit" in sys.argv else None
    os.makedirs(outdir, exist_ok=True)
    jobs = []
    for rel in files:
        tree = ast.parse(open(os.path.join(REPO, rel)).read())
        for k, site in enumerate(enumerate_sites(tree)):
            jobs.append((rel, site, f"{rel}#{k}", outdir))
    if limit:
        import random

        random.Random(1).shuffle(jobs)
        jobs = jobs[:limit]
    print(f"{len(jobs)} mutants", flush=True)
    stats = {"killed": 0, "survived": 0, "detected": 0, "undetected": 0, "inconclusive_only": 0, "other": 0}
    with multiprocessing.Pool(jobs_n) as pool, open(os.path.join(outdir, "all.jsonl"), "w") as fa, open(os.path.join(outdir, "undetected.jsonl"), "w") as fu:
        for r in pool.imap_unordered(work, jobs, chunksize=1):
            if r is None:
                continue
            fa.write(json.dumps(r) + "\n")
            fa.flush()
            if r["status"] == "killed":
                stats["killed"] += 1
            elif r["status"] == "survived":
                stats["survived"] += 1
                if r["detected_by"]:
                    stats["detected"] += 1
                elif r["inconclusive_in"]:
                    stats["inconclusive_only"] += 1
                    fu.write(json.dumps(r) + "\n")
                    fu.flush()
                else:
                    stats["undetected"] += 1
                    fu.write(json.dumps(r) + "\n")
                    fu.flush()
            else:
                stats["other"] += 1
    print(json.dumps(stats))
    json.dump(stats, open(os.path.join(outdir, "stats.json"), "w"))


if __name__ == "__main__":
    main()
