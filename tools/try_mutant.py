#!/venv/bin/python
"""Development tool: re-run the checks on mutants recorded by tools/mutate.py.
usage: try_mutant.py <jsonl from mutate.py> [--only <substring of id>] [--jobs N]   -> prints id, detecting checks, diff"""
import ast
import json
import multiprocessing
import os
import shutil
import subprocess
import sys
import tempfile

sys.path.insert(0, os.path.dirname(os.path.abspath(__file__)))
import mutate as M  # noqa: E402

VERIF = os.path.dirname(os.path.dirname(os.path.abspath(__file__)))


def work(row):
    rel, site = row["file"], tuple(row["site"])
    src = open(os.path.join("/repo", rel)).read()
    tree = ast.parse(src)
    t = M.apply_not(tree, site) if site[0] == "not" else M.apply(tree, site)
    S = tempfile.mkdtemp(prefix="verif-mut-")
    try:
        shutil.copytree("/repo/robotools", os.path.join(S, "robotools"), ignore=shutil.ignore_patterns("__pycache__"))
        open(os.path.join(S, rel), "w").write(ast.unparse(t))
        det, inc = [], []
        os.makedirs(os.path.join(S, "ev"))
        for p in M.PROPS:
            r = subprocess.run([os.path.join(VERIF, "check"), p, "--root", S], capture_output=True, text=True, env=dict(os.environ, VERIF_EVIDENCE_DIR=os.path.join(S, "ev")))
            if r.returncode == 1:
                det.append(p)
            elif r.returncode != 0:
                inc.append(p)
        return dict(row, detected_by=det, inconclusive_in=inc)
    finally:
        shutil.rmtree(S, ignore_errors=True)


if __name__ == "__main__":
    rows = [json.loads(l) for l in open(sys.argv[1])]
    if "--only" in sys.argv:
        k = sys.argv[sys.argv.index("--only") + 1]
        rows = [r for r in rows if k in r["id"]]
    jobs = int(sys.argv[sys.argv.index("--jobs") + 1]) if "--jobs" in sys.argv else 12
    with multiprocessing.Pool(jobs) as pool:
        for r in pool.imap_unordered(work, rows):
            d = r["diff"][0] if r["diff"] else {}
            print(json.dumps({"id": r["id"], "line": r["line"], "det": r["detected_by"], "inc": r["inconclusive_in"], "old": (d.get("old") or "")[:100], "new": (d.get("new") or "")[:100]}))
