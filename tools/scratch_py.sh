#!/bin/sh
# usage: scratch_py.sh <patch.diff> <script.py>   -- run a python snippet with ROOT=<scratch copy with patch>
P="$1"; SCR="$2"
S=$(mktemp -d /tmp/verif-try-XXXXXX)
trap 'rm -rf "$S"' EXIT
cp -r /repo/robotools "$S/robotools"
find "$S" -name __pycache__ -prune -exec rm -rf {} + 2>/dev/null
( cd "$S" && patch -p1 -s --no-backup-if-mismatch < "$P" ) || { echo "PATCH FAILED"; exit 3; }
ROOT="$S" PYTHONPATH=/verif /venv/bin/python -B "$SCR"
