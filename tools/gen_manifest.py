#!/usr/bin/env python3
"""Regenerate /verif/MANIFEST.json from the table below (run after adding/removing a rule module)."""
import json
import os

VERIF = os.path.dirname(os.path.dirname(os.path.abspath(__file__)))

CLAIMS = {
    "C01": ("def-use origin equality between tracking call and emitted record (routing/pairing clauses only)",
            "Decides the routing half: every A/D/R record names the rack, well and volume with the same def-use origin as the labware/wells/volumes handed to Labware.add/remove, for aspirate/dispense under each device class, both transfer copies and distribute. Replayed numeric volumes/compositions are NOT decided.", "4/C01"),
    "C02": ("who-may-write ownership + guard dominance with canonical value equality",
            "Every store into the volume array is enumerated from the tree, must sit in Labware.__init__/add/remove, be a single-element store and be dominated by a raising guard whose canonical comparison is exactly (value written) > max_volume / < min_volume; amounts proven non-negative by a NaN-rejecting check; no swallowing handler; no alias of the live array escapes. Holds for all inputs because it does not depend on them.", "4/C02"),
    "C03": ("must-precede path query on CFG + effect summaries; guard dominance for the per-step limit",
            "On every CFG path of every worklist method (resolved per device) the tracking call precedes any pipetting emission; every step volume is dominated by the max_volume guard raising InvalidOperationError and every call chain passes the worklist's own max_volume; emitters validate before appending; __exit__ saves unconditionally.", "4/C03"),
    "C04": ("element-store frame rule, delta canonical form, prologue sibling agreement",
            "Shape of the update loops: single-element stores at indices[well of this iteration], delta exactly +/-volume of the same iteration, no dedup/early exit, column-major normalisation and singleton-only broadcast at all 8 pairing sites, length guard, trough alias map (0, c). Float summation over histories not decided.", "4/C04"),
    "C05": ("effect-summary ownership, origin pairing, mixing-formula canonical form, zero-denominator guard",
            "Ownership of the composition map (remove never writes it), local writes, combine_composition argument origins, result covers all components with weights f*V/(VA+VB), division guarded against zero total, source composition handed to dispense, default-name dependence on well/column. Numeric mixing over histories not decided.", "4/C05"),
    "C06": ("wiring/iteration-space canonical forms, remainder idiom, two-point bound provenance domain",
            "auto_split wiring to partition_volume(max_volume=self.max_volume), emission nest visits every list element once, remainder idiom, every returned step has a proven <= max_volume provenance (no unclamped upward rounding), multi_disp reduced by floor(max/volume). Step-count arithmetic for all floats not decided.", "4/C06"),
    "C07": ("straight-line step-block rule, truth-table of the tip-action dispatch, dominance of rejections",
            "Step block = aspirate -> dispense -> tip action with the same volume/kwargs, total and exact wash/flush/reuse dispatch, break records after split groups, rejection of unequal lengths and negative volumes dominates the loops. Aggregated numeric flows rely on C18/C06 clauses.", "4/C07"),
    "C08": ("polynomial canonical forms per guard path, well-ID template agreement, regex AST comparison",
            "Numbering formulas of both devices and of Labware.positions equal the specified polynomials per trough/plate path with r/c bound to the right ID part; all ID templates {row}{col:02d}; regexes parsed and compared; unknown IDs reach a raising lookup before emission.", "4/C08"),
    "C09": ("template registry with slot origins, taint/sanitiser dominance, discriminator-vs-registry",
            "Every record template is enumerated; field counts and slot origins match the Tecan grammar table; every hole fed by a text argument is dominated by a ';'(+length) rejection and every numeric hole by a type-establishing guard or conversion; rejections precede appends; set_diti's discriminator matches only the break record. Parser round trip not decided.", "4/C09"),
    "C10": ("finite tables (enum, int_to_tip), fold idempotence, guard dominance",
            "Tip enum values are 2**(n-1), int_to_tip maps exactly 1..8, every fold of tips into a mask is idempotent (sum(set) / |=), Tip.Any is rejected inside collections and maps to the empty field alone, EVO slot list equals the enum table.", "4/C10"),
    "C11": ("history ownership, snapshot rule, exactly-once log, counter/condense canonical forms, bounded finite-model evaluation of the LVH counter equations",
            "Only __init__/log/condense_log touch the history; stored values are copies; log exactly once after the last write; step counter += 1 once per executed pair and handed to condense_log unconditionally (2n same-labware); condense_log guarded against n == 0; the LVH counter equations read off the CFG equal sum(max(len(steps)-1,0)) on a finite table of 930 step-list length scenarios (bounded, evaluated by the checker's own expression evaluator, nothing of the repo is run); report iterates everything.", "4/C11"),
    "C13": ("must-precede, argument-origin equality, interval cross-check of guard/message/docstring, sibling differ",
            "evo_aspirate/evo_dispense track before emitting and hand the same wells/volumes/tips to tracking and formatter; validators reject non-ascending/duplicate tips and wells; every range guard agrees with its own error message and docstring; template slots carry the same-named validator outputs; aspirate/dispense siblings agree. Decoded per-well volumes not decided.", "4/C13"),
    "C14": ("guard dominance, rounding provenance, budget-guard existence, parallel-list integrity",
            "No state is stored before the feasibility check; all plan volumes have an integral-rounding origin and are dominated by the min_transfer test; serial sources range over already planned columns and a remaining-volume guard dominates every draw; to_worklist pairs volumes/columns from the same instruction. Plan arithmetic not decided.", "4/C14"),
    "C15": ("polynomial index maps + substitution for inverse laws, sibling shape rule, RNG ownership",
            "Index maps of shift/unshift/rotate read off the loops equal the specified polynomials, compositions reduce to identity by substitution, fit guard canonical, all six transforms flatten->map->reshape, only the seeded RandomState is used.", "4/C15"),
    "C16": ("override-set rule + canonical statement-level sibling differ with two named exceptions; reuse of the history-count and pairing rules for both transfer copies",
            "Device classes override only __init__ (pure delegation), _get_well_position, transfer (+evo_*); the two transfer copies are equal after canonicalisation modulo the deprecated wash_scheme=None block and the class of non-volume rejections; numbering differs only on troughs; base refuses.", "4/C16"),
    "C17": ("abstract evaluation of the open()/write() configuration, guard strength",
            "save() truncates ('w'), effective separator CRLF, Latin-1, writes exactly the join over self once; extension guard is a suffix test; __enter__ clears, __exit__ saves; __str__/__repr__ join the records.", "4/C17"),
    "C18": ("same-key/same-permutation origin rules, exhaustive scenario table of the loop-free auto decision",
            "Grouping appends s,d,v of one zip element under one key without skipping; one argsort permutation of the partitioning side indexes all three lists; groups in sorted key order; decision table and mode validation exact.", "4/C18"),
    "C19": ("guard dominance + repeat/truncate idiom table",
            "Type/negativity/emptiness guards dominate the return; wells flattened column-major; result is (L * k)[:n] with k*len(L) >= n for all n.", "4/C19"),
    "C20": ("validation-guard table, literal-slice rule, NaN-transparency rule, parallel construction",
            "Every unrepresentable specification named in the property has a dominating raise ValueError before the first state store; guards are NaN-rejecting; the alphabet slice is bounded; wells/indices/volumes are built from the same dimensions; history starts with one snapshot.", "4/C20"),
}

NOT_APPLICABLE = {
    "C12": "correctness of a 7-bit packing loop for every (geometry, subset) is an arithmetic fact about computed values; the only structural handles are literals whose match would be a frozen source fragment - no sound static argument in reach (DESIGN.md section 5)",
}


def main() -> None:
    props = [json.loads(l)["id"] for l in open(os.path.join(VERIF, "properties.jsonl"))]
    checks = []
    na = []
    for p in props:
        if p in NOT_APPLICABLE:
            na.append({"property_id": p, "reason": NOT_APPLICABLE[p]})
            continue
        built = os.path.exists(os.path.join(VERIF, "sa", "rules", f"{p.lower()}.py"))
        if not built:
            na.append({"property_id": p, "reason": "check not built yet (work in progress; see DESIGN.md section 4 for the planned rules)"})
            continue
        tech, text, ref = CLAIMS[p]
        checks.append({
            "property_id": p,
            "quick_cmd": f"./check {p} --tier quick",
            "thorough_cmd": f"./check {p} --tier thorough",
            "evidence_file": f"/verif/evidence/{p}.json",
            "replay_cmd_template": f"./check {p} --replay {{path}}",
            "engine": "sa",
            "level_claimed": {"category": "other", "text": "Static analysis of /repo's current source (no execution): " + text, "design_ref": f"DESIGN.md section {ref}"},
            "level_note": "Trusted base: CPython ast grammar, the engine in /verif/sa (CFG, dominance facts, def-use origins, polynomial canoniser), Python/numpy semantics of the closed vocabulary listed in the evidence assumptions. Structural necessary conditions only; numeric clauses are listed as not decided in DESIGN.md.",
            "technique": "static analysis (custom ast/CFG/def-use checker): " + tech,
        })
    m = {
        "version": 1,
        "setup_cmd": "true",
        "hooks": {
            "guard": "JUBIOTECH_ROBOTOOLS_VERIF",
            "enable": "none needed: the checks are static and never import or run robotools; no hook commits exist",
            "baseline_off_cmd": "cd /repo && /venv/bin/python -m pytest -q -p no:cacheprovider robotools",
            "source_commits": [],
            "add_only": True,
        },
        "engines": [{"name": "sa", "path": "/verif/sa", "serves_properties": [c["property_id"] for c in checks],
                     "kind_free_text": "repository-specific static analyser on stdlib ast: program model with MRO/call resolution, statement CFG with dominance facts, reaching definitions and origin terms, polynomial/comparison canoniser, effect summaries, template model, sibling differ"}],
        "checks": checks,
        "not_applicable": na,
        "notes": "All checks read /repo's working tree on every run (override with --root/VERIF_REPO_ROOT for scratch copies). Exit 0 held, 1 VIOLATION, 2 analysis inconclusive/error. Known findings in /verif/known_findings.json.",
    }
    with open(os.path.join(VERIF, "MANIFEST.json"), "w") as f:
        json.dump(m, f, indent=1)
    print(f"{len(checks)} checks, {len(na)} not applicable")


if __name__ == "__main__":
    main()
