#!/bin/sh
# usage: fixcommit.sh "<message>"  -- runs the unedited suite in /repo, commits only when 148 pass
set -e
cd /repo
out=$(/venv/bin/python -m pytest -q -p no:cacheprovider robotools 2>&1 | tail -1)
echo "$out"
case "$out" in
  "148 passed"*) git add -A && git commit -qm "$1" && git log --oneline | head -1 ;;
  *) echo "NOT COMMITTED"; exit 1 ;;
esac
