#!/bin/sh
# usage: why.sh <seed id or abs patch> <Cxx>...  -- print verdict lines (rule, construct, detail) for non-holding obligations
P="$1"; shift
case "$P" in /*) ;; *) P=/verif/seeded/$P/patch.diff;; esac
S=$(mktemp -d /tmp/verif-why-XXXXXX)
trap 'rm -rf "$S"' EXIT
cp -r /repo/robotools "$S/robotools"
( cd "$S" && patch -p1 -s --no-backup-if-mismatch < "$P" ) || { echo "PATCH FAILED"; exit 3; }
for id in "$@"; do
  mkdir -p "$S/ev-$id"
  VERIF_EVIDENCE_DIR="$S/ev-$id" /verif/check "$id" --root "$S" >"$S/out" 2>&1; rc=$?
  echo "== $id exit=$rc"
  grep "INCONCLUSIVE\|ANALYSIS-ERROR\|Traceback\|Error" "$S/out" | sed "s#$S#<s>#g" | cut -c1-400 | head -8
  /venv/bin/python - "$S/ev-$id" <<'PY'
import json,sys,glob
for f in sorted(glob.glob(sys.argv[1]+'/violations/*.json')):
    d=json.load(open(f))
    print('  REFUTED', d.get('rule'),'|',d.get('construct'),'|',str(d.get('detail'))[:300],'|',d.get('where'))
PY
done
