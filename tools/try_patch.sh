#!/bin/sh
# usage: try_patch.sh <patch.diff> <Cxx> [<Cyy> ...]   -- analyse a scratch copy of /repo with the patch applied (static only)
P="$1"; shift
S=$(mktemp -d /tmp/verif-try-XXXXXX)
trap 'rm -rf "$S"' EXIT
cp -r /repo/robotools "$S/robotools"
find "$S" -name __pycache__ -prune -exec rm -rf {} + 2>/dev/null
( cd "$S" && patch -p1 -s --no-backup-if-mismatch < "$P" ) || { echo "PATCH FAILED"; exit 3; }
mkdir -p "$S/ev"
for id in "$@"; do
  VERIF_EVIDENCE_DIR="$S/ev" /verif/check "$id" --root "$S" | sed "s#$S#<scratch>#g"
  echo "[$id exit=$?]"
done
