"""Verdict bookkeeping, known findings, evidence files, exit codes."""
from __future__ import annotations

import hashlib
import json
import os
import re
import time
from dataclasses import dataclass, field
from typing import Any, Dict, List, Optional

VERIF = os.path.dirname(os.path.dirname(os.path.abspath(__file__)))
KNOWN_FILE = os.path.join(VERIF, "known_findings.json")

HOLDS, REFUTED, INCONCLUSIVE = "HOLDS", "REFUTED", "INCONCLUSIVE"


@dataclass
class Result:
    rule: str  # e.g. C03.check-before-emit
    construct: str  # module:qualname[/slot]  -- no line numbers
    status: str
    detail: str = ""
    where: str = ""  # file:line (function) for humans
    data: Dict[str, Any] = field(default_factory=dict)

    @property
    def key(self) -> str:
        return f"{self.rule}|{self.construct}"


class Report:
    def __init__(self, prop: str, tier: str, root: str):
        self.prop, self.tier, self.root = prop, tier, root
        self.results: List[Result] = []
        self.t0 = time.time()
        self.analysed_functions: set = set()
        self.analysed_modules: set = set()
        self.call_stats = {"resolved": 0, "external": 0, "unresolved": 0}
        self.notes: List[str] = []
        self.selfcheck: Optional[Dict[str, Any]] = None

    # ------------------------------------------------------------- recording
    def add(self, rule, construct, status, detail="", where="", **data) -> Result:
        r = Result(rule, construct, status, detail, where, data)
        self.results.append(r)
        return r

    def holds(self, rule, construct, detail="", where="", **data):
        return self.add(rule, construct, HOLDS, detail, where, **data)

    def refuted(self, rule, construct, detail="", where="", **data):
        return self.add(rule, construct, REFUTED, detail, where, **data)

    def inconclusive(self, rule, construct, detail="", where="", **data):
        return self.add(rule, construct, INCONCLUSIVE, detail, where, **data)

    def check(self, ok: Optional[bool], rule, construct, detail_ok="", detail_bad="", where="", **data):
        """ok True -> HOLDS, False -> REFUTED, None -> INCONCLUSIVE."""
        if ok is True:
            return self.holds(rule, construct, detail_ok, where, **data)
        if ok is False:
            return self.refuted(rule, construct, detail_bad or detail_ok, where, **data)
        return self.inconclusive(rule, construct, detail_bad or detail_ok, where, **data)

    def floor(self, rule: str, what: str, count: int, minimum: int):
        """Vacuity floor: fewer instances than confirmed by hand => the analysis is broken (exit 2)."""
        if count < minimum:
            self.inconclusive(rule, f"floor/{what}", f"only {count} {what} enumerated, expected at least {minimum} (anchor vanished or renamed?)")
        else:
            self.notes.append(f"{rule}: {count} {what} (floor {minimum})")

    def touch(self, f) -> None:
        self.analysed_functions.add(f.qualname)
        self.analysed_modules.add(f.module.relpath)


# ---------------------------------------------------------------- known findings
def load_known() -> List[Dict[str, Any]]:
    if not os.path.exists(KNOWN_FILE):
        return []
    with open(KNOWN_FILE) as f:
        return json.load(f).get("findings", [])


def is_known(prop: str, key: str, known: List[Dict[str, Any]]) -> Optional[Dict[str, Any]]:
    for k in known:
        if k.get("status") == "known" and k.get("property") == prop and k.get("key") == key:
            return k
    return None


def _slug(s: str) -> str:
    return re.sub(r"[^A-Za-z0-9_.-]+", "_", s)[:80]


def finish(rep: Report, level: str = "other", assumptions: Optional[List[str]] = None, explanation: str = "") -> int:
    """Print verdict lines, write evidence + replay artefacts, return the exit code."""
    known = load_known()
    prop = rep.prop
    out = os.environ.get("VERIF_EVIDENCE_DIR") or os.path.join(VERIF, "evidence")
    viol_dir = os.path.join(out, "violations")
    os.makedirs(viol_dir, exist_ok=True)
    n_viol = 0
    n_known = 0
    n_inc = 0
    lines: List[str] = []
    for r in rep.results:
        if r.status == REFUTED:
            k = is_known(prop, r.key, known)
            if k is not None:
                n_known += 1
                lines.append(f"KNOWN-FINDING: property={prop} {r.rule} {r.construct}: {k.get('what', r.detail)}")
                continue
            n_viol += 1
            h = hashlib.sha1(r.key.encode()).hexdigest()[:10]
            path = os.path.join(viol_dir, f"{prop}-{_slug(r.rule)}-{h}.json")
            with open(path, "w") as f:
                json.dump(
                    {"property": prop, "rule": r.rule, "construct": r.construct, "key": r.key, "where": r.where,
                     "detail": r.detail, "data": r.data, "root": rep.root}, f, indent=1, default=str)
            lines.append(f"VIOLATION property={prop} replay={path}")
            lines.append(f"  rule={r.rule} at {r.where or r.construct}: {r.detail}")
        elif r.status == INCONCLUSIVE:
            n_inc += 1
            lines.append(f"ANALYSIS-INCONCLUSIVE property={prop} rule={r.rule} at={r.where or r.construct}: {r.detail}")
    n_obl = len(rep.results)
    n_ok = sum(1 for r in rep.results if r.status == HOLDS)
    distinct = len({r.construct for r in rep.results})
    samples = []
    seen_rules = set()
    for r in rep.results:
        if r.rule in seen_rules and len(samples) >= 12:
            continue
        if r.rule in seen_rules and r.status == HOLDS:
            continue
        seen_rules.add(r.rule)
        samples.append({"rule": r.rule, "construct": r.construct, "where": r.where, "status": r.status, "detail": r.detail[:400]})
    by_rule: Dict[str, Dict[str, int]] = {}
    for r in rep.results:
        d = by_rule.setdefault(r.rule, {HOLDS: 0, REFUTED: 0, INCONCLUSIVE: 0})
        d[r.status] += 1
    wall = time.time() - rep.t0
    evidence = {
        "property_id": prop,
        "tier": rep.tier,
        "seed": int(os.environ.get("VERIF_SEED", "0") or 0),
        "level": level,
        "coverage": {
            "explanation": explanation
            or "Static analysis of the current source tree (ast-based CFG, dominance facts, def-use origin terms, "
            "polynomial canonical forms, effect summaries). Each obligation is one structural fact at one construct; "
            "numeric clauses of the property are not decided (see DESIGN.md).",
            "obligations": n_obl,
            "discharged": n_ok,
            "evaluations": n_obl,
            "distinct_nontrivial": distinct,
            "rule": "one evaluation = one rule instance (obligation) at one construct of /repo's current tree; "
            "distinct_nontrivial = number of distinct constructs (function/statement/slot keys) that carry at least one obligation",
            "samples": samples,
            "by_rule": by_rule,
            "analysed_root": rep.root,
            "analysed_modules": sorted(rep.analysed_modules),
            "analysed_functions": sorted(rep.analysed_functions),
            "call_resolution": rep.call_stats,
            "floors": rep.notes,
            "known_findings_printed": n_known,
            "inconclusive": n_inc,
            "exhaustive": True,
        },
        "assumptions": assumptions or [],
        "wall_s": round(wall, 3),
        "violations": n_viol,
    }
    if rep.selfcheck is not None:
        evidence["coverage"]["selfcheck"] = rep.selfcheck
    os.makedirs(out, exist_ok=True)
    with open(os.path.join(out, f"{prop}.json"), "w") as f:
        json.dump(evidence, f, indent=1, default=str)
    for ln in lines:
        print(ln)
    print(
        f"{prop} [{rep.tier}] obligations={n_obl} holds={n_ok} refuted={n_viol + n_known} (known={n_known}) "
        f"inconclusive={n_inc} functions={len(rep.analysed_functions)} wall={wall:.2f}s root={rep.root}"
    )
    if n_viol:
        return 1
    if n_inc:
        return 2
    return 0
