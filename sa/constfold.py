"""Folding of module-level constant expressions.

`TEMPLATE = ";".join(["{}"] * 11)`, `LIMIT = 2 ** 5`, `PREFIX = "B;" + "Wash"` are literals written as expressions: the
rules read the literal.  Only closed expressions over literals and earlier folded names are folded, with the operators
and the handful of string/list methods below; everything else is left as it is written.
"""
from __future__ import annotations

import ast
from typing import Any, Dict


class NotConstant(Exception):
    pass


_BIN = {
    ast.Add: lambda a, b: a + b, ast.Sub: lambda a, b: a - b, ast.Mult: lambda a, b: a * b, ast.FloorDiv: lambda a, b: a // b, ast.Mod: lambda a, b: a % b,
    ast.Pow: lambda a, b: a ** b, ast.LShift: lambda a, b: a << b, ast.BitOr: lambda a, b: a | b, ast.BitAnd: lambda a, b: a & b,
}


def value(e: ast.AST, env: Dict[str, Any]) -> Any:
    if isinstance(e, ast.Constant) and isinstance(e.value, (str, int, float)) and not isinstance(e.value, bool):
        return e.value
    if isinstance(e, ast.Name) and e.id in env:
        return env[e.id]
    if isinstance(e, (ast.List, ast.Tuple)):
        out = [value(x, env) for x in e.elts]
        return out if isinstance(e, ast.List) else tuple(out)
    if isinstance(e, ast.BinOp) and type(e.op) in _BIN:
        a, b = value(e.left, env), value(e.right, env)
        if isinstance(e.op, (ast.Pow, ast.LShift)) and not (isinstance(b, int) and 0 <= b <= 64):
            raise NotConstant()
        if isinstance(e.op, ast.Mult) and (isinstance(a, (str, list, tuple)) or isinstance(b, (str, list, tuple))):
            n = b if isinstance(a, (str, list, tuple)) else a
            if not (isinstance(n, int) and 0 <= n <= 64):
                raise NotConstant()
        try:
            return _BIN[type(e.op)](a, b)
        except Exception:
            raise NotConstant()
    if isinstance(e, ast.UnaryOp) and isinstance(e.op, ast.USub):
        v = value(e.operand, env)
        if isinstance(v, (int, float)):
            return -v
    if isinstance(e, ast.JoinedStr):
        parts = []
        for p in e.values:
            if isinstance(p, ast.Constant):
                parts.append(str(p.value))
            elif isinstance(p, ast.FormattedValue) and p.conversion == -1 and p.format_spec is None:
                v = value(p.value, env)
                if not isinstance(v, (str, int)):
                    raise NotConstant()
                parts.append(str(v))
            else:
                raise NotConstant()
        return "".join(parts)
    if isinstance(e, ast.Call) and isinstance(e.func, ast.Attribute) and not e.keywords:
        recv = value(e.func.value, env)
        args = [value(a, env) for a in e.args]
        if isinstance(recv, str) and e.func.attr == "join" and len(args) == 1 and isinstance(args[0], (list, tuple)) and all(isinstance(x, str) for x in args[0]):
            return recv.join(args[0])
        if isinstance(recv, str) and e.func.attr in ("upper", "lower", "strip") and not args:
            return getattr(recv, e.func.attr)()
    if isinstance(e, ast.Call) and isinstance(e.func, ast.Name) and e.func.id == "len" and len(e.args) == 1 and not e.keywords:
        v = value(e.args[0], env)
        if isinstance(v, (str, list, tuple)):
            return len(v)
    raise NotConstant()


def literal(v: Any, like: ast.AST) -> ast.AST:
    if isinstance(v, (str, int, float)) and not isinstance(v, bool):
        return ast.copy_location(ast.Constant(value=v), like)
    if isinstance(v, (list, tuple)) and len(v) <= 64 and all(isinstance(x, (str, int, float)) and not isinstance(x, bool) for x in v):
        elts = [ast.copy_location(ast.Constant(value=x), like) for x in v]
        node = ast.List(elts=elts, ctx=ast.Load()) if isinstance(v, list) else ast.Tuple(elts=elts, ctx=ast.Load())
        return ast.copy_location(node, like)
    raise NotConstant()


def fold_module(assigns: Dict[str, ast.AST], multiply_bound=()) -> int:
    """Replace, in place, every module-level value that is a closed constant expression by its literal. -> number folded"""
    env: Dict[str, Any] = {}
    n = 0
    for name, e in list(assigns.items()):
        if name in multiply_bound:
            continue
        try:
            v = value(e, env)
        except NotConstant:
            continue
        except RecursionError:
            continue
        env[name] = v
        if isinstance(e, (ast.Constant,)) or (isinstance(e, (ast.List, ast.Tuple)) and all(isinstance(x, ast.Constant) for x in e.elts)):
            continue
        try:
            assigns[name] = literal(v, e)
            n += 1
        except NotConstant:
            pass
    return n
