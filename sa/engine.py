"""Function views (CFG + resolver + call sites), effect summaries (E3), path queries (E4), templates (E7)."""
from __future__ import annotations

import ast
import copy
from dataclasses import dataclass
from typing import Callable, Dict, FrozenSet, Iterable, List, Optional, Set, Tuple

from .cfg import CFG, Node
from .defuse import Resolver, is_sym, key, show, strip_norm, sym
from .model import AnalysisInconclusive, Callee, ClassInfo, FunctionInfo, Program


@dataclass
class CallSite:
    call: ast.Call
    node: int
    callee: Callee


def own_walk(root: ast.AST):
    """ast.walk that does not descend into nested function/class definitions or lambdas."""
    stack = [root]
    while stack:
        n = stack.pop()
        yield n
        for c in ast.iter_child_nodes(n):
            if isinstance(c, (ast.FunctionDef, ast.AsyncFunctionDef, ast.ClassDef, ast.Lambda)):
                continue
            stack.append(c)


def node_roots(n: Node) -> List[ast.AST]:
    a = n.ast
    if a is None:
        return []
    if n.kind == "for":
        return [a.iter, a.target]
    if n.kind == "with":
        out = []
        for it in a.items:
            out.append(it.context_expr)
            if it.optional_vars is not None:
                out.append(it.optional_vars)
        return out
    if n.kind == "handler":
        return [a.type] if a.type is not None else []
    if n.kind == "assert_fail":
        return [a.msg] if a.msg is not None else []
    if n.kind == "stmt" and isinstance(a, (ast.FunctionDef, ast.AsyncFunctionDef, ast.ClassDef)):
        return []
    return [a]


@dataclass
class TemplateReturn:
    id: int  # node at which the template expression is written (resolve its holes here)
    ast: ast.stmt  # the return statement (for locations)
    value: ast.JoinedStr


_FLIP = {ast.NotEq: ast.Eq, ast.NotIn: ast.In, ast.IsNot: ast.Is}


def canonical_atom(e: ast.AST, pol: bool) -> Tuple[ast.AST, bool]:
    """Strip `not`, rewrite negative comparison operators to the positive one with flipped polarity."""
    while isinstance(e, ast.UnaryOp) and isinstance(e.op, ast.Not):
        e, pol = e.operand, not pol
    if isinstance(e, ast.Compare) and len(e.ops) == 1 and type(e.ops[0]) in _FLIP:
        e = ast.Compare(left=e.left, ops=[_FLIP[type(e.ops[0])]()], comparators=e.comparators)
        pol = not pol
    if isinstance(e, ast.Call) and isinstance(e.func, ast.Name) and e.func.id == "bool" and len(e.args) == 1:
        return canonical_atom(e.args[0], pol)
    return e, pol


class FV:
    """Everything the rules need to know about one function (optionally for a concrete `self` class)."""

    def __init__(self, prog: Program, f: FunctionInfo, concrete: Optional[ClassInfo] = None):
        self.prog, self.f, self.concrete = prog, f, concrete
        self.cfg = CFG(f.node, f.where())
        self.res = Resolver(self.cfg, f.params)
        self.env = prog.local_types(f, concrete)
        self._calls: Optional[List[CallSite]] = None
        self._expr_node: Dict[int, int] = {}
        self.registry = None  # Effects instance (shared cache of function views), set by Effects.fv
        self.res.inliner = self._inline
        self._inlining = False
        consts = list(f.module.assigns.items())
        for local_, dotted in f.module.imports.items():
            # a constant of another module of the package imported by name (also: made known here by an expanded helper)
            modn, _, attr_ = dotted.rpartition(".")
            om = prog.modules.get(modn)
            if om is not None and attr_ in om.assigns and local_ not in f.module.assigns:
                consts.append((local_, om.assigns[attr_]))
        for cname, cval in consts:
            if isinstance(cval, ast.Call) and isinstance(cval.func, ast.Name) and cval.func.id in ("frozenset", "set", "tuple", "list") and len(cval.args) == 1 and not cval.keywords \
                    and isinstance(cval.args[0], (ast.Set, ast.Tuple, ast.List)):
                # frozenset({...}) / tuple([...]) of literals: read as the literal collection of that kind
                kind = ast.Set if cval.func.id in ("frozenset", "set") else ast.Tuple if cval.func.id == "tuple" else ast.List
                cval = ast.copy_location(kind(elts=list(cval.args[0].elts)) if kind is ast.Set else kind(elts=list(cval.args[0].elts), ctx=ast.Load()), cval)
            if isinstance(cval, ast.Constant) and isinstance(cval.value, (str, int, float)) and not isinstance(cval.value, bool):
                self.res.module_consts[cname] = cval
            elif isinstance(cval, (ast.Set, ast.Tuple, ast.List)) and cval.elts and len(cval.elts) <= 12 and all(
                    isinstance(x, ast.Constant) and isinstance(x.value, (str, int, float)) and not isinstance(x.value, bool) for x in cval.elts):
                # a small literal collection of constants (the set of accepted mode names / scheme numbers)
                self.res.module_consts[cname] = cval
            elif isinstance(cval, ast.Dict) and cval.keys and len(cval.keys) <= 12 and all(
                    isinstance(x, ast.Constant) and isinstance(x.value, (str, int, float)) and not isinstance(x.value, bool) for x in list(cval.keys) + list(cval.values)):
                # a small literal lookup table (name -> code)
                self.res.module_consts[cname] = cval
        for n in self.cfg.nodes:
            for r in node_roots(n):
                for sub in own_walk(r):
                    self._expr_node.setdefault(id(sub), n.id)

    # ----------------------------------------------------------------- basics
    @property
    def qual(self) -> str:
        return self.f.qualname

    def node_of(self, expr: ast.AST) -> int:
        nid = self._expr_node.get(id(expr))
        if nid is None:
            raise AnalysisInconclusive("engine", self.f.where(expr), "expression is not part of this function's CFG")
        return nid

    def resolve(self, expr: ast.AST, at: Optional[int] = None) -> ast.AST:
        return self.res.resolve(expr, self.node_of(expr) if at is None else at)

    def rkey(self, expr: ast.AST, at: Optional[int] = None) -> str:
        return key(self.resolve(expr, at))

    def calls(self) -> List[CallSite]:
        if self._calls is None:
            out = []
            for n in self.cfg.nodes:
                for r in node_roots(n):
                    for sub in own_walk(r):
                        if isinstance(sub, ast.Call):
                            out.append(CallSite(sub, n.id, self.prog.resolve_call(self.f, sub, self.env)))
            out.sort(key=lambda c: (getattr(c.call, "lineno", 0), getattr(c.call, "col_offset", 0)))
            self._calls = out
        return self._calls

    def calls_to(self, pred: Callable[[Callee], bool]) -> List[CallSite]:
        return [c for c in self.calls() if pred(c.callee)]

    def calls_func(self, short: str) -> List[CallSite]:
        """Call sites whose resolved package callee has the short name `Class.method` / `function`."""
        return [c for c in self.calls() if c.callee.kind in ("func", "class") and c.callee.func is not None and c.callee.func.short == short]

    def calls_method_named(self, name: str) -> List[CallSite]:
        out = []
        for c in self.calls():
            if c.callee.kind in ("func", "class") and c.callee.func is not None and c.callee.func.name == name:
                out.append(c)
            elif c.callee.kind == "method" and c.callee.name == name:
                out.append(c)
        return out

    def statements(self) -> Iterable[Tuple[Node, ast.stmt]]:
        for n in self.cfg.nodes:
            if n.kind == "stmt":
                yield n, n.ast

    # ---------------------------------------------- looking through new helper functions
    def _helper_view(self, raw_call: ast.Call):
        """(callee FunctionInfo, its FV) if the call goes to a helper that is not one of the frozen anchor functions."""
        from .anchors import KNOWN_FUNCTIONS

        if self.registry is None:
            return None
        callee = self.prog.resolve_call(self.f, raw_call, self.env)
        if callee.kind != "func" or callee.func is None or callee.func.short in KNOWN_FUNCTIONS or callee.func.qualname == self.f.qualname:
            return None
        g = callee.func
        conc = self.concrete if (g.cls is not None and self.concrete is not None and g.cls in self.prog.mro(self.concrete)) else None
        depth = getattr(self.registry, "_inline_depth", 0)
        if depth >= 3:
            return None
        return g, conc

    def _bind_terms(self, g: FunctionInfo, resolved_call: ast.Call) -> Optional[Dict[str, ast.AST]]:
        a = g.node.args
        pos = [x.arg for x in a.posonlyargs + a.args]
        mapping: Dict[str, ast.AST] = {}
        if g.cls is not None and pos and not any(isinstance(d, ast.Name) and d.id == "staticmethod" for d in g.node.decorator_list):
            recv = resolved_call.func.value if isinstance(resolved_call.func, ast.Attribute) else None
            if recv is not None:
                mapping[pos[0]] = recv
            pos = pos[1:]
        if len(resolved_call.args) == 1 and isinstance(resolved_call.args[0], ast.Starred) and not resolved_call.keywords and pos and not a.vararg \
                and all(g.param_default(p_) is None for p_ in pos):
            # f(*pair) with f(r, c): the parameters are the components of the unpacked argument
            for i, p_ in enumerate(pos):
                mapping[p_] = sym("unpack", resolved_call.args[0].value, ast.Constant(value=i))
            return mapping
        for i, arg in enumerate(resolved_call.args):
            if isinstance(arg, ast.Starred) or i >= len(pos):
                return None
            mapping[pos[i]] = arg
        for kw in resolved_call.keywords:
            if kw.arg is None:
                return None
            mapping[kw.arg] = kw.value
        for p in g.params:
            if p not in mapping:
                d = g.param_default(p)
                if d is not None:
                    mapping[p] = d
        return mapping

    @staticmethod
    def _substitute(term: ast.AST, mapping: Dict[str, ast.AST], prefix: str) -> ast.AST:
        # resolved terms share sub-objects (the resolver hands out cached nodes): rebuild functionally, never in place
        def rebuild(n):
            if isinstance(n, list):
                return [rebuild(x) for x in n]
            if not isinstance(n, ast.AST):
                return n
            if isinstance(n, ast.Name) and n.id in mapping:
                return copy.deepcopy(mapping[n.id])
            new = type(n)()
            for fld in n._fields:
                if hasattr(n, fld):
                    setattr(new, fld, rebuild(getattr(n, fld)))
            for at_ in ("lineno", "col_offset", "end_lineno", "end_col_offset"):
                if hasattr(n, at_):
                    setattr(new, at_, getattr(n, at_))
            if isinstance(new, ast.Call) and isinstance(new.func, ast.Name) and new.func.id.startswith("§"):
                new.args = [ast.Constant(value=f"{prefix}:{a.value}") if isinstance(a, ast.Constant) and isinstance(a.value, (str, int)) and not isinstance(a.value, bool) and (
                    isinstance(a.value, int) or a.value.startswith(("loop@", "comp@"))) and new.func.id in ("§elem", "§idx", "§key", "§val", "§def", "§mut", "§rec") else a for a in new.args]
            return new

        out = rebuild(term)

        class N(ast.NodeTransformer):
            # §norm(base, variants...) : after substitution the base must be re-derived from the variants
            def visit_Call(self, n: ast.Call):
                n = self.generic_visit(n)
                if is_sym(n, "norm") and len(n.args) >= 2:
                    variants = sorted(n.args[1:], key=key)
                    return ast.Call(func=n.func, args=[strip_norm(variants[0])] + variants, keywords=[])
                return n

        return N().visit(out)

    def _inline(self, resolved_call: ast.Call, raw_call: ast.Call) -> Optional[ast.AST]:
        hv = self._helper_view(raw_call)
        if hv is None:
            return None
        g, conc = hv
        reg = self.registry
        reg._inline_depth = getattr(reg, "_inline_depth", 0) + 1
        try:
            gv = reg.fv(g, conc)
            rets = gv.returns()
            if not rets:
                return None
            mapping = self._bind_terms(g, resolved_call)
            if mapping is None:
                return None
            uniq = []
            for n, t in rets:
                if key(t) not in {key(u) for u in uniq}:
                    uniq.append(t)
            if len(uniq) == 1:
                return self._substitute(uniq[0], mapping, g.short)
            if len(uniq) > 4:
                return None
            # a helper with several different return values: the set of alternatives
            from .defuse import sym as _sym

            return _sym("alt", *[self._substitute(t, mapping, g.short) for t in uniq])
        finally:
            reg._inline_depth -= 1

    def helper_exit_facts(self, node: int) -> List[Tuple[ast.AST, bool, ast.AST]]:
        """Facts that hold at the normal exit of new helper functions called before `node` (call node dominates node),
        expressed over the caller's argument terms."""
        out: List[Tuple[ast.AST, bool, ast.AST]] = []
        if self.registry is None:
            return out
        for cs in self.calls():
            if cs.node == node or not self.cfg.dominates(cs.node, node):
                continue
            hv = self._helper_view(cs.call)
            if hv is None:
                continue
            g, conc = hv
            reg = self.registry
            reg._inline_depth = getattr(reg, "_inline_depth", 0) + 1
            try:
                gv = reg.fv(g, conc)
                resolved_call = self.res.resolve(cs.call, cs.node) if False else None
                # resolve the call's arguments without inlining the call itself
                saved = self.res.inliner
                self.res.inliner = None
                try:
                    rc = self.res.resolve(cs.call, cs.node)
                finally:
                    self.res.inliner = saved
                mapping = self._bind_terms(g, rc) if isinstance(rc, ast.Call) else None
                if mapping is None:
                    continue
                for r, pol, raw in gv.rfacts_at(gv.cfg.exit):
                    out.append((self._substitute(r, mapping, g.short), pol, raw))
            finally:
                reg._inline_depth -= 1
        return out

    # ------------------------------------------------------------- return values
    def return_nodes(self) -> List[Node]:
        return [n for n in self.cfg.nodes if n.kind == "stmt" and isinstance(n.ast, ast.Return) and n.ast.value is not None]

    def returns(self) -> List[Tuple[Node, ast.AST]]:
        """[(return node, resolved value term)]"""
        return [(n, self.res.resolve(n.ast.value, n.id)) for n in self.return_nodes()]

    def alternatives(self, expr: ast.AST, at: int, depth: int = 0) -> List[Tuple[List[Tuple[ast.AST, bool]], ast.AST]]:
        """The values an expression can take together with the conditions under which it takes them:
        [(conditions [(canonical atom, polarity)], resolved value term)].
        Splits local names by their reaching definitions (conditions = atoms that hold at the definition), conditional
        expressions by their test, and calls to new helper functions by the helper's return statements."""
        if depth > 5:
            return [([], self.res.resolve(expr, at))]
        if isinstance(expr, ast.IfExp):
            rt = self.res.resolve(expr.test, at)
            out = []
            for branch, pol in ((expr.body, True), (expr.orelse, False)):
                atom = canonical_atom(rt, pol)
                for conds, val in self.alternatives(branch, at, depth + 1):
                    out.append(([atom] + conds, val))
            return out
        if isinstance(expr, ast.Name):
            defs = sorted(self.cfg.reaching()[at].get(expr.id, ()))
            simple = [d for d in defs if self.cfg.nodes[d].kind == "stmt" and isinstance(self.cfg.nodes[d].ast, ast.Assign)
                      and len(self.cfg.nodes[d].ast.targets) == 1 and isinstance(self.cfg.nodes[d].ast.targets[0], ast.Name)]
            if defs and len(simple) == len(defs) and (len(defs) > 1 or isinstance(self.cfg.nodes[defs[0]].ast.value, (ast.IfExp, ast.Call, ast.Name, ast.Subscript, ast.Attribute, ast.BinOp))):
                out = []
                for d in defs:
                    here = [(r, p) for r, p, br in self.atoms_at(d)]
                    for conds, val in self.alternatives(self.cfg.nodes[d].ast.value, d, depth + 1):
                        out.append((here + conds, val))
                return out
            if simple and len(defs) > len(simple) and all(self.cfg.nodes[d].kind in ("for", "entry") for d in defs if d not in simple):
                # a loop element / parameter that is conditionally replaced: the binding itself is one alternative
                out = []
                for d in defs:
                    dn = self.cfg.nodes[d]
                    if d in simple:
                        here = [(r, p) for r, p, br in self.atoms_at(d)]
                        for conds, val in self.alternatives(dn.ast.value, d, depth + 1):
                            out.append((here + conds, val))
                    else:
                        nxt = [s_ for s_, lab in dn.succ if lab not in ("done", "exc")]
                        val = self.res.resolve(expr, nxt[0]) if nxt and self.cfg.reaching()[nxt[0]].get(expr.id) == frozenset([d]) else sym("def", ast.Constant(value=f"{dn.kind}@{d}"), ast.Name(id=expr.id, ctx=ast.Load()))
                        out.append(([], val))
                return out
            return [([], self.res.resolve(expr, at))]
        if isinstance(expr, ast.Call):
            hv = self._helper_view(expr)
            if hv is not None:
                g, conc = hv
                reg = self.registry
                reg._inline_depth = getattr(reg, "_inline_depth", 0) + 1
                try:
                    gv = reg.fv(g, conc)
                    saved = self.res.inliner
                    self.res.inliner = None
                    try:
                        rc = self.res.resolve(expr, at)
                    finally:
                        self.res.inliner = saved
                    mapping = self._bind_terms(g, rc) if isinstance(rc, ast.Call) else None
                    if mapping is not None:
                        out = []
                        for rn in gv.return_nodes():
                            here = [(self._substitute(r, mapping, g.short), p) for r, p, br in gv.atoms_at(rn.id)]
                            for conds, val in gv.alternatives(rn.ast.value, rn.id, depth + 1):
                                out.append((here + [(self._substitute(c, mapping, g.short), p) for c, p in conds], self._substitute(val, mapping, g.short)))
                        if out:
                            return out
                finally:
                    reg._inline_depth -= 1
        # a compound expression that mentions a local with several definitions: split on that local
        return self._split_on_locals(expr, at, {}, depth)

    def _expand_single_defs(self, expr: ast.AST, at: int, depth: int = 0) -> ast.AST:
        """Replace locals that have exactly one plain definition by that definition (raw), so that a conditionally
        assigned local hidden behind temporaries (m = P.match(well); key = int(m.group(1))) becomes visible."""
        if depth > 4:
            return expr
        cfg = self.cfg

        class X(ast.NodeTransformer):
            def visit_Name(s_, n: ast.Name):
                if not isinstance(n.ctx, ast.Load):
                    return n
                defs = sorted(cfg.reaching()[at].get(n.id, ()))
                if len(defs) == 1:
                    dn = cfg.nodes[defs[0]]
                    if dn.kind == "stmt" and isinstance(dn.ast, ast.Assign) and len(dn.ast.targets) == 1 and isinstance(dn.ast.targets[0], ast.Name) \
                            and cfg.enclosing_loops(defs[0]) == cfg.enclosing_loops(at)[: len(cfg.enclosing_loops(defs[0]))]:
                        return self._expand_single_defs(copy.deepcopy(dn.ast.value), defs[0], depth + 1)
                return n

        return X().visit(copy.deepcopy(expr))

    def _split_on_locals(self, expr: ast.AST, at: int, bound: Dict[str, ast.AST], depth: int):
        if not bound and depth <= 2:
            expanded = self._expand_single_defs(expr, at)
            # a conditional expression inside the compound expression (directly or through a single-definition local such as
            # `stride = a if trough else b`): split on it
            inner_if = None
            for s_ in own_walk(expanded):
                if isinstance(s_, ast.IfExp) and s_ is not expanded:
                    inner_if = s_
                    break
            if inner_if is not None and not any(isinstance(s_, (ast.Lambda, ast.ListComp, ast.SetComp, ast.DictComp, ast.GeneratorExp)) for s_ in own_walk(expanded)):
                out = []
                rt = self.res.resolve(inner_if.test, at)
                for branch, pol in ((inner_if.body, True), (inner_if.orelse, False)):
                    class R(ast.NodeTransformer):
                        def visit(s2, n):
                            if n is inner_if:
                                return copy.deepcopy(branch)
                            return ast.NodeTransformer.visit(s2, n)

                    # deepcopy loses node identity: rebuild by structural replacement instead
                    def rebuild(n):
                        if n is inner_if:
                            return copy.deepcopy(branch)
                        if isinstance(n, list):
                            return [rebuild(x) for x in n]
                        if not isinstance(n, ast.AST):
                            return n
                        return type(n)(**{f_: rebuild(getattr(n, f_, None)) for f_ in n._fields})

                    variant = rebuild(expanded)
                    ast.fix_missing_locations(ast.copy_location(variant, expr)) if hasattr(expr, "lineno") else None
                    atom = canonical_atom(rt, pol)
                    for conds, val in self._split_on_locals(variant, at, {}, depth + 1):
                        out.append(([atom] + conds, val))
                return out
            if any(isinstance(s_, ast.Name) and isinstance(s_.ctx, ast.Load) and len(self.cfg.reaching()[at].get(s_.id, ())) > 1 for s_ in own_walk(expanded)) and not any(
                    isinstance(s_, ast.Name) and isinstance(s_.ctx, ast.Load) and len(self.cfg.reaching()[at].get(s_.id, ())) > 1 for s_ in own_walk(expr)):
                expr = expanded
        if depth <= 4:
            for sub in own_walk(expr):
                if isinstance(sub, ast.Name) and isinstance(sub.ctx, ast.Load) and sub.id not in bound:
                    defs = sorted(self.cfg.reaching()[at].get(sub.id, ()))
                    if len(defs) > 1 and all(self.cfg.nodes[d].kind == "stmt" and isinstance(self.cfg.nodes[d].ast, ast.Assign) and len(self.cfg.nodes[d].ast.targets) == 1
                                             and isinstance(self.cfg.nodes[d].ast.targets[0], ast.Name) for d in defs):
                        out = []
                        for d in defs:
                            here = [(r, p) for r, p, br in self.atoms_at(d)]
                            for conds, val in self.alternatives(self.cfg.nodes[d].ast.value, d, depth + 1):
                                b2 = dict(bound)
                                b2[sub.id] = val
                                for c3, v3 in self._split_on_locals(expr, at, b2, depth + 1):
                                    out.append((here + conds + c3, v3))
                        return out
        return [([], self.res.resolve_with(expr, at, bound))]

    def template_arms(self, expr: ast.AST, at: int, depth: int = 0) -> Optional[List[Tuple[ast.AST, int]]]:
        """The string templates an expression can denote: [(JoinedStr | str Constant, node where it is written)].
        Follows local names through all their reaching definitions and conditional expressions; None if some
        alternative is not a literal template."""
        if isinstance(expr, ast.JoinedStr) or (isinstance(expr, ast.Constant) and isinstance(expr.value, str)):
            return [(expr, at)]
        if isinstance(expr, ast.IfExp):
            a, b = self.template_arms(expr.body, at, depth + 1), self.template_arms(expr.orelse, at, depth + 1)
            return None if a is None or b is None else a + b
        if isinstance(expr, ast.Name) and depth < 6:
            defs = sorted(self.cfg.reaching()[at].get(expr.id, ()))
            out: List[Tuple[ast.AST, int]] = []
            for d in defs:
                dn = self.cfg.nodes[d]
                if dn.kind == "stmt" and isinstance(dn.ast, ast.Assign) and len(dn.ast.targets) == 1 and isinstance(dn.ast.targets[0], ast.Name):
                    arms = self.template_arms(dn.ast.value, d, depth + 1)
                    if arms is None:
                        return None
                    out += arms
                else:
                    return None
            return out or None
        return None

    def template_returns(self) -> List["TemplateReturn"]:
        """Return statements whose value is (a temporary holding) an f-string template."""
        out = []
        for n in self.return_nodes():
            raw, at = self.def_expr(n.ast.value, n.id)
            if isinstance(raw, ast.Call):
                js = format_call_to_joinedstr(self.prog, self.f.module, raw)
                if js is not None:
                    raw = js
            if isinstance(raw, ast.JoinedStr):
                out.append(TemplateReturn(at, n.ast, raw))
        return out

    def def_expr(self, expr: ast.AST, at: int, depth: int = 0) -> Tuple[ast.AST, int]:
        """Follow plain copies `x = y` / single definitions `x = <expr>` back to the defining *raw* expression.
        Returns (raw expression, node id where it is written)."""
        if isinstance(expr, ast.Name) and depth < 8:
            defs = self.cfg.reaching()[at].get(expr.id, frozenset())
            if len(defs) == 1:
                d = next(iter(defs))
                dn = self.cfg.nodes[d]
                if dn.kind == "stmt" and isinstance(dn.ast, ast.Assign) and len(dn.ast.targets) == 1 and isinstance(dn.ast.targets[0], ast.Name):
                    return self.def_expr(dn.ast.value, d, depth + 1)
                if dn.kind == "stmt" and isinstance(dn.ast, ast.AnnAssign) and dn.ast.value is not None and isinstance(dn.ast.target, ast.Name):
                    return self.def_expr(dn.ast.value, d, depth + 1)
        return expr, at

    def alias_root(self, expr: ast.AST, at: int, depth: int = 0) -> ast.AST:
        """Follow plain name-to-name copies only: `tmp = volumes; return tmp` -> Name('volumes')."""
        if isinstance(expr, ast.Name) and depth < 8:
            defs = self.cfg.reaching()[at].get(expr.id, frozenset())
            if len(defs) == 1:
                d = next(iter(defs))
                dn = self.cfg.nodes[d]
                if dn.kind == "stmt" and isinstance(dn.ast, ast.Assign) and len(dn.ast.targets) == 1 and isinstance(dn.ast.targets[0], ast.Name) and isinstance(dn.ast.value, ast.Name):
                    return self.alias_root(dn.ast.value, d, depth + 1)
        return expr

    def alias_chain(self, expr: ast.AST, at: int, depth: int = 0) -> List[str]:
        """All names on the chain of plain name-to-name copies from `expr` down to its root."""
        out: List[str] = []
        if isinstance(expr, ast.Name) and depth < 8:
            out.append(expr.id)
            defs = self.cfg.reaching()[at].get(expr.id, frozenset())
            if len(defs) == 1:
                d = next(iter(defs))
                dn = self.cfg.nodes[d]
                if dn.kind == "stmt" and isinstance(dn.ast, ast.Assign) and len(dn.ast.targets) == 1 and isinstance(dn.ast.targets[0], ast.Name) and isinstance(dn.ast.value, ast.Name):
                    out += self.alias_chain(dn.ast.value, d, depth + 1)
        return out

    # ------------------------------------------------------------------ facts
    def facts_at(self, node: int) -> List[Tuple[ast.AST, bool, int]]:
        return self.cfg.facts_at(node)

    def rfacts_at(self, node: int) -> List[Tuple[ast.AST, bool, ast.AST]]:
        """[(resolved atom, polarity, raw atom)] must-hold facts at `node` (resolved at their own branch)."""
        out = []
        for atom, pol, branch in self.cfg.facts_at(node):
            out.append((self.res.resolve(atom, branch), pol, atom))
        out += self.helper_exit_facts(node)
        return out

    def controlling(self, node: int, within: Optional[Set[int]] = None, skip_raising: bool = False) -> List[Tuple[int, bool]]:
        """Branch outcomes every path to `node` has taken; optionally only tests inside `within`, optionally without
        the fall-through of raising guards (`if bad: raise`)."""
        raising = {n.id for n, _, _, _ in self.raising_guards()} if skip_raising else set()
        out = []
        for d, pol in self.cfg.controlling(node):
            if within is not None and d not in within:
                continue
            if d in raising:
                continue
            out.append((d, pol))
        return out

    def atoms_at(self, node: int, within: Optional[Set[int]] = None, skip_raising: bool = False) -> List[Tuple[ast.AST, bool, int]]:
        """Canonical atomic conditions that hold when control reaches `node`: resolved, `not` stripped,
        != / not in / is not rewritten to their positive form with flipped polarity.  Only *atomic* facts
        (no and/or) whose branch lies in `within` (if given); with skip_raising the fall-through facts of
        `if bad: raise` guards are left out.  -> [(atom, polarity, branch node)]"""
        raising = {n.id for n, _, _, _ in self.raising_guards()} if skip_raising else set()
        out: List[Tuple[ast.AST, bool, int]] = []
        seen = set()
        for atom, pol, branch in self.cfg.facts_at(node):
            if within is not None and branch not in within:
                continue
            if branch in raising:
                continue
            if isinstance(atom, ast.BoolOp) or (isinstance(atom, ast.UnaryOp) and isinstance(atom.op, ast.Not)):
                continue  # their decomposition is present as separate facts
            if isinstance(atom, ast.Compare) and len(atom.ops) > 1:
                continue
            r, p = canonical_atom(self.res.resolve(atom, branch), pol)
            k = (key(r), p)
            if k not in seen:
                seen.add(k)
                out.append((r, p, branch))
        if within is None and not skip_raising:
            for r0, pol, raw in self.helper_exit_facts(node):
                if isinstance(raw, ast.BoolOp) or (isinstance(raw, ast.UnaryOp) and isinstance(raw.op, ast.Not)) or (isinstance(raw, ast.Compare) and len(raw.ops) > 1):
                    continue
                r, p = canonical_atom(r0, pol)
                k = (key(r), p)
                if k not in seen:
                    seen.add(k)
                    out.append((r, p, -1))
        return out

    def compound_conditions_at(self, node: int, within: Optional[Set[int]] = None, skip_raising: bool = False) -> List[Tuple[ast.AST, bool, int]]:
        """Facts that could not be decomposed into atoms (e.g. `A and B` known False)."""
        raising = {n.id for n, _, _, _ in self.raising_guards()} if skip_raising else set()
        out = []
        for atom, pol, branch in self.cfg.facts_at(node):
            if within is not None and branch not in within:
                continue
            if branch in raising:
                continue
            core, p = atom, pol
            while isinstance(core, ast.UnaryOp) and isinstance(core.op, ast.Not):
                core, p = core.operand, not p
            if isinstance(core, ast.BoolOp) and ((isinstance(core.op, ast.And) and not p) or (isinstance(core.op, ast.Or) and p)):
                out.append((self.res.resolve(core, branch), p, branch))
        return out

    def rforall_at(self, node: int) -> List[Tuple[int, ast.AST, bool, ast.AST]]:
        out = []
        for head, atom, pol, branch in self.cfg.forall_at(node):
            out.append((head, self.res.resolve(atom, branch), pol, atom))
        return out

    def raising_guards(self) -> List[Tuple[Node, ast.AST, bool, ast.Raise]]:
        """[(test node, test expr, polarity under which it raises, raise stmt)] for `if c: raise X` / assert shapes."""
        out = []
        for n in self.cfg.nodes:
            if n.kind != "test":
                continue
            for s, lab in n.succ:
                if lab not in ("T", "F"):
                    continue
                tgt = self.cfg.nodes[s]
                if tgt.kind == "stmt" and isinstance(tgt.ast, ast.Raise):
                    out.append((n, n.ast, lab == "T", tgt.ast))
                elif tgt.kind == "assert_fail":
                    out.append((n, n.ast, False, tgt.ast))
        return out

    # --------------------------------------------------------------- arguments
    def bind_args(self, cs: CallSite) -> Optional[Dict[str, ast.AST]]:
        """Map parameter names of the resolved callee to argument expressions (None if */** is involved)."""
        f = cs.callee.func
        if f is None:
            return None
        a = f.node.args
        pos = [x.arg for x in a.posonlyargs + a.args]
        if f.cls is not None and pos and not any(isinstance(d, ast.Name) and d.id == "staticmethod" for d in f.node.decorator_list):
            pos = pos[1:]
        out: Dict[str, ast.AST] = {}
        for i, arg in enumerate(cs.call.args):
            if isinstance(arg, ast.Starred):
                out["*"] = arg.value
                continue
            if i < len(pos):
                out[pos[i]] = arg
            elif a.vararg:
                out.setdefault("*" + a.vararg.arg, arg)
        for kw in cs.call.keywords:
            if kw.arg is None:
                # **d with d = dict(k=v, ...) / {"k": v, ...} (a single definition): the same as writing the keywords out.
                # The values are evaluated where the dict is built; they are handed out as expressions of this call site only
                # when they are plain names / attributes that have not been re-bound in between.
                raw, at = self.def_expr(kw.value, cs.node)
                items = None
                if isinstance(raw, ast.Call) and isinstance(raw.func, ast.Name) and raw.func.id == "dict" and not raw.args and all(k.arg for k in raw.keywords):
                    items = [(k.arg, k.value) for k in raw.keywords]
                elif isinstance(raw, ast.Dict) and all(isinstance(k, ast.Constant) and isinstance(k.value, str) for k in raw.keys):
                    items = [(k.value, v) for k, v in zip(raw.keys, raw.values)]
                stable = items is not None
                if stable:
                    rd = self.cfg.reaching()
                    for _k, v in items:
                        for x in ast.walk(v):
                            if isinstance(x, ast.Name) and rd[at].get(x.id, frozenset()) != rd[cs.node].get(x.id, frozenset()):
                                stable = False
                if stable:
                    for k_, v in items:
                        out.setdefault(k_, v)
                else:
                    out["**"] = kw.value
            else:
                out[kw.arg] = kw.value
        return out


# ======================================================================== effects
@dataclass(frozen=True)
class Effect:
    kind: str  # EMIT | VOLWRITE | COMPWRITE | HISTWRITE | RAISE | LOG
    arg: str = ""

    def __repr__(self) -> str:
        return f"{self.kind}({self.arg})" if self.arg else self.kind


def attr_root_chain(t: ast.AST) -> List[str]:
    """Attribute names along the access path of a store target: self._volumes[idx] -> ['self', '_volumes']."""
    chain: List[str] = []
    while True:
        if isinstance(t, ast.Subscript):
            t = t.value
        elif isinstance(t, ast.Attribute):
            chain.append(t.attr)
            t = t.value
        elif isinstance(t, ast.Name):
            chain.append(t.id)
            break
        elif isinstance(t, ast.Call):
            chain.append("()")
            t = t.func
        else:
            break
    return list(reversed(chain))


def _store_root(t: ast.AST) -> ast.AST:
    while isinstance(t, (ast.Subscript, ast.Attribute)):
        t = t.value
    return t


def template_kind(s: str) -> str:
    """Record kind = constant prefix up to the first ';' or '(' (e.g. 'A', 'W', 'B;Aspirate')."""
    if s.startswith("B;") and "(" in s:
        return s[: s.index("(")]
    if ";" in s:
        return s[: s.index(";")]
    return s


def const_prefix(e: ast.AST) -> Optional[str]:
    if isinstance(e, ast.Constant) and isinstance(e.value, str):
        return e.value
    if isinstance(e, ast.JoinedStr):
        out = ""
        for v in e.values:
            if isinstance(v, ast.Constant) and isinstance(v.value, str):
                out += v.value
            elif isinstance(v, ast.FormattedValue) and isinstance(v.value, ast.Constant) and isinstance(v.value.value, str) and v.format_spec is None and v.conversion == -1:
                out += v.value.value  # a constant interpolated into the template (a helper's parameter bound to a literal)
            else:
                break
        return out
    return None


class Effects:
    """Direct and transitive effect summaries; `self` receiver resolved for a given concrete class."""

    WRITE_ATTRS = {"_volumes": "VOLWRITE", "_composition": "COMPWRITE", "_history": "HISTWRITE", "_labels": "HISTWRITE"}

    # public properties that return the live container (Labware.composition returns self._composition itself)
    LIVE_PROPERTIES = {"composition": "COMPWRITE"}

    def tracked_aliases(self, fv: FV) -> Dict[str, str]:
        """Local names bound (anywhere in the function) to a tracked container or to one of its inner arrays without
        a copy:  x = self._composition[k];  for x in self._composition.values();  for k, x in self.composition.items()."""
        cached = getattr(fv, "_tracked_aliases", None)
        if cached is not None:
            return cached
        out: Dict[str, str] = {}
        attrs = dict(self.WRITE_ATTRS)
        attrs.update(self.LIVE_PROPERTIES)

        def live_kind(v: ast.AST) -> Optional[str]:
            # walk down subscripts / attribute loads / .values() .items() .get() calls; any other call is a copy or a new value
            cur = v
            while True:
                if isinstance(cur, ast.Subscript):
                    cur = cur.value
                elif isinstance(cur, ast.Attribute):
                    if cur.attr in attrs:
                        return attrs[cur.attr]
                    cur = cur.value
                elif isinstance(cur, ast.Call) and isinstance(cur.func, ast.Attribute) and cur.func.attr in ("values", "items", "get", "setdefault") :
                    cur = cur.func.value
                elif isinstance(cur, ast.Call) and isinstance(cur.func, ast.Attribute) and cur.func.attr in ("ravel", "reshape", "view", "squeeze", "transpose", "swapaxes", "diagonal"):
                    # numpy methods that hand out a view of the array whenever they can: a store through the result may (or,
                    # for a non-contiguous array, may silently not) write the tracked array
                    cur = cur.func.value
                elif isinstance(cur, ast.Name):
                    return out.get(cur.id)
                else:
                    return None

        changed = True
        rounds = 0
        while changed and rounds < 4:
            changed = False
            rounds += 1
            for n in fv.cfg.nodes:
                a = n.ast
                pairs: List[Tuple[ast.AST, ast.AST]] = []
                if n.kind == "stmt" and isinstance(a, ast.Assign):
                    pairs = [(t, a.value) for t in a.targets]
                elif n.kind == "stmt" and isinstance(a, ast.AnnAssign) and a.value is not None:
                    pairs = [(a.target, a.value)]
                elif n.kind == "for":
                    pairs = [(a.target, a.iter)]
                for tgt, val in pairs:
                    k = live_kind(val)
                    if k is None:
                        continue
                    names = [tgt] if isinstance(tgt, ast.Name) else [e for e in getattr(tgt, "elts", []) if isinstance(e, ast.Name)]
                    if n.kind == "for" and isinstance(val, ast.Call) and isinstance(val.func, ast.Attribute) and val.func.attr == "items" and len(names) == 2:
                        names = names[1:]  # the key of a dict is not an alias of its arrays
                    elif n.kind == "for" and not (isinstance(val, ast.Call) and isinstance(val.func, ast.Attribute) and val.func.attr in ("values", "items")):
                        # iterating an array yields scalars; iterating the dict yields keys
                        if k in ("VOLWRITE", "COMPWRITE") :
                            continue
                    for nm in names:
                        if out.get(nm.id) != k:
                            out[nm.id] = k
                            changed = True
        fv._tracked_aliases = out  # type: ignore[attr-defined]
        return out

    def __init__(self, prog: Program):
        self.prog = prog
        self._fv: Dict[Tuple[str, Optional[str]], FV] = {}
        self._summary: Dict[Tuple[str, Optional[str]], FrozenSet[Effect]] = {}
        self._in_progress: Set[Tuple[str, Optional[str]]] = set()

    def fv(self, f: FunctionInfo, concrete: Optional[ClassInfo] = None) -> FV:
        k = (f.qualname, concrete.qualname if concrete else None)
        if k not in self._fv:
            self._fv[k] = FV(self.prog, f, concrete)
            self._fv[k].registry = self
        return self._fv[k]

    def is_worklist_class(self, c: Optional[ClassInfo]) -> bool:
        return c is not None and "list" in self.prog.mro_names(c)

    # direct effects of one CFG node (not following calls)
    def direct(self, fv: FV, n: Node) -> Set[Effect]:
        out: Set[Effect] = set()
        a = n.ast
        if n.kind == "stmt":
            targets: List[ast.AST] = []
            if isinstance(a, ast.Assign):
                targets = list(a.targets)
            elif isinstance(a, (ast.AugAssign, ast.AnnAssign)):
                if not (isinstance(a, ast.AnnAssign) and a.value is None):
                    targets = [a.target]
            elif isinstance(a, ast.Delete):
                targets = list(a.targets)
            flat: List[ast.AST] = []
            for t in targets:
                flat += list(t.elts) if isinstance(t, (ast.Tuple, ast.List)) else [t]
            aliases = self.tracked_aliases(fv)
            for t in flat:
                chain = attr_root_chain(t)
                for attr, kind in self.WRITE_ATTRS.items():
                    if attr in chain[1:]:
                        out.add(Effect(kind, "rebind" if isinstance(t, ast.Attribute) and t.attr == attr else "element"))
                # element store through the live-dict property or through a local alias of a tracked container
                if isinstance(t, ast.Subscript):
                    for attr, kind in self.LIVE_PROPERTIES.items():
                        if attr in chain[1:]:
                            out.add(Effect(kind, "element"))
                    if chain and chain[0] in aliases and isinstance(_store_root(t), ast.Name):
                        out.add(Effect(aliases[chain[0]], "element"))
            if isinstance(a, ast.Raise):
                out.add(Effect("RAISE", self._exc_name(fv, a)))
        if n.kind == "assert_fail":
            out.add(Effect("RAISE", "AssertionError"))
        for r in node_roots(n):
            for sub in own_walk(r):
                if not isinstance(sub, ast.Call):
                    continue
                fn = sub.func
                # numpy in-place forms:  np.round(x, out=self._volumes)   np.copyto(self._volumes, ...)   np.put(self._volumes, ...)
                dests = [k.value for k in sub.keywords if k.arg == "out"]
                if isinstance(fn, (ast.Attribute, ast.Name)) and (fn.attr if isinstance(fn, ast.Attribute) else fn.id) in ("copyto", "put", "place", "putmask", "put_along_axis", "fill_diagonal") and sub.args:
                    dests.append(sub.args[0])
                if isinstance(fn, ast.Attribute) and fn.attr == "at" and sub.args:  # ufunc.at(target, ...)
                    dests.append(sub.args[0])
                for dst in dests:
                    for dd in (dst.elts if isinstance(dst, (ast.Tuple, ast.List)) else [dst]):
                        dchain = attr_root_chain(dd)
                        for attr, kind in self.WRITE_ATTRS.items():
                            if attr in dchain[1:]:
                                out.add(Effect(kind, "out="))
                        al_ = self.tracked_aliases(fv)
                        if dchain and dchain[0] in al_ and isinstance(_store_root(dd), ast.Name):
                            out.add(Effect(al_[dchain[0]], "out="))
                if isinstance(fn, ast.Attribute):
                    chain = attr_root_chain(fn.value)
                    # in-place mutation through a method:  x._history.append(...)
                    if fn.attr in {"append", "extend", "insert", "pop", "remove", "clear", "sort", "fill", "itemset", "put", "resize", "update", "setdefault", "__setitem__"}:
                        for attr, kind in self.WRITE_ATTRS.items():
                            if attr in chain[1:] or (chain and chain[-1] == attr):
                                out.add(Effect(kind, fn.attr))
                        for attr, kind in self.LIVE_PROPERTIES.items():
                            if attr in chain[1:]:
                                out.add(Effect(kind, fn.attr))
                        al = self.tracked_aliases(fv)
                        if chain and chain[0] in al and fn.attr != "remove":
                            out.add(Effect(al[chain[0]], fn.attr))
                    # worklist emission:  self.append(<template>)
                    if fn.attr in ("append", "extend", "insert", "__iadd__") and isinstance(fn.value, ast.Name):
                        c = fv.env.get(fn.value.id)
                        if self.is_worklist_class(c) and sub.args:
                            arg = sub.args[-1]
                            for kind in self.emit_kinds(fv, arg, n.id):
                                out.add(Effect("EMIT", kind))
        return out

    def _exc_name(self, fv: FV, r: ast.Raise) -> str:
        e = r.exc
        if e is None:
            return "reraise"
        if isinstance(e, ast.Call):
            e = e.func
        return e.attr if isinstance(e, ast.Attribute) else getattr(e, "id", "?")

    def emit_kinds(self, fv: FV, arg: ast.AST, at: int) -> List[str]:
        """Record kinds that `self.append(arg)` may emit."""
        p = const_prefix(arg)
        if p is not None:
            return [template_kind(p)]
        arms = fv.template_arms(arg, at)
        if arms:
            return sorted({template_kind(const_prefix(a) or "") for a, _ in arms})
        term = fv.res.resolve(arg, at)
        p = const_prefix(term)
        if p is not None:
            return [template_kind(p)]
        if isinstance(term, ast.Call) and not is_sym(term):
            callee = self.prog.resolve_call(fv.f, term, fv.env)
            if callee.kind == "func":
                kinds = []
                for rt in return_exprs(callee.func):
                    rp = const_prefix(rt)
                    kinds.append(template_kind(rp) if rp is not None else "?")
                return kinds or ["?"]
        return ["?"]

    def node_effects(self, fv: FV, n: Node) -> Set[Effect]:
        out = set(self.direct(fv, n))
        for r in node_roots(n):
            for sub in own_walk(r):
                if isinstance(sub, ast.Call):
                    callee = self.prog.resolve_call(fv.f, sub, fv.env)
                    if callee.kind in ("func", "class") and callee.func is not None:
                        conc = None
                        if callee.func.cls is not None and fv.concrete is not None and callee.func.cls in self.prog.mro(fv.concrete):
                            # method on the same object: keep the concrete class
                            if isinstance(sub.func, ast.Attribute) and isinstance(sub.func.value, ast.Name) and fv.f.params and sub.func.value.id == fv.f.params[0]:
                                conc = fv.concrete
                        out |= self.summary(callee.func, conc)
        return out

    def summary(self, f: FunctionInfo, concrete: Optional[ClassInfo] = None) -> FrozenSet[Effect]:
        k = (f.qualname, concrete.qualname if concrete else None)
        if k in self._summary:
            return self._summary[k]
        if k in self._in_progress:
            return frozenset()
        self._in_progress.add(k)
        try:
            fv = self.fv(f, concrete)
            out: Set[Effect] = set()
            for n in fv.cfg.nodes:
                out |= self.node_effects(fv, n)
        finally:
            self._in_progress.discard(k)
        self._summary[k] = frozenset(out)
        return self._summary[k]

    # ------------------------------------------------------------ path queries
    def nodes_with(self, fv: FV, pred: Callable[[Effect], bool]) -> List[int]:
        return [n.id for n in fv.cfg.nodes if any(pred(e) for e in self.node_effects(fv, n))]

    def must_precede(self, fv: FV, a_nodes: Iterable[int], b_nodes: Iterable[int]) -> List[int]:
        """b-nodes reachable from entry on a path that avoids every a-node (empty list = A always precedes B)."""
        blocked = set(a_nodes)
        reach = fv.cfg.reachable_from(fv.cfg.entry, blocked)
        return [b for b in b_nodes if b in reach and b not in blocked]


def return_exprs(f: FunctionInfo) -> List[ast.AST]:
    return [s.value for s in own_walk(f.node) if isinstance(s, ast.Return) and s.value is not None]


# ====================================================================== templates
@dataclass
class Hole:
    expr: ast.AST
    spec: Optional[str]
    conversion: int


def format_call_to_joinedstr(prog, module, call: ast.Call) -> Optional[ast.JoinedStr]:
    """`TEMPLATE.format(a, k=v)` with a constant template (literal, or module-level name bound to one - also imported from
    another module of the package) rewritten as the equivalent f-string; None when it is not of that shape."""
    import string

    if not (isinstance(call.func, ast.Attribute) and call.func.attr == "format"):
        return None
    base = call.func.value
    text = None
    if isinstance(base, ast.Constant) and isinstance(base.value, str):
        text = base.value
    elif isinstance(base, ast.Name):
        r = prog.resolve_name(module, base.id)
        if isinstance(r, tuple) and r[0] == "value":
            v = r[1].assigns.get(r[2])
            if isinstance(v, ast.Constant) and isinstance(v.value, str):
                text = v.value
    if text is None or any(isinstance(a, ast.Starred) for a in call.args) or any(k.arg is None for k in call.keywords):
        return None
    kw = {k.arg: k.value for k in call.keywords}
    values: List[ast.AST] = []
    auto = 0
    try:
        fields = list(string.Formatter().parse(text))
    except ValueError:
        return None
    for literal, field, spec, conv in fields:
        if literal:
            values.append(ast.Constant(value=literal))
        if field is None:
            continue
        if field == "":
            key_, auto = auto, auto + 1
        elif field.isdigit():
            key_ = int(field)
        else:
            key_ = field
        if isinstance(key_, int):
            if key_ >= len(call.args):
                return None
            expr = call.args[key_]
        elif key_ in kw:
            expr = kw[key_]
        else:
            return None  # attribute / index lookups inside the field name are not modelled
        fs = None
        if spec:
            if "{" in spec:
                return None
            fs = ast.JoinedStr(values=[ast.Constant(value=spec)])
        values.append(ast.FormattedValue(value=expr, conversion={None: -1, "s": 115, "r": 114, "a": 97}.get(conv, -1), format_spec=fs))
    js = ast.JoinedStr(values=values)
    return ast.copy_location(js, call)


def template_parts(e: ast.AST) -> Optional[List[object]]:
    """JoinedStr / Constant -> [str | Hole, ...]"""
    if isinstance(e, ast.Constant) and isinstance(e.value, str):
        return [e.value]
    if not isinstance(e, ast.JoinedStr):
        return None
    parts: List[object] = []
    for v in e.values:
        if isinstance(v, ast.Constant):
            if parts and isinstance(parts[-1], str):
                parts[-1] += str(v.value)
            else:
                parts.append(str(v.value))
        elif isinstance(v, ast.FormattedValue) and isinstance(v.value, ast.Constant) and isinstance(v.value.value, str) and v.format_spec is None and v.conversion == -1:
            # a literal interpolated into the template (helper parameter bound to a constant): part of the constant text
            if parts and isinstance(parts[-1], str):
                parts[-1] += v.value.value
            else:
                parts.append(v.value.value)
        elif isinstance(v, ast.FormattedValue):
            spec = None
            if v.format_spec is not None:
                sp = template_parts(v.format_spec)
                spec = "".join(p if isinstance(p, str) else "{}" for p in (sp or []))
            parts.append(Hole(v.value, spec, v.conversion))
    return parts


def split_fields(parts: List[object], sep: str) -> List[List[object]]:
    """Split a template at the separator characters of its constant parts."""
    fields: List[List[object]] = [[]]
    for p in parts:
        if isinstance(p, str):
            chunks = p.split(sep)
            for i, ch in enumerate(chunks):
                if i > 0:
                    fields.append([])
                if ch:
                    fields[-1].append(ch)
        else:
            fields[-1].append(p)
    return fields
