"""E2 statement-level control-flow graph, dominators, must-hold facts, reaching definitions."""
from __future__ import annotations

import ast
from dataclasses import dataclass, field
from typing import Dict, FrozenSet, List, Optional, Set, Tuple

from .model import AnalysisInconclusive


@dataclass
class Node:
    id: int
    kind: str  # entry | exit | raise_exit | stmt | test | for | with | handler | assert_fail | join
    ast: Optional[ast.AST] = None  # statement, test expression, For statement ...
    stmt: Optional[ast.stmt] = None  # enclosing statement
    succ: List[Tuple[int, Optional[str]]] = field(default_factory=list)
    pred: List[Tuple[int, Optional[str]]] = field(default_factory=list)

    @property
    def lineno(self) -> int:
        return getattr(self.ast, "lineno", getattr(self.stmt, "lineno", 0))


Fact = Tuple[int, bool]  # (index into CFG.atoms, polarity)


class CFG:
    def __init__(self, fn: ast.FunctionDef, where: str = "?"):
        self.fn = fn
        self.where = where
        self.nodes: List[Node] = []
        self.stmt_nodes: Dict[int, List[int]] = {}  # id(stmt) -> node ids created for that statement (first = head)
        self.loop_body: Dict[int, Set[int]] = {}  # for/while head node id -> node ids inside the loop
        self.loop_has_break: Dict[int, bool] = {}
        self._loops: List[Tuple[int, List]] = []  # stack of (head id, break dangling list)
        self._handlers: List[List[int]] = []  # stack of handler-entry node ids for enclosing try bodies
        self._open_loops: List[int] = []
        self.entry = self._new("entry").id
        self.exit = self._new("exit").id
        self.raise_exit = self._new("raise_exit").id
        exits = self._block(fn.body, [(self.entry, None)])
        self._connect(exits, self.exit)
        for n in self.nodes:
            for s, lab in n.succ:
                self.nodes[s].pred.append((n.id, lab))
        self._dom: Optional[Dict[int, Set[int]]] = None
        self._pdom: Optional[Dict[int, Set[int]]] = None
        self.atoms: List[Tuple[ast.AST, int]] = []  # (atom expr, branch node id)
        self._atom_index: Dict[Tuple[int, int], int] = {}
        self._facts_in: Optional[Dict[int, Optional[FrozenSet]]] = None
        self._rd_in: Optional[Dict[int, Dict[str, FrozenSet[int]]]] = None
        self.forall_facts: Dict[int, Set[Fact]] = {}  # loop head id -> facts valid for every element after normal loop exit

    # ------------------------------------------------------------ construction
    def _new(self, kind: str, node: Optional[ast.AST] = None, stmt: Optional[ast.stmt] = None) -> Node:
        n = Node(len(self.nodes), kind, node, stmt)
        self.nodes.append(n)
        if stmt is not None:
            self.stmt_nodes.setdefault(id(stmt), []).append(n.id)
        for head in self._open_loops:
            self.loop_body[head].add(n.id)
        return n

    def _connect(self, dangling, target: int) -> None:
        for src, lab in dangling:
            if (target, lab) not in self.nodes[src].succ:
                self.nodes[src].succ.append((target, lab))

    def _exc_edges(self, n: Node) -> None:
        """A statement inside a try body may transfer control to every handler of the enclosing try."""
        if self._handlers:
            for h in self._handlers[-1]:
                n.succ.append((h, "exc"))

    def _block(self, stmts: List[ast.stmt], dangling):
        for s in stmts:
            dangling = self._stmt(s, dangling)
        return dangling

    def _stmt(self, s: ast.stmt, dangling):
        if isinstance(s, ast.If):
            t = self._new("test", s.test, s)
            self._connect(dangling, t.id)
            self._exc_edges(t)
            a = self._block(s.body, [(t.id, "T")])
            b = self._block(s.orelse, [(t.id, "F")])
            return a + b
        if isinstance(s, ast.While):
            t = self._new("test", s.test, s)
            self._connect(dangling, t.id)
            self.loop_body[t.id] = set()
            self.loop_has_break[t.id] = False
            breaks: List = []
            self._loops.append((t.id, breaks))
            self._open_loops.append(t.id)
            body_exits = self._block(s.body, [(t.id, "T")])
            self._open_loops.pop()
            self._loops.pop()
            self._connect(body_exits, t.id)
            else_exits = self._block(s.orelse, [(t.id, "F")])
            return else_exits + breaks
        if isinstance(s, (ast.For, ast.AsyncFor)):
            h = self._new("for", s, s)
            self._connect(dangling, h.id)
            self._exc_edges(h)
            self.loop_body[h.id] = set()
            self.loop_has_break[h.id] = False
            breaks = []
            self._loops.append((h.id, breaks))
            self._open_loops.append(h.id)
            body_exits = self._block(s.body, [(h.id, "iter")])
            self._open_loops.pop()
            self._loops.pop()
            self._connect(body_exits, h.id)
            else_exits = self._block(s.orelse, [(h.id, "done")])
            return else_exits + breaks
        if isinstance(s, ast.Break):
            n = self._new("stmt", s, s)
            self._connect(dangling, n.id)
            if not self._loops:
                raise AnalysisInconclusive("cfg", self.where, "break outside loop")
            self.loop_has_break[self._loops[-1][0]] = True
            self._loops[-1][1].append((n.id, None))
            return []
        if isinstance(s, ast.Continue):
            n = self._new("stmt", s, s)
            self._connect(dangling, n.id)
            self._connect([(n.id, None)], self._loops[-1][0])
            return []
        if isinstance(s, ast.Return):
            n = self._new("stmt", s, s)
            self._connect(dangling, n.id)
            self._exc_edges(n)
            self._connect([(n.id, None)], self.exit)
            return []
        if isinstance(s, ast.Raise):
            n = self._new("stmt", s, s)
            self._connect(dangling, n.id)
            if self._handlers:
                for h in self._handlers[-1]:
                    n.succ.append((h, "exc"))
            self._connect([(n.id, "raise")], self.raise_exit)
            return []
        if isinstance(s, ast.Assert):
            t = self._new("test", s.test, s)
            self._connect(dangling, t.id)
            self._exc_edges(t)
            f = self._new("assert_fail", s, s)
            self._connect([(t.id, "F")], f.id)
            if self._handlers:
                for h in self._handlers[-1]:
                    f.succ.append((h, "exc"))
            self._connect([(f.id, "raise")], self.raise_exit)
            return [(t.id, "T")]
        if isinstance(s, (ast.With, ast.AsyncWith)):
            n = self._new("with", s, s)
            self._connect(dangling, n.id)
            self._exc_edges(n)
            return self._block(s.body, [(n.id, None)])
        if isinstance(s, ast.Try):
            handler_nodes = [self._new("handler", h, s) for h in s.handlers]
            self._handlers.append([h.id for h in handler_nodes])
            body_exits = self._block(s.body, dangling)
            self._handlers.pop()
            else_exits = self._block(s.orelse, body_exits)
            exits = list(else_exits)
            for hn, h in zip(handler_nodes, s.handlers):
                exits += self._block(h.body, [(hn.id, None)])
            if s.finalbody:
                exits = self._block(s.finalbody, exits)
            return exits
        if hasattr(ast, "Match") and isinstance(s, ast.Match):
            raise AnalysisInconclusive("cfg", self.where, "match statement not modelled")
        # simple statements (Assign, AugAssign, AnnAssign, Expr, Pass, Delete, Import, nested defs ...)
        n = self._new("stmt", s, s)
        self._connect(dangling, n.id)
        self._exc_edges(n)
        return [(n.id, None)]

    # ---------------------------------------------------------------- queries
    def head_of(self, stmt: ast.stmt) -> int:
        ids = self.stmt_nodes.get(id(stmt))
        if not ids:
            raise AnalysisInconclusive("cfg", self.where, f"statement at line {getattr(stmt, 'lineno', '?')} has no CFG node")
        return ids[0]

    def node_of_expr(self, expr: ast.AST) -> int:
        """CFG node whose statement/test contains `expr` (by identity)."""
        for n in self.nodes:
            if n.ast is None:
                continue
            root = n.ast
            if n.kind == "for":
                roots = [root.iter, root.target]
            elif n.kind == "with":
                roots = [i for i in root.items]
            elif n.kind == "handler":
                roots = [root.type] if root.type is not None else []
            elif n.kind == "assert_fail":
                roots = [root.msg] if root.msg is not None else []
            else:
                roots = [root]
            for r in roots:
                for sub in ast.walk(r):
                    if sub is expr:
                        return n.id
        raise AnalysisInconclusive("cfg", self.where, "expression not found in CFG")

    def reachable_from(self, start: int, blocked: Set[int] = frozenset(), labels_excluded=("exc",)) -> Set[int]:
        seen = set()
        stack = [start]
        while stack:
            x = stack.pop()
            if x in seen or x in blocked:
                continue
            seen.add(x)
            for s, lab in self.nodes[x].succ:
                if lab in labels_excluded:
                    continue
                stack.append(s)
        return seen

    def reaching_to(self, target: int, blocked: Set[int] = frozenset(), labels_excluded=("exc",)) -> Set[int]:
        """Nodes from which `target` is reachable (target included) without entering a blocked node."""
        seen = set()
        stack = [target]
        while stack:
            x = stack.pop()
            if x in seen or x in blocked:
                continue
            seen.add(x)
            for p, lab in self.nodes[x].pred:
                if lab in labels_excluded:
                    continue
                stack.append(p)
        return seen

    def between(self, a: int, b: int, blocked: Set[int] = frozenset()) -> Set[int]:
        """Nodes strictly between a and b on paths that avoid `blocked` (e.g. a loop head = same iteration)."""
        fwd: Set[int] = set()
        for s, lab in self.nodes[a].succ:
            if lab != "exc":
                fwd |= self.reachable_from(s, blocked)
        bwd: Set[int] = set()
        for p, lab in self.nodes[b].pred:
            if lab != "exc":
                bwd |= self.reaching_to(p, blocked)
        return (fwd & bwd) - {a, b}

    def every_iteration(self, node_id: int, head: int) -> bool:
        """Is `node_id` (inside loop `head`) executed in every iteration that completes normally?"""
        body = self.loop_body.get(head, set())
        if node_id not in body:
            return False
        backs = [p for p, lab in self.nodes[head].pred if p in body and lab != "exc"]
        return bool(backs) and all(self.dominates(node_id, p) or node_id == p for p in backs)

    def enclosing_loops(self, node_id: int) -> List[int]:
        return [h for h, body in self.loop_body.items() if node_id in body]

    def reaches(self, a: int, b: int) -> bool:
        """Is there a path a ->+ b (at least one edge)?"""
        for s, lab in self.nodes[a].succ:
            if lab == "exc":
                continue
            if b in self.reachable_from(s):
                return True
        return False

    def dominators(self) -> Dict[int, Set[int]]:
        if self._dom is None:
            self._dom = self._compute_dom(forward=True)
        return self._dom

    def postdominators(self) -> Dict[int, Set[int]]:
        """Post-dominators with respect to the *normal* exit (paths that raise are ignored)."""
        if self._pdom is None:
            self._pdom = self._compute_dom(forward=False)
        return self._pdom

    def _compute_dom(self, forward: bool) -> Dict[int, Set[int]]:
        ids = [n.id for n in self.nodes]
        start = self.entry if forward else self.exit
        allset = set(ids)
        dom = {i: set(allset) for i in ids}
        dom[start] = {start}
        live = self.reachable_from(self.entry) if forward else self.reaching_to(self.exit)
        changed = True
        while changed:
            changed = False
            for n in self.nodes:
                if n.id == start or n.id not in live:
                    continue
                edges = n.pred if forward else n.succ
                srcs = [p for p, lab in edges if lab != "exc" and p in live]
                if not srcs:
                    new = {n.id}
                else:
                    new = set.intersection(*(dom[p] for p in srcs)) | {n.id}
                if new != dom[n.id]:
                    dom[n.id] = new
                    changed = True
        return dom

    def dominates(self, a: int, b: int) -> bool:
        return a in self.dominators()[b]

    def postdominates(self, a: int, b: int) -> bool:
        return a in self.postdominators()[b]

    # ------------------------------------------------------------------ facts
    def _atom(self, expr: ast.AST, branch: int) -> int:
        k = (id(expr), branch)
        if k not in self._atom_index:
            self._atom_index[k] = len(self.atoms)
            self.atoms.append((expr, branch))
        return self._atom_index[k]

    def decompose(self, test: ast.AST, polarity: bool, branch: int) -> Set[Fact]:
        out: Set[Fact] = {(self._atom(test, branch), polarity)}
        if isinstance(test, ast.UnaryOp) and isinstance(test.op, ast.Not):
            out |= self.decompose(test.operand, not polarity, branch)
        elif isinstance(test, ast.BoolOp):
            if (isinstance(test.op, ast.And) and polarity) or (isinstance(test.op, ast.Or) and not polarity):
                for v in test.values:
                    out |= self.decompose(v, polarity, branch)
        elif isinstance(test, ast.Compare) and len(test.ops) > 1 and polarity:
            left = test.left
            for op, right in zip(test.ops, test.comparators):
                piece = ast.Compare(left=left, ops=[op], comparators=[right])
                ast.copy_location(piece, test)
                out |= {(self._atom_synth(piece, test, len(out), branch), True)}
                left = right
        return out

    def _atom_synth(self, piece: ast.AST, parent: ast.AST, salt: int, branch: int) -> int:
        k = (id(parent), branch, ast.dump(piece))
        if k not in self._atom_index:
            self._atom_index[k] = len(self.atoms)
            self.atoms.append((piece, branch))
        return self._atom_index[k]

    def _edge_facts(self, src: Node, lab: Optional[str]) -> Set[Fact]:
        if src.kind == "test" and lab in ("T", "F"):
            return self.decompose(src.ast, lab == "T", src.id)
        if src.kind == "for" and lab == "done":
            return {(-1 - src.id, True)} | set()  # marker: loop `src.id` ran to completion
        return set()

    def facts(self) -> Dict[int, FrozenSet[Fact]]:
        """IN facts per node: branch outcomes that hold on every (non-exceptional) path from entry."""
        if self._facts_in is not None:
            return self._facts_in
        IN: Dict[int, Optional[FrozenSet[Fact]]] = {n.id: None for n in self.nodes}
        IN[self.entry] = frozenset()
        work = [self.entry]
        while work:
            x = work.pop()
            n = self.nodes[x]
            base = IN[x]
            if base is None:
                continue
            for s, lab in n.succ:
                if lab == "exc":
                    out = base  # facts established before the statement still hold in the handler
                else:
                    out = base | self._edge_facts(n, lab)
                old = IN[s]
                new = frozenset(out) if old is None else old & out
                if new != old:
                    IN[s] = new
                    work.append(s)
        self._facts_in = {k: (v if v is not None else frozenset()) for k, v in IN.items()}
        # for-all facts: hold at every back edge of a loop that has no break
        for head, body in self.loop_body.items():
            if self.nodes[head].kind != "for" or self.loop_has_break.get(head):
                continue
            backs = [p for p, lab in self.nodes[head].pred if p in body]
            if not backs:
                continue
            sets = []
            for p in backs:
                pn = self.nodes[p]
                labs = [lab for s, lab in pn.succ if s == head]
                fs = set(self._facts_in[p])
                for lab in labs:
                    fs |= self._edge_facts(pn, lab)
                sets.append(fs)
            common = set.intersection(*sets) - set(self._facts_in[head])
            self.forall_facts[head] = {f for f in common if f[0] >= 0 and self.atoms[f[0]][1] in body}
        return self._facts_in

    def facts_at(self, node_id: int) -> List[Tuple[ast.AST, bool, int]]:
        """[(atom expr, polarity, branch node id)] that must hold when control reaches node_id."""
        fs = self.facts()[node_id]
        return [(self.atoms[i][0], pol, self.atoms[i][1]) for i, pol in fs if i >= 0]

    def controlling(self, node_id: int) -> List[Tuple[int, bool]]:
        """[(test node id, outcome)] : branch outcomes that every path to node_id has taken (control dependence + guards)."""
        out = []
        for i, pol in self.facts()[node_id]:
            if i < 0:
                continue
            expr, branch = self.atoms[i]
            if self.nodes[branch].kind == "test" and self.nodes[branch].ast is expr:
                out.append((branch, pol))
        return out

    def completed_loops_at(self, node_id: int) -> List[int]:
        """Heads of for-loops that certainly ran to completion (no break) before node_id."""
        fs = self.facts()[node_id]
        return [-1 - i for i, pol in fs if i < 0 and not self.loop_has_break.get(-1 - i)]

    def forall_at(self, node_id: int) -> List[Tuple[int, ast.AST, bool, int]]:
        """[(loop head, atom expr, polarity, branch)] : per-element facts of completed loops."""
        out = []
        self.facts()
        for head in self.completed_loops_at(node_id):
            for i, pol in self.forall_facts.get(head, ()):  # noqa
                out.append((head, self.atoms[i][0], pol, self.atoms[i][1]))
        return out

    # ---------------------------------------------------- reaching definitions
    @staticmethod
    def target_names(t: ast.AST) -> List[str]:
        if isinstance(t, ast.Name):
            return [t.id]
        if isinstance(t, (ast.Tuple, ast.List)):
            out: List[str] = []
            for e in t.elts:
                out += CFG.target_names(e)
            return out
        if isinstance(t, ast.Starred):
            return CFG.target_names(t.value)
        return []

    def defs_of(self, n: Node) -> List[str]:
        a = n.ast
        if n.kind == "entry":
            args = self.fn.args
            names = [x.arg for x in args.posonlyargs + args.args + args.kwonlyargs]
            if args.vararg:
                names.append(args.vararg.arg)
            if args.kwarg:
                names.append(args.kwarg.arg)
            return names
        if n.kind == "for":
            return self.target_names(a.target)
        if n.kind == "with":
            out = []
            for it in a.items:
                if it.optional_vars is not None:
                    out += self.target_names(it.optional_vars)
            return out
        if n.kind == "handler":
            return [a.name] if a.name else []
        if n.kind != "stmt":
            names = []
        else:
            names = []
            if isinstance(a, ast.Assign):
                for t in a.targets:
                    names += self.target_names(t)
            elif isinstance(a, (ast.AugAssign, ast.AnnAssign)):
                if not (isinstance(a, ast.AnnAssign) and a.value is None):
                    names += self.target_names(a.target)
            elif isinstance(a, (ast.Import, ast.ImportFrom)):
                names += [(x.asname or x.name.split(".")[0]) for x in a.names]
            elif isinstance(a, (ast.FunctionDef, ast.AsyncFunctionDef, ast.ClassDef)):
                names.append(a.name)
        # walrus anywhere in the node's expression
        root = a if n.kind in ("stmt", "test") else None
        if root is not None and not isinstance(root, (ast.FunctionDef, ast.AsyncFunctionDef, ast.ClassDef)):
            for sub in ast.walk(root):
                if isinstance(sub, ast.NamedExpr):
                    names += self.target_names(sub.target)
        return names

    def reaching(self) -> Dict[int, Dict[str, FrozenSet[int]]]:
        if self._rd_in is not None:
            return self._rd_in
        IN: Dict[int, Dict[str, FrozenSet[int]]] = {n.id: {} for n in self.nodes}
        visited = {self.entry}
        work = [self.entry]
        while work:
            x = work.pop()
            n = self.nodes[x]
            out = dict(IN[x])
            for name in self.defs_of(n):
                out[name] = frozenset([x])
            for s, lab in n.succ:
                tgt = IN[s]
                changed = s not in visited
                visited.add(s)
                src = IN[x] if lab == "exc" else out  # an exception may pre-empt the assignment
                if lab == "exc":
                    src = {k: src.get(k, frozenset()) | out.get(k, frozenset()) for k in set(src) | set(out)}
                for k, v in src.items():
                    old = tgt.get(k, frozenset())
                    new = old | v
                    if new != old:
                        tgt[k] = new
                        changed = True
                if changed:
                    work.append(s)
        self._rd_in = IN
        return IN
