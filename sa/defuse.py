"""E5 def-use resolution: turn an expression at a program point into an *origin term*.

An origin term is an ordinary `ast` expression in which
  * a local with exactly one reaching definition `x = <pure expr>` is replaced by that expression
    (resolved at the definition's own program point);
  * loop / comprehension targets become   §elem(<loop id>, <iterable term>)   /  §idx(<loop id>, <iterable>);
  * tuple-unpacking of a call becomes      §unpack(<call term>, <position>);
  * parameters stay plain Names (they have the entry node as only definition);
  * several reaching definitions give      §phi(<term>, <term>, ...)  unless they agree after stripping
    the repo's sequence-normalisation idiom, in which case the agreed base is returned as §norm(base);
  * everything the resolver does not want to look into is §def(<node id>).
Two uses denote "the same value" iff `key()` of their origin terms is equal.  Heap loads (attributes,
subscripts) are compared syntactically: rules that depend on them check for intervening writes.
"""
from __future__ import annotations

import ast
import copy
from typing import Dict, List, Optional, Set, Tuple

from .cfg import CFG

MUTATOR_METHODS = {"pop", "append", "extend", "insert", "remove", "clear", "sort", "update", "setdefault", "popitem"}
NORM_FUNCS = {"array", "asarray", "atleast_1d", "list", "tuple", "repeat", "ravel"}
NORM_METHODS = {"flatten", "ravel", "tolist", "copy", "astype"}


def sym(name: str, *args: ast.AST) -> ast.Call:
    return ast.Call(func=ast.Name(id="§" + name, ctx=ast.Load()), args=list(args), keywords=[])


def is_sym(e: ast.AST, name: Optional[str] = None) -> bool:
    return (
        isinstance(e, ast.Call)
        and isinstance(e.func, ast.Name)
        and e.func.id.startswith("§")
        and (name is None or e.func.id == "§" + name)
    )


def key(e: ast.AST) -> str:
    return ast.dump(e, annotate_fields=False, include_attributes=False).replace("Store()", "Load()").replace("Del()", "Load()")


def show(e: ast.AST) -> str:
    try:
        return ast.unparse(e)
    except Exception:  # pragma: no cover
        return key(e)


class Resolver:
    def __init__(self, cfg: CFG, params: List[str]):
        self.cfg = cfg
        self.params = set(params)
        self.rd = cfg.reaching()
        self._memo: Dict[Tuple[int, int], ast.AST] = {}
        self.module_consts: Dict[str, ast.AST] = {}  # module-level NAME = <constant>  (set by the function view)
        self.inliner = None  # optional callback(resolved call, raw call) -> term | None  (set by the function view)

    # ------------------------------------------------------------------ public
    def resolve(self, expr: ast.AST, at: int, depth: int = 0, _stack: Optional[Set] = None) -> ast.AST:
        _stack = _stack if _stack is not None else set()
        return self._res(expr, at, depth, _stack, {})

    def resolve_with(self, expr: ast.AST, at: int, bound: Dict[str, ast.AST]) -> ast.AST:
        """Resolve with some names pre-bound to given terms (used for case splits)."""
        return self._res(expr, at, 0, set(), dict(bound))

    def resolve_name(self, name: str, at: int) -> ast.AST:
        return self._name(name, at, 0, set(), {})

    # ---------------------------------------------------------------- internals
    def _res(self, e: ast.AST, at: int, depth: int, stack: Set, bound: Dict[str, ast.AST]) -> ast.AST:
        if depth > 60:
            return sym("deep")
        if isinstance(e, ast.Name):
            if e.id in bound:
                return bound[e.id]
            return self._name(e.id, at, depth, stack, bound)
        if isinstance(e, (ast.ListComp, ast.SetComp, ast.GeneratorExp, ast.DictComp)):
            return self._comp(e, at, depth, stack, bound)
        if isinstance(e, ast.Lambda):
            return sym("lambda", ast.Constant(value=getattr(e, "lineno", 0)))
        if isinstance(e, ast.NamedExpr):
            return self._res(e.value, at, depth + 1, stack, bound)
        if isinstance(e, ast.Subscript):
            rew = self._index_loop_rewrite(e, at, depth, stack, bound)
            if rew is not None:
                return rew
        new = copy.copy(e)
        for field, value in ast.iter_fields(e):
            if isinstance(value, ast.AST):
                if isinstance(value, (ast.expr_context, ast.operator, ast.unaryop, ast.cmpop, ast.boolop)):
                    continue
                setattr(new, field, self._res(value, at, depth + 1, stack, bound))
            elif isinstance(value, list):
                setattr(
                    new,
                    field,
                    [self._res(v, at, depth + 1, stack, bound) if isinstance(v, ast.AST) and not isinstance(v, (ast.cmpop,)) else v for v in value],
                )
        if isinstance(new, ast.Subscript) and isinstance(new.value, (ast.Tuple, ast.List)) and isinstance(new.slice, ast.Constant) and isinstance(new.slice.value, int) \
                and not isinstance(new.slice.value, bool) and 0 <= new.slice.value < len(new.value.elts) and not any(isinstance(x, ast.Starred) for x in new.value.elts):
            return new.value.elts[new.slice.value]  # (a, b, c)[1] == b
        if isinstance(new, ast.Subscript) and is_sym(new.value, "elem") and isinstance(new.slice, ast.Constant) and isinstance(new.slice.value, int) and not isinstance(new.slice.value, bool) \
                and new.slice.value >= 0 and isinstance(e, ast.Subscript) and isinstance(e.value, ast.Name):
            # pair[1] of a loop element `pair` is the component that `for a, b in ..` would have bound to b
            return sym("item", new.value, ast.Constant(value=new.slice.value))
        if isinstance(new, ast.Call) and isinstance(new.func, ast.Name) and new.func.id == "tuple" and len(new.args) == 1 and not new.keywords and isinstance(new.args[0], (ast.Tuple, ast.List)) \
                and not any(isinstance(x, ast.Starred) for x in new.args[0].elts):
            return ast.copy_location(ast.Tuple(elts=list(new.args[0].elts), ctx=ast.Load()), new)  # tuple((a, b, c)) == (a, b, c)
        if isinstance(new, ast.Call) and isinstance(new.func, ast.Name) and new.func.id in ("max", "min") and len(new.args) == 1 and not new.keywords \
                and isinstance(new.args[0], (ast.Tuple, ast.List)):
            new.args = list(new.args[0].elts)  # max((a, b, c)) == max(a, b, c)
        if isinstance(new, ast.Call) and self.inliner is not None and not is_sym(new):
            inl = self.inliner(new, e)
            if inl is not None:
                return inl
        if isinstance(new, ast.IfExp):
            # `numpy.repeat(x, n) if len(x) == 1 else x`: both arms are normalisations of the same sequence - the
            # expression form of `if len(x) == 1: x = numpy.repeat(x, n)`
            a, b = new.body, new.orelse
            ba, bb = strip_norm(a), strip_norm(b)
            if key(ba) == key(bb) and (ba is not a or bb is not b) and not isinstance(ba, ast.Constant):
                return sym("norm", ba, b, a)
        return new

    def _index_loop_rewrite(self, e: ast.Subscript, at, depth, stack, bound) -> Optional[ast.AST]:
        """X[i] with i the counter of `for i in range(len(X'))` / `for i, _ in enumerate(X')`  ==>  §elem(loop, X)."""
        idx = self._res(e.slice, at, depth + 1, stack, bound)
        seq = None
        loopid = None
        if is_sym(idx, "elem") and len(idx.args) == 2:
            it = idx.args[1]
            def length_of(b) -> Optional[ast.AST]:
                # len(S) | S.size | S.shape[0]
                if isinstance(b, ast.Call) and isinstance(b.func, ast.Name) and b.func.id == "len" and len(b.args) == 1:
                    return b.args[0]
                if isinstance(b, ast.Attribute) and b.attr == "size":
                    return b.value
                if isinstance(b, ast.Subscript) and isinstance(b.value, ast.Attribute) and b.value.attr == "shape" and isinstance(b.slice, ast.Constant) and b.slice.value == 0:
                    return b.value.value
                return None

            if isinstance(it, ast.Call) and isinstance(it.func, ast.Name) and it.func.id == "range" and len(it.args) == 1:
                bnd = it.args[0]
                if length_of(bnd) is not None:
                    seq, loopid = length_of(bnd), idx.args[0]
                elif isinstance(bnd, ast.Call) and isinstance(bnd.func, ast.Name) and bnd.func.id == "min" and bnd.args and not bnd.keywords:
                    # range(min(len(X), len(Y))): the index loop that stops at the shorter sequence, like zip(X, Y)
                    parts = bnd.args[0].elts if len(bnd.args) == 1 and isinstance(bnd.args[0], (ast.Tuple, ast.List)) else bnd.args
                    if parts and all(length_of(p_) is not None for p_ in parts):
                        seq, loopid = length_of(parts[0]), idx.args[0]
        elif is_sym(idx, "idx") and len(idx.args) == 2:
            seq, loopid = idx.args[1], idx.args[0]
        if seq is None:
            return None
        base = self._res(e.value, at, depth + 1, stack, bound)
        return sym("elem", loopid, base)

    def _comp(self, e, at, depth, stack, bound):
        b = dict(bound)
        gens = []
        for gi, g in enumerate(e.generators):
            it = self._res(g.iter, at, depth + 1, stack, b)
            cid = ast.Constant(value=f"comp@{getattr(e, 'lineno', 0)}:{getattr(e, 'col_offset', 0)}#{gi}")
            self._bind_target(g.target, it, cid, b)
            gens.append((it, [self._res(c, at, depth + 1, stack, b) for c in g.ifs]))
        if isinstance(e, ast.DictComp):
            body = [self._res(e.key, at, depth + 1, stack, b), self._res(e.value, at, depth + 1, stack, b)]
        else:
            body = [self._res(e.elt, at, depth + 1, stack, b)]
        kind = type(e).__name__
        args = [ast.Constant(value=kind)] + body
        for it, ifs in gens:
            args.append(sym("gen", it, *ifs))
        return sym("comp", *args)

    def _bind_target(self, target: ast.AST, it: ast.AST, loopid: ast.AST, b: Dict[str, ast.AST]) -> None:
        """Bind loop/comprehension target names to element symbols of the iterable term."""
        for name, term in self.target_bindings(target, it, loopid):
            b[name] = term

    def target_bindings(self, target: ast.AST, it: ast.AST, loopid: ast.AST) -> List[Tuple[str, ast.AST]]:
        out: List[Tuple[str, ast.AST]] = []

        def elem_of(seq: ast.AST) -> ast.AST:
            return sym("elem", loopid, seq)

        def bind(t: ast.AST, value: ast.AST, seq_for_tuple: Optional[ast.AST]) -> None:
            if isinstance(t, ast.Name):
                out.append((t.id, value))
            elif isinstance(t, (ast.Tuple, ast.List)):
                parts = self._iter_parts(seq_for_tuple) if seq_for_tuple is not None else None
                for i, el in enumerate(t.elts):
                    if parts is not None and parts[0] == "zip" and i < len(parts[1]):
                        sub = parts[1][i]
                        bind(el, elem_of(sub), sub)
                    elif parts is not None and parts[0] == "enumerate":
                        if i == 0:
                            counter = sym("idx", loopid, parts[1][0])
                            if len(parts) > 2 and parts[2] is not None:
                                counter = ast.BinOp(left=counter, op=ast.Add(), right=parts[2])
                            bind(el, counter, None)
                        else:
                            bind(el, elem_of(parts[1][0]), parts[1][0])
                    elif parts is not None and parts[0] == "items":
                        bind(el, sym("key" if i == 0 else "val", loopid, parts[1][0]), None)
                    elif parts is not None and parts[0] == "ndenumerate":
                        bind(el, sym("idx" if i == 0 else "elem", loopid, parts[1][0]), None)
                    else:
                        bind(el, sym("item", value, ast.Constant(value=i)), None)
            elif isinstance(t, ast.Starred):
                bind(t.value, sym("star", value), None)

        bind(target, elem_of(it), it)
        return out

    @staticmethod
    def _iter_parts(it: Optional[ast.AST]):
        """Recognise zip(a, b, ...), enumerate(x), x.items(), numpy.ndenumerate(x)."""
        while (
            isinstance(it, ast.Call) and isinstance(it.func, ast.Name) and it.func.id in ("list", "tuple") and len(it.args) == 1
            and isinstance(it.args[0], ast.Call)
        ):
            it = it.args[0]
        if isinstance(it, ast.Call):
            fn = it.func
            if isinstance(fn, ast.Name) and fn.id == "zip" and not it.keywords:
                return ("zip", list(it.args))
            if isinstance(fn, ast.Name) and fn.id == "enumerate" and len(it.args) >= 1:
                start = it.args[1] if len(it.args) > 1 else next((k.value for k in it.keywords if k.arg == "start"), None)
                return ("enumerate", [it.args[0]], start)
            if isinstance(fn, ast.Attribute) and fn.attr == "items" and not it.args:
                return ("items", [fn.value])
            if isinstance(fn, ast.Attribute) and fn.attr == "ndenumerate" and len(it.args) == 1:
                return ("ndenumerate", [it.args[0]])
        return None

    def _name(self, name: str, at: int, depth: int, stack: Set, bound) -> ast.AST:
        defs = self.rd[at].get(name)
        if not defs:
            if name in self.module_consts:
                return copy.deepcopy(self.module_consts[name])
            return ast.Name(id=name, ctx=ast.Load())  # global / builtin / module alias
        terms = []
        for d in sorted(defs):
            terms.append(self._def_term(name, d, depth, stack))
        if len(terms) == 1:
            return terms[0]
        keys = {key(t) for t in terms}
        if len(keys) == 1:
            return terms[0]
        bases = {key(strip_norm(t)) for t in terms}
        if len(bases) == 1:
            # same sequence on every path, differently normalised: keep the variants for order checks
            return sym("norm", strip_norm(terms[0]), *sorted(terms, key=key))
        uniq = []
        for t in terms:
            if key(t) not in {key(u) for u in uniq}:
                uniq.append(t)
        return sym("phi", *uniq)

    def _def_term(self, name: str, d: int, depth: int, stack: Set) -> ast.AST:
        memo_key = (d, hash(name))
        if memo_key in self._memo:
            return self._memo[memo_key]
        if (d, name) in stack:
            return sym("rec", ast.Constant(value=d))
        stack = stack | {(d, name)}
        n = self.cfg.nodes[d]
        term: ast.AST
        if n.kind == "entry":
            term = ast.Name(id=name, ctx=ast.Load())
        elif n.kind == "for":
            it = self._res(n.ast.iter, d, depth + 1, stack, {})
            loopid = ast.Constant(value=f"loop@{d}")
            term = dict(self.target_bindings(n.ast.target, it, loopid)).get(name, sym("def", ast.Constant(value=d)))
        elif n.kind == "stmt" and isinstance(n.ast, ast.Assign) and len(n.ast.targets) == 1:
            term = self._assign_term(name, n.ast.targets[0], n.ast.value, d, depth, stack)
        elif n.kind == "stmt" and isinstance(n.ast, ast.AnnAssign) and n.ast.value is not None:
            term = self._assign_term(name, n.ast.target, n.ast.value, d, depth, stack)
        elif n.kind == "stmt" and isinstance(n.ast, ast.AugAssign) and isinstance(n.ast.target, ast.Name):
            prev = self._name(name, d, depth + 1, stack, {})
            term = ast.BinOp(left=prev, op=n.ast.op, right=self._res(n.ast.value, d, depth + 1, stack, {}))
        else:
            term = sym("def", ast.Constant(value=d))
        self._memo[memo_key] = term
        return term

    def _assign_term(self, name, target, value, d, depth, stack) -> ast.AST:
        if isinstance(target, ast.Name):
            if self._impure(value):
                return sym("def", ast.Constant(value=d))
            if self._empty_container(value):
                built = self._loop_built(name, value, d, depth, stack)
                if built is not None:
                    return built
                # an empty container that is read later has been filled by mutation in between: keep it symbolic
                return sym("mut", ast.Constant(value=name), ast.Constant(value=d))
            if self._fresh_list(value) and self._stored_into_after(name, d):
                # a pre-sized list whose entries are overwritten afterwards is not its initial value any more
                return sym("mut", ast.Constant(value=name), ast.Constant(value=d))
            if self._resized_in_place_after(name, d):
                # x.resize(n) / x.sort() / x.fill(v) ... change the object the name is bound to
                return sym("mut", ast.Constant(value=name), ast.Constant(value=d))
            return self._res(value, d, depth + 1, stack, {})
        if isinstance(target, (ast.Tuple, ast.List)):
            names = [t.id if isinstance(t, ast.Name) else None for t in target.elts]
            if name in names:
                i = names.index(name)
                if isinstance(value, (ast.Tuple, ast.List)) and len(value.elts) == len(target.elts):
                    return self._res(value.elts[i], d, depth + 1, stack, {})
                whole = self._res(value, d, depth + 1, stack, {})
                if isinstance(whole, (ast.Tuple, ast.List)) and len(whole.elts) == len(target.elts):
                    return whole.elts[i]  # e.g. a helper call that was looked through
                # a, b = t[k:]   ->   a = t[k], b = t[k + 1]   (for a non-negative constant start)
                if isinstance(whole, ast.Subscript) and isinstance(whole.slice, ast.Slice) and whole.slice.step is None and (
                        whole.slice.lower is None or (isinstance(whole.slice.lower, ast.Constant) and isinstance(whole.slice.lower.value, int) and whole.slice.lower.value >= 0)):
                    lo = whole.slice.lower.value if whole.slice.lower is not None else 0
                    return sym("unpack", whole.value, ast.Constant(value=lo + i))
                return sym("unpack", whole, ast.Constant(value=i))
        return sym("def", ast.Constant(value=d))

    def _loop_built(self, name: str, value: ast.AST, d: int, depth: int, stack) -> Optional[ast.AST]:
        """`x = []` / `{}` that is filled by exactly one unconditional `x.append(e)` / `x[k] = v` in one for-loop and only
        read after that loop has run to completion is the comprehension `[e for t in it]` / `{k: v for t in it}`."""
        cfg = self.cfg
        if isinstance(value, ast.Call) or cfg.enclosing_loops(d):
            return None
        is_dict = isinstance(value, ast.Dict)
        sites = []
        reads = []
        for n in cfg.nodes:
            if n.ast is None or n.id == d:
                continue
            roots = [n.ast.iter] if n.kind == "for" else [n.ast.test] if n.kind == "test" and hasattr(n.ast, "test") else [n.ast]
            for root in roots:
                for sub in ast.walk(root):
                    if isinstance(sub, (ast.FunctionDef, ast.Lambda)):
                        continue
                    if isinstance(sub, ast.Name) and sub.id == name:
                        if d not in cfg.reaching()[n.id].get(name, ()):
                            continue
                        reads.append((n, sub))
        for n in cfg.nodes:
            if n.kind != "stmt" or d not in cfg.reaching()[n.id].get(name, ()):
                continue
            a = n.ast
            if not is_dict and isinstance(a, ast.Expr) and isinstance(a.value, ast.Call) and isinstance(a.value.func, ast.Attribute) and isinstance(a.value.func.value, ast.Name) and a.value.func.value.id == name:
                if a.value.func.attr == "append" and len(a.value.args) == 1 and not a.value.keywords:
                    sites.append((n, None, a.value.args[0], a.value.func.value))
                else:
                    return None
            elif is_dict and isinstance(a, ast.Assign) and len(a.targets) == 1 and isinstance(a.targets[0], ast.Subscript) and isinstance(a.targets[0].value, ast.Name) and a.targets[0].value.id == name:
                sites.append((n, a.targets[0].slice, a.value, a.targets[0].value))
        if len(sites) != 1:
            return None
        sn, k_e, v_e, self_ref = sites[0]
        loops = [h for h in cfg.enclosing_loops(sn.id) if cfg.nodes[h].kind == "for"]
        if len(loops) != 1 or len(cfg.enclosing_loops(sn.id)) != 1 or cfg.loop_has_break.get(loops[0]) or not cfg.dominates(d, loops[0]):
            return None
        h = loops[0]
        body = cfg.loop_body[h]
        if any(x in body for x, _ in cfg.controlling(sn.id)):
            return None
        if any(m.kind == "stmt" and isinstance(m.ast, (ast.Continue, ast.Break, ast.Return)) for m in (cfg.nodes[i] for i in body)):
            return None
        # every other occurrence of the name must be a read after the loop completed (or a rebinding, which ends this def)
        for n, occ in reads:
            if occ is self_ref:
                continue
            if isinstance(occ.ctx, ast.Store):
                continue
            if n.id in body or n.id == h or h not in cfg.completed_loops_at(n.id):
                return None
        # the mutation must not be reachable again (a second, enclosing repetition)
        it = self._res(cfg.nodes[h].ast.iter, h, depth + 1, stack, {})
        body_terms = ([self._res(k_e, sn.id, depth + 1, stack, {})] if k_e is not None else []) + [self._res(v_e, sn.id, depth + 1, stack, {})]
        return sym("comp", ast.Constant(value="DictComp" if is_dict else "ListComp"), *body_terms, sym("gen", it))

    @staticmethod
    def _fresh_list(value: ast.AST) -> bool:
        if isinstance(value, ast.List) and value.elts:
            return True
        if isinstance(value, ast.BinOp) and isinstance(value.op, ast.Mult) and (isinstance(value.left, ast.List) or isinstance(value.right, ast.List)):
            return True
        return False

    IN_PLACE_METHODS = ("resize", "sort", "fill", "put", "itemset", "partition", "reverse", "setfield", "byteswap")

    def _resized_in_place_after(self, name: str, d: int) -> bool:
        for n in self.cfg.nodes:
            if n.kind != "stmt" or n.id == d or not isinstance(n.ast, ast.Expr) or not isinstance(n.ast.value, ast.Call):
                continue
            fn = n.ast.value.func
            if isinstance(fn, ast.Attribute) and fn.attr in self.IN_PLACE_METHODS and isinstance(fn.value, ast.Name) and fn.value.id == name \
                    and self.cfg.reaches(d, n.id) and d in self.rd[n.id].get(name, ()):
                return True
        return False

    def _stored_into_after(self, name: str, d: int) -> bool:
        """some statement reachable from the definition stores into the list bound to `name` (x[i] = v, x[a:b] = vs)"""
        for n in self.cfg.nodes:
            if n.kind != "stmt" or n.id == d or not isinstance(n.ast, (ast.Assign, ast.AugAssign)):
                continue
            tgts = n.ast.targets if isinstance(n.ast, ast.Assign) else [n.ast.target]
            for t in tgts:
                if isinstance(t, ast.Subscript) and isinstance(t.value, ast.Name) and t.value.id == name and self.cfg.reaches(d, n.id):
                    if d in self.rd[n.id].get(name, ()):
                        return True
        return False

    @staticmethod
    def _empty_container(value: ast.AST) -> bool:
        if isinstance(value, (ast.List, ast.Set)) and not value.elts:
            return True
        if isinstance(value, ast.Dict) and not value.keys:
            return True
        if isinstance(value, ast.Call) and not value.args and not value.keywords and isinstance(value.func, ast.Name) and value.func.id in ("list", "dict", "set"):
            return True
        if isinstance(value, ast.Call) and (getattr(value.func, "attr", None) == "defaultdict" or getattr(value.func, "id", None) == "defaultdict"):
            return True
        return False

    @staticmethod
    def _impure(value: ast.AST) -> bool:
        for sub in ast.walk(value):
            if isinstance(sub, ast.Call) and isinstance(sub.func, ast.Attribute) and sub.func.attr in MUTATOR_METHODS:
                return True
        return False


MODULE_ALIASES = {"numpy", "np", "math"}


def _norm_step(t: ast.AST):
    """One normalisation operator at the top of `t`: (name, call, inner term) or None."""
    if isinstance(t, ast.Call) and not is_sym(t):
        fn = t.func
        if isinstance(fn, ast.Attribute):
            is_module = isinstance(fn.value, ast.Name) and fn.value.id in MODULE_ALIASES
            if not is_module and fn.attr in NORM_METHODS:
                return fn.attr, t, fn.value
            if is_module and fn.attr in NORM_FUNCS and t.args:
                return fn.attr, t, t.args[0]
            return None
        if isinstance(fn, ast.Name) and fn.id in NORM_FUNCS and t.args:
            return fn.id, t, t.args[0]
    return None



def strip_norm(t: ast.AST) -> ast.AST:
    """Strip the repo's sequence normalisation idiom: array(x), x.flatten(..), repeat(x, n), list(x), §norm(x)."""
    while True:
        if is_sym(t, "norm"):
            t = t.args[0]
            continue
        st = _norm_step(t)
        if st is None:
            return t
        t = st[2]


def norm_ops(t: ast.AST) -> List[Tuple[str, ast.Call]]:
    """The chain of normalisation operators stripped by strip_norm (outermost first)."""
    ops = []
    while True:
        if is_sym(t, "norm"):
            t = t.args[0]
            continue
        st = _norm_step(t)
        if st is None:
            return ops
        ops.append((st[0], st[1]))
        t = st[2]


def walk_terms(t: ast.AST):
    yield from ast.walk(t)


def mentions(t: ast.AST, pred) -> bool:
    return any(pred(s) for s in ast.walk(t))


def names_in(t: ast.AST) -> Set[str]:
    return {s.id for s in ast.walk(t) if isinstance(s, ast.Name) and not s.id.startswith("§")}


def norm_chains(t: ast.AST) -> List[List[Tuple[str, ast.Call]]]:
    """All normalisation operator chains of a sequence term (one per reaching-definition variant)."""
    if is_sym(t, "norm"):
        out: List[List[Tuple[str, ast.Call]]] = []
        for v in t.args[1:]:
            out += norm_chains(v)
        return out or [[]]
    ops = []
    cur = t
    while True:
        if is_sym(cur, "norm"):
            tails = norm_chains(cur)
            return [ops + tail for tail in tails]
        st = _norm_step(cur)
        if st is None:
            return [ops]
        ops.append((st[0], st[1]))
        cur = st[2]


def flatten_order(name: str, call: ast.Call):
    """Order argument of x.flatten(o) / x.ravel(o) / numpy.ravel(x, o); None = default (row-major)."""
    method_form = isinstance(call.func, ast.Attribute) and not (isinstance(call.func.value, ast.Name) and call.func.value.id in ("numpy", "np"))
    args = call.args if method_form else call.args[1:]
    order = None
    if args and isinstance(args[0], ast.Constant):
        order = args[0].value
    for kw in call.keywords:
        if kw.arg == "order" and isinstance(kw.value, ast.Constant):
            order = kw.value.value
    return order
