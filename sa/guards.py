"""Raising-guard algebra: atoms, DNF of raising conditions, and raising terms of a function including the
guards that live in *new* helper functions (propagated to the call site by substituting arguments)."""
from __future__ import annotations

import ast
import itertools
from typing import Dict, List, Optional, Tuple

from .canon import Cmp, Poly, to_cmp
from .defuse import key, show


def call_fname(t: ast.AST) -> str:
    if not isinstance(t, ast.Call):
        return ""
    fn = t.func
    if isinstance(fn, ast.Attribute):
        return fn.attr
    if isinstance(fn, ast.Name):
        return fn.id
    return ""


def _raise_class(fv, r):
    from .rules.common import raise_class

    return raise_class(fv, r)


class Atom:
    def __init__(self, expr: ast.AST, pol: bool):
        if isinstance(expr, ast.Compare) and len(expr.ops) == 1 and isinstance(expr.ops[0], ast.NotIn):
            # `a not in b` known True is `a in b` known False: one canonical spelling for membership atoms
            expr, pol = ast.copy_location(ast.Compare(left=expr.left, ops=[ast.In()], comparators=expr.comparators), expr), not pol
        self.expr, self.pol = expr, pol
        self.cmp: Optional[Cmp] = None
        self.kind = "other"
        self.inner: Optional[Cmp] = None
        self.agg = ""
        e = expr
        if isinstance(e, ast.Compare) and len(e.ops) == 1 and isinstance(e.ops[0], (ast.Lt, ast.LtE, ast.Gt, ast.GtE, ast.Eq, ast.NotEq)):
            self.cmp = to_cmp(e, pol)
            self.kind = "cmp"
            self.raises_on_nan = (not pol) if not isinstance(e.ops[0], ast.NotEq) else pol
        elif isinstance(e, ast.Compare) and len(e.ops) == 1 and isinstance(e.ops[0], (ast.Is, ast.IsNot)) and isinstance(e.comparators[0], ast.Constant) and e.comparators[0].value is None:
            self.kind = "none"
            self.var = show(e.left)
            self.is_none = (isinstance(e.ops[0], ast.Is)) == pol
            self.raises_on_nan = False
        elif isinstance(e, ast.Call) and call_fname(e) == "isinstance" and len(e.args) == 2:
            self.kind = "isinstance"
            self.var = show(e.args[0])
            t = e.args[1]
            self.types = sorted(show(x) for x in (t.elts if isinstance(t, ast.Tuple) else [t]))
            self.raises_on_nan = False
        elif isinstance(e, ast.Call) and call_fname(e) in ("any", "all") and (e.args or isinstance(e.func, ast.Attribute)):
            inner = e.args[0] if e.args else e.func.value
            self.kind = "agg"
            self.agg = call_fname(e)
            self.inner_expr = inner
            self.raises_on_nan = False
            if isinstance(inner, ast.Compare) and len(inner.ops) == 1:
                # any(x < 0) True : raises when some element satisfies; NaN elements do not
                self.inner = to_cmp(inner, True)
                self.raises_on_nan = (self.agg == "all" and not pol)
            elif isinstance(inner, ast.Call) and call_fname(inner) in ("isfinite", "isnan", "isinf"):
                self.inner_fn = call_fname(inner)
        elif isinstance(e, ast.Name) or isinstance(e, ast.Attribute):
            self.kind = "truthy"
            self.var = show(e)
            self.raises_on_nan = False
        else:
            self.raises_on_nan = False

    def __repr__(self):
        return f"{'' if self.pol else 'not '}{show(self.expr)[:50]}"


def dnf(e: ast.AST, pol: bool) -> List[List[Atom]]:
    if isinstance(e, ast.UnaryOp) and isinstance(e.op, ast.Not):
        return dnf(e.operand, not pol)
    if isinstance(e, ast.BoolOp):
        parts = [dnf(v, pol) for v in e.values]
        union = (isinstance(e.op, ast.Or) and pol) or (isinstance(e.op, ast.And) and not pol)
        if union:
            return [t for p in parts for t in p]
        out = []
        for combo in itertools.product(*parts):
            out.append([a for term in combo for a in term])
        return out
    if isinstance(e, ast.Compare) and len(e.ops) > 1:
        pieces = []
        left = e.left
        for op, right in zip(e.ops, e.comparators):
            pieces.append(ast.Compare(left=left, ops=[op], comparators=[right]))
            left = right
        return dnf(ast.BoolOp(op=ast.And(), values=pieces), pol)
    return [[Atom(e, pol)]]


def local_raising_terms(fv, before: Optional[int]):
    """[(term atoms, guard node, raise class)] for every raising guard of `fv` that covers `before`
    (before=None: every raising guard of the function)."""
    out = []
    for n, test, pol_raise, r in fv.raising_guards():
        chain = fv.controlling(n.id, skip_raising=True)
        # a nested guard covers `before` when the outermost enclosing test does (it is then reached whenever its
        # enclosing conditions hold)
        anchor = n.id
        for d, _ in chain:
            if fv.cfg.dominates(d, anchor):
                anchor = d
        if before is not None:
            covered = fv.cfg.dominates(anchor, before) and fv.cfg.reaches(n.id, before)
            if not covered:
                # a guard evaluated in every iteration of a loop that has run to completion before `before`
                loops = [h for h in fv.cfg.enclosing_loops(n.id) if fv.cfg.nodes[h].kind == "for"]
                covered = bool(loops) and loops[0] in fv.cfg.completed_loops_at(before) and all(fv.cfg.every_iteration(anchor, h) for h in loops[-1:])
            if not covered:
                continue
        rt = fv.res.resolve(test, n.id)
        cls = _raise_class(fv, r)[0]
        ctrl = []
        unknown_ctrl = False
        for d, pol in chain:
            dd = dnf(fv.res.resolve(fv.cfg.nodes[d].ast, d), pol)
            if len(dd) == 1:
                ctrl += dd[0]
            else:
                unknown_ctrl = True
        if unknown_ctrl:
            continue
        for term in dnf(rt, pol_raise):
            full = _drop_static(ctrl + term)
            if full is not None:
                out.append((full, n, cls))
    return out


def _static_truth(a: "Atom") -> Optional[bool]:
    """truth value of an atom that compares constants (left over when a helper's parameter was bound to a literal)"""
    e = a.expr
    if isinstance(e, ast.Compare) and len(e.ops) == 1 and isinstance(e.left, ast.Constant) and isinstance(e.comparators[0], ast.Constant):
        x, y, op = e.left.value, e.comparators[0].value, e.ops[0]
        try:
            v = {ast.Is: x is y, ast.IsNot: x is not y, ast.Eq: x == y, ast.NotEq: x != y}.get(type(op))
            if v is None and isinstance(op, (ast.Lt, ast.LtE, ast.Gt, ast.GtE)):
                v = {ast.Lt: x < y, ast.LtE: x <= y, ast.Gt: x > y, ast.GtE: x >= y}[type(op)]
        except TypeError:
            return None
        return None if v is None else (v == a.pol)
    if isinstance(e, ast.Constant) and isinstance(e.value, (bool, int, str, type(None))):
        return bool(e.value) == a.pol
    return None


def _drop_static(term):
    """a conjunction without its statically true atoms; None if one atom is statically false (the term never holds)"""
    out = []
    for a in term:
        t = _static_truth(a)
        if t is False:
            return None
        if t is None:
            out.append(a)
    return out


def raising_terms(fv, before: Optional[int], exc: str = "ValueError", _depth: int = 0):
    """Local raising terms plus those of new helper functions called on the way to `before`, expressed over the
    caller's argument terms.  The third element of each entry is the exception class name."""
    out = list(local_raising_terms(fv, before))
    if fv.registry is None or _depth >= 2:
        return out
    for cs in fv.calls():
        hv = fv._helper_view(cs.call)
        if hv is None:
            continue
        if before is not None:
            chain = fv.controlling(cs.node, skip_raising=True)
            anchor = cs.node
            for d, _ in chain:
                if fv.cfg.dominates(d, anchor):
                    anchor = d
            loops = [h for h in fv.cfg.enclosing_loops(cs.node) if fv.cfg.nodes[h].kind == "for"]
            covered = fv.cfg.dominates(anchor, before) or (loops and loops[0] in fv.cfg.completed_loops_at(before))
            if not covered or cs.node == before:
                continue
        g, conc = hv
        gv = fv.registry.fv(g, conc)
        saved = fv.res.inliner
        fv.res.inliner = None
        try:
            rc = fv.res.resolve(cs.call, cs.node)
        finally:
            fv.res.inliner = saved
        mapping = fv._bind_terms(g, rc) if isinstance(rc, ast.Call) else None
        if mapping is None:
            continue
        for term, n, cls in raising_terms(gv, None, exc, _depth + 1):
            new_term = _drop_static([Atom(fv._substitute(a.expr, mapping, g.short), a.pol) for a in term])
            if new_term is not None:
                out.append((new_term, fv.cfg.nodes[cs.node], cls))
    return out


