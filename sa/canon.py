"""E6 expression canoniser: polynomial normal form over + - * (and division by constants),
comparison normal form, small boolean truth tables."""
from __future__ import annotations

import ast
import itertools
from fractions import Fraction
from typing import Callable, Dict, List, Optional, Tuple

from .defuse import key, show

Mono = Tuple[str, ...]


class Poly:
    """Sparse polynomial: monomial (sorted tuple of symbol keys) -> Fraction."""

    def __init__(self, terms: Optional[Dict[Mono, Fraction]] = None, names: Optional[Dict[str, str]] = None):
        self.terms: Dict[Mono, Fraction] = {m: c for m, c in (terms or {}).items() if c != 0}
        self.names: Dict[str, str] = dict(names or {})  # symbol key -> readable text

    @staticmethod
    def const(c) -> "Poly":
        return Poly({(): Fraction(c)})

    @staticmethod
    def symbol(e: ast.AST) -> "Poly":
        k = key(e)
        return Poly({(k,): Fraction(1)}, {k: show(e)})

    def _merge_names(self, o: "Poly") -> Dict[str, str]:
        d = dict(self.names)
        d.update(o.names)
        return d

    def __add__(self, o: "Poly") -> "Poly":
        t = dict(self.terms)
        for m, c in o.terms.items():
            t[m] = t.get(m, Fraction(0)) + c
        return Poly(t, self._merge_names(o))

    def __neg__(self) -> "Poly":
        return Poly({m: -c for m, c in self.terms.items()}, self.names)

    def __sub__(self, o: "Poly") -> "Poly":
        return self + (-o)

    def __mul__(self, o: "Poly") -> "Poly":
        t: Dict[Mono, Fraction] = {}
        for m1, c1 in self.terms.items():
            for m2, c2 in o.terms.items():
                m = tuple(sorted(m1 + m2))
                t[m] = t.get(m, Fraction(0)) + c1 * c2
        return Poly(t, self._merge_names(o))

    def subst(self, mapping: Dict[str, "Poly"]) -> "Poly":
        """Substitute polynomials for symbols (keys of `mapping` are symbol keys)."""
        out = Poly()
        for m, c in self.terms.items():
            term = Poly.const(c)
            for s in m:
                term = term * (mapping[s] if s in mapping else Poly({(s,): Fraction(1)}, {s: self.names.get(s, s)}))
            out = out + term
        return out

    def is_const(self) -> bool:
        return all(m == () for m in self.terms)

    def const_value(self) -> Fraction:
        return self.terms.get((), Fraction(0))

    def __eq__(self, o) -> bool:
        return isinstance(o, Poly) and self.terms == o.terms

    def __hash__(self):
        return hash(tuple(sorted(self.terms.items())))

    def is_zero(self) -> bool:
        return not self.terms

    def symbols(self) -> List[str]:
        return sorted({s for m in self.terms for s in m})

    def pretty(self) -> str:
        if not self.terms:
            return "0"
        parts = []
        for m, c in sorted(self.terms.items(), key=lambda kv: (len(kv[0]), [self.names.get(s, s) for s in kv[0]])):
            factors = "*".join(self.names.get(s, s) for s in m)
            if m == ():
                parts.append(f"{c}")
            elif c == 1:
                parts.append(factors)
            elif c == -1:
                parts.append(f"-{factors}")
            else:
                parts.append(f"{c}*{factors}")
        return " + ".join(parts).replace("+ -", "- ")


def to_poly(e: ast.AST, opaque: Optional[Callable[[ast.AST], Optional[Poly]]] = None) -> Poly:
    """Polynomial of a (resolved) expression.  Non-arithmetic sub-expressions become symbols."""
    if opaque is not None:
        r = opaque(e)
        if r is not None:
            return r
    if isinstance(e, ast.Constant) and isinstance(e.value, (int, float)) and not isinstance(e.value, bool):
        return Poly.const(Fraction(e.value).limit_denominator(10**9))
    if isinstance(e, ast.BinOp):
        if isinstance(e.op, ast.Add):
            return to_poly(e.left, opaque) + to_poly(e.right, opaque)
        if isinstance(e.op, ast.Sub):
            return to_poly(e.left, opaque) - to_poly(e.right, opaque)
        if isinstance(e.op, ast.Mult):
            return to_poly(e.left, opaque) * to_poly(e.right, opaque)
        if isinstance(e.op, ast.Div):
            r = to_poly(e.right, opaque)
            if r.is_const() and r.const_value() != 0:
                return to_poly(e.left, opaque) * Poly.const(1 / r.const_value())
    if isinstance(e, ast.UnaryOp):
        if isinstance(e.op, ast.USub):
            return -to_poly(e.operand, opaque)
        if isinstance(e.op, ast.UAdd):
            return to_poly(e.operand, opaque)
    return Poly.symbol(e)


def poly_equal(a: ast.AST, b: ast.AST) -> bool:
    return to_poly(a) == to_poly(b)


# ------------------------------------------------------------------ comparisons
class Cmp:
    """Canonical comparison:  poly  REL  0   with REL in {'>', '>=', '==', '!='}."""

    def __init__(self, poly: Poly, rel: str):
        if rel in ("==", "!="):
            # sign-normalise: first monomial (sorted) gets a positive coefficient
            if poly.terms:
                first = sorted(poly.terms.items())[0]
                if first[1] < 0:
                    poly = -poly
        self.poly, self.rel = poly, rel

    def __eq__(self, o) -> bool:
        return isinstance(o, Cmp) and self.rel == o.rel and self.poly == o.poly

    def __hash__(self):
        return hash((self.rel, self.poly))

    def negate(self) -> "Cmp":
        if self.rel == ">":
            return Cmp(-self.poly, ">=")
        if self.rel == ">=":
            return Cmp(-self.poly, ">")
        return Cmp(self.poly, "!=" if self.rel == "==" else "==")

    def pretty(self) -> str:
        return f"{self.poly.pretty()} {self.rel} 0"


def to_cmp(e: ast.AST, polarity: bool = True, opaque=None) -> Optional[Cmp]:
    """Canonical form of a single comparison `a OP b` (None if `e` is not one)."""
    if isinstance(e, ast.UnaryOp) and isinstance(e.op, ast.Not):
        return to_cmp(e.operand, not polarity, opaque)
    if not (isinstance(e, ast.Compare) and len(e.ops) == 1):
        return None
    a, b, op = to_poly(e.left, opaque), to_poly(e.comparators[0], opaque), e.ops[0]
    if isinstance(op, ast.Gt):
        c = Cmp(a - b, ">")
    elif isinstance(op, ast.GtE):
        c = Cmp(a - b, ">=")
    elif isinstance(op, ast.Lt):
        c = Cmp(b - a, ">")
    elif isinstance(op, ast.LtE):
        c = Cmp(b - a, ">=")
    elif isinstance(op, ast.Eq):
        c = Cmp(a - b, "==")
    elif isinstance(op, ast.NotEq):
        c = Cmp(a - b, "!=")
    else:
        return None
    return c if polarity else c.negate()


def nan_rejecting(e: ast.AST, polarity: bool) -> Optional[bool]:
    """Does knowing `e` has truth value `polarity` exclude NaN operands?  (x >= 0 True: yes; x < 0 False: no)."""
    if isinstance(e, ast.UnaryOp) and isinstance(e.op, ast.Not):
        return nan_rejecting(e.operand, not polarity)
    if isinstance(e, ast.Compare) and len(e.ops) == 1:
        if isinstance(e.ops[0], (ast.Lt, ast.LtE, ast.Gt, ast.GtE, ast.Eq)):
            return polarity  # an ordered comparison that is *true* has no NaN operand
        if isinstance(e.ops[0], ast.NotEq):
            return not polarity
    return None


# ---------------------------------------------------------------- truth tables
def truth_table(expr: ast.AST, atoms: List[str], atom_of: Callable[[ast.AST], Optional[str]]):
    """Evaluate a boolean expression over opaque atoms for all assignments.
    atom_of(e) -> atom name if `e` is an atom.  Returns {assignment tuple: bool} or None if not boolean-evaluable."""

    def ev(e: ast.AST, env: Dict[str, bool]) -> Optional[bool]:
        a = atom_of(e)
        if a is not None:
            return env[a]
        if isinstance(e, ast.Constant) and isinstance(e.value, bool):
            return e.value
        if isinstance(e, ast.UnaryOp) and isinstance(e.op, ast.Not):
            v = ev(e.operand, env)
            return None if v is None else (not v)
        if isinstance(e, ast.BoolOp):
            vals = [ev(v, env) for v in e.values]
            if any(v is None for v in vals):
                return None
            return all(vals) if isinstance(e.op, ast.And) else any(vals)
        return None

    table = {}
    for combo in itertools.product([False, True], repeat=len(atoms)):
        env = dict(zip(atoms, combo))
        v = ev(expr, env)
        if v is None:
            return None
        table[combo] = v
    return table
