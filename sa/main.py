"""Driver: ./check <Cxx> [--tier quick|thorough] [--replay path] [--root dir]

Exit codes: 0 = every obligation holds (known findings are printed, not counted),
            1 = at least one unlisted REFUTED obligation (VIOLATION line printed),
            2 = analysis inconclusive / analysis error (never on the unchanged tree).
"""
from __future__ import annotations

import argparse
import importlib
import json
import os
import sys
import traceback

sys.setrecursionlimit(8000)  # resolved origin terms nest deeply (normalisation chains inside helper expansions)

HERE = os.path.dirname(os.path.abspath(__file__))
sys.path.insert(0, os.path.dirname(HERE))

from sa.engine import Effects  # noqa: E402
from sa.model import AnalysisInconclusive, Program  # noqa: E402
from sa.report import INCONCLUSIVE, Report, finish  # noqa: E402

COMMON_ASSUMPTIONS = [
    "Python/numpy semantics of the closed vocabulary the analysis knows (+,-,*, comparisons, len, zip, enumerate, range, "
    "list.append, numpy.array(..).flatten('F'), numpy.repeat, f-string format specs)",
    "no monkey-patching, setattr/__dict__ writes or exec/eval in the package (checked by rule C02.owner)",
    "assert statements are live (no python -O)",
    "users do not write private attributes (_volumes, _history, _composition) from outside the package",
    "only structural necessary conditions are decided; numeric clauses listed in DESIGN.md section 5 are not",
]


class Ctx:
    def __init__(self, prop: str, tier: str, root: str):
        self.prop, self.tier, self.root = prop, tier, root
        self.prog = Program(root)
        self.E = Effects(self.prog)
        self.rep = Report(prop, tier, root)

    def fv(self, f, concrete=None):
        self.rep.touch(f)
        return self.E.fv(f, concrete)

    def guard(self, rule: str, fn, *args, **kw):
        """Run one rule instance; structural surprises become INCONCLUSIVE, never a crash or a violation."""
        try:
            return fn(self, *args, **kw)
        except AnalysisInconclusive as e:
            self.rep.inconclusive(e.rule if e.rule not in ("cfg", "engine", "model") else rule, e.where, e.why)
        except RecursionError:
            self.rep.inconclusive(rule, "recursion", "expression nesting too deep for the resolver")
        return None


def _reuse(self, new_rule: str, fn, *args, **kw):
    """Run a rule function that belongs to another property and file its verdicts under `new_rule`."""
    before = len(self.rep.results)
    out = self.guard(new_rule, fn, *args, **kw)
    for r in self.rep.results[before:]:
        r.rule = f"{new_rule}[{r.rule}]"
    return out


Ctx.reuse = _reuse


def run_property(prop: str, tier: str, root: str) -> int:
    ctx = Ctx(prop, tier, root)
    mod = importlib.import_module(f"sa.rules.{prop.lower()}")
    try:
        mod.run(ctx)
    except AnalysisInconclusive as e:
        # an anchor that the wiring of the rules itself needs is gone: what was decided before stands, the rest is INCONCLUSIVE
        ctx.rep.inconclusive(e.rule, e.where, e.why + " (the remaining rules of this property were not run)")
    # call-resolution statistics over the analysed functions
    for q in sorted(ctx.rep.analysed_functions):
        f = ctx.prog.func(q)
        if f is None:
            continue
        for c in ctx.E.fv(f).calls():
            if c.callee.kind in ("func", "class"):
                ctx.rep.call_stats["resolved"] += 1
            elif c.callee.kind in ("ext", "method"):
                ctx.rep.call_stats["external"] += 1
            else:
                ctx.rep.call_stats["unresolved"] += 1
    if tier == "thorough":
        try:
            from sa.selfcheck import battery

            ctx.rep.selfcheck = battery.run_for(prop, root)
            if ctx.rep.selfcheck.get("failed"):
                for fail in ctx.rep.selfcheck["failed"]:
                    ctx.rep.inconclusive(f"{prop}.selfcheck", fail["id"], fail["why"])
        except ImportError:
            ctx.rep.notes.append("selfcheck battery not available")
    return finish(
        ctx.rep,
        level="other",
        assumptions=COMMON_ASSUMPTIONS + list(getattr(mod, "ASSUMPTIONS", [])),
        explanation=getattr(mod, "EXPLANATION", ""),
    )


def replay(prop: str, path: str, root: str) -> int:
    with open(path) as f:
        art = json.load(f)
    ctx = Ctx(prop, "quick", root)
    mod = importlib.import_module(f"sa.rules.{prop.lower()}")
    mod.run(ctx)
    hits = [r for r in ctx.rep.results if r.key == art.get("key")]
    print(f"replay of {art.get('key')} against {root}:")
    if not hits:
        print("  the construct is not reported any more (rule instance vanished or now holds under another key)")
        return 0
    rc = 0
    for r in hits:
        print(f"  {r.status}: {r.rule} at {r.where or r.construct}\n    {r.detail}")
        for k, v in r.data.items():
            print(f"    {k}: {v}")
        if r.status != "HOLDS":
            rc = 1
    return rc


def main() -> int:
    ap = argparse.ArgumentParser()
    ap.add_argument("prop")
    ap.add_argument("--tier", default=os.environ.get("VERIF_TIER") or "quick", choices=["quick", "thorough"])
    ap.add_argument("--replay")
    ap.add_argument("--root", default=os.environ.get("VERIF_REPO_ROOT") or "/repo")
    a = ap.parse_args()
    prop = a.prop.upper()
    try:
        if a.replay:
            return replay(prop, a.replay, a.root)
        return run_property(prop, a.tier, a.root)
    except AnalysisInconclusive as e:
        print(f"ANALYSIS-INCONCLUSIVE property={prop} rule={e.rule} at={e.where}: {e.why}")
        return 2
    except SyntaxError as e:
        print(f"ANALYSIS-ERROR property={prop} syntax error in analysed tree: {e}")
        return 2
    except Exception:  # tool crash: never a violation
        print(f"ANALYSIS-ERROR property={prop}")
        traceback.print_exc()
        return 2


if __name__ == "__main__":
    sys.exit(main())
