"""Lowering of statement forms the CFG does not model directly (model only - /repo is never touched).

* `match <subject>: case <value> | <value>: ... case _: ...` over literal / dotted-name / singleton patterns is the chain
  `if subject == v1 or subject == v2: ... elif ...: ... else: ...` (singletons compare with `is`). A subject that is not a
  plain name is bound to a temporary first. Other pattern kinds (sequences, mappings, classes, captures, guards) are left
  alone - the CFG then reports the function as not modelled and every rule that needs it answers INCONCLUSIVE.
* `if (x := E) == 0:` - an assignment expression that is the first thing the statement evaluates - is `x = E` followed by
  `if x == 0:`.
"""
from __future__ import annotations

import ast
import copy
from typing import List, Optional

from .model import Program


def _pattern_test(subject: ast.AST, p: ast.pattern) -> Optional[ast.AST]:
    """boolean expression equivalent to the pattern; Constant(True) for the wildcard; None if unsupported"""
    if isinstance(p, ast.MatchValue):
        return ast.Compare(left=copy.deepcopy(subject), ops=[ast.Eq()], comparators=[copy.deepcopy(p.value)])
    if isinstance(p, ast.MatchSingleton):
        return ast.Compare(left=copy.deepcopy(subject), ops=[ast.Is()], comparators=[ast.Constant(value=p.value)])
    if isinstance(p, ast.MatchOr):
        parts = [_pattern_test(subject, q) for q in p.patterns]
        if any(x is None for x in parts):
            return None
        if any(isinstance(x, ast.Constant) and x.value is True for x in parts):
            return ast.Constant(value=True)
        return ast.BoolOp(op=ast.Or(), values=parts)
    if isinstance(p, ast.MatchAs) and p.pattern is None and p.name is None:
        return ast.Constant(value=True)
    return None


def _lower_block(stmts: List[ast.stmt], counter: List[int]) -> bool:
    changed = False
    i = 0
    while i < len(stmts):
        st = stmts[i]
        if isinstance(st, ast.Match):
            tests = []
            ok = True
            pre: List[ast.stmt] = []
            subject = st.subject
            if not isinstance(subject, ast.Name):
                counter[0] += 1
                tmp = f"subject__m{counter[0]}"
                pre.append(ast.copy_location(ast.Assign(targets=[ast.Name(id=tmp, ctx=ast.Store())], value=subject), st))
                subject = ast.Name(id=tmp, ctx=ast.Load())
            for c in st.cases:
                t = _pattern_test(subject, c.pattern)
                if t is None or c.guard is not None and False:
                    ok = False
                    break
                if c.guard is not None:
                    t = c.guard if isinstance(t, ast.Constant) and t.value is True else ast.BoolOp(op=ast.And(), values=[t, c.guard])
                tests.append((t, c.body))
            if ok and tests:
                chain: Optional[ast.If] = None
                tail: List[ast.stmt] = []
                # build from the last case backwards
                for t, body in reversed(tests):
                    if isinstance(t, ast.Constant) and t.value is True:
                        tail = list(body)  # wildcard: everything after it is unreachable
                        chain = None
                        continue
                    node = ast.If(test=t, body=list(body), orelse=([chain] if chain is not None else tail))
                    ast.copy_location(node, st)
                    chain = node
                    tail = []
                new = pre + ([chain] if chain is not None else tail)
                for n in new:
                    ast.fix_missing_locations(n)
                stmts[i:i + 1] = new
                changed = True
                continue
        for fld in ("body", "orelse", "finalbody"):
            sub = getattr(st, fld, None)
            if isinstance(sub, list) and sub and isinstance(sub[0], ast.stmt) and not isinstance(st, (ast.FunctionDef, ast.AsyncFunctionDef, ast.ClassDef)):
                changed |= _lower_block(sub, counter)
        for h in getattr(st, "handlers", []) or []:
            changed |= _lower_block(h.body, counter)
        for c in getattr(st, "cases", []) or []:
            changed |= _lower_block(c.body, counter)
        i += 1
    return changed


def _first_evaluated_walrus(test: ast.AST) -> Optional[ast.NamedExpr]:
    """the assignment expression that is evaluated before anything else in `test` (unconditionally), if there is one"""
    e = test
    while True:
        if isinstance(e, ast.NamedExpr):
            return e if isinstance(e.target, ast.Name) and not any(isinstance(x, ast.NamedExpr) for x in ast.walk(e.value)) else None
        if isinstance(e, ast.Compare):
            e = e.left
        elif isinstance(e, ast.UnaryOp):
            e = e.operand
        elif isinstance(e, ast.BoolOp):
            e = e.values[0]
        elif isinstance(e, ast.BinOp):
            e = e.left
        else:
            return None


def _lower_walrus(stmts: List[ast.stmt]) -> bool:
    """`if (x := E) == 0:`  ->  `x = E` followed by `if x == 0:` (assignment statements and `return`s likewise)"""
    changed = False
    i = 0
    while i < len(stmts):
        st = stmts[i]
        holder = "test" if isinstance(st, ast.If) else "value" if isinstance(st, (ast.Assign, ast.Return, ast.Expr)) and getattr(st, "value", None) is not None else None
        w = _first_evaluated_walrus(getattr(st, holder)) if holder else None
        if w is not None:
            asg = ast.copy_location(ast.Assign(targets=[ast.Name(id=w.target.id, ctx=ast.Store())], value=w.value), st)

            class R(ast.NodeTransformer):
                def visit_NamedExpr(self, n):
                    if n is w:
                        return ast.copy_location(ast.Name(id=w.target.id, ctx=ast.Load()), n)
                    return self.generic_visit(n)

            setattr(st, holder, R().visit(getattr(st, holder)))
            ast.fix_missing_locations(asg)
            ast.fix_missing_locations(st)
            stmts[i:i + 1] = [asg, st]
            changed = True
            continue
        for fld in ("body", "orelse", "finalbody"):
            sub = getattr(st, fld, None)
            if isinstance(sub, list) and sub and isinstance(sub[0], ast.stmt) and not isinstance(st, (ast.FunctionDef, ast.AsyncFunctionDef, ast.ClassDef)):
                changed |= _lower_walrus(sub)
        for h in getattr(st, "handlers", []) or []:
            changed |= _lower_walrus(h.body)
        i += 1
    return changed


def lower_program(prog: Program) -> None:
    counter = [0]
    log = []
    for f in list(prog.all_functions(include_inlined=True)):
        if any(isinstance(n, ast.NamedExpr) for n in ast.walk(f.node)):
            if _lower_walrus(f.node.body):
                log.append(f"{f.qualname}: assignment expression at the head of a statement written as an assignment statement")
    for f in list(prog.all_functions(include_inlined=True)):
        if any(isinstance(n, ast.Match) for n in ast.walk(f.node)):
            if _lower_block(f.node.body, counter):
                log.append(f"{f.qualname}: match statement lowered to an if/elif chain")
    prog.inline_log = list(getattr(prog, "inline_log", [])) + log
