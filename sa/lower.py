"""Lowering of statement forms the CFG does not model directly (model only - /repo is never touched).

* `match <subject>: case <value> | <value>: ... case _: ...` over literal / dotted-name / singleton patterns is the chain
  `if subject == v1 or subject == v2: ... elif ...: ... else: ...` (singletons compare with `is`). A subject that is not a
  plain name is bound to a temporary first. Other pattern kinds (sequences, mappings, classes, captures, guards) are left
  alone - the CFG then reports the function as not modelled and every rule that needs it answers INCONCLUSIVE.
* `if (x := E) == 0:` - an assignment expression that is the first thing the statement evaluates - is `x = E` followed by
  `if x == 0:`.
"""
from __future__ import annotations

import ast
import copy
from typing import List, Optional

from .model import Program


def _pattern_test(subject: ast.AST, p: ast.pattern) -> Optional[ast.AST]:
    """boolean expression equivalent to the pattern; Constant(True) for the wildcard; None if unsupported"""
    if isinstance(p, ast.MatchValue):
        return ast.Compare(left=copy.deepcopy(subject), ops=[ast.Eq()], comparators=[copy.deepcopy(p.value)])
    if isinstance(p, ast.MatchSingleton):
        return ast.Compare(left=copy.deepcopy(subject), ops=[ast.Is()], comparators=[ast.Constant(value=p.value)])
    if isinstance(p, ast.MatchOr):
        parts = [_pattern_test(subject, q) for q in p.patterns]
        if any(x is None for x in parts):
            return None
        if any(isinstance(x, ast.Constant) and x.value is True for x in parts):
            return ast.Constant(value=True)
        return ast.BoolOp(op=ast.Or(), values=parts)
    if isinstance(p, ast.MatchAs) and p.pattern is None and p.name is None:
        return ast.Constant(value=True)
    return None


def _lower_block(stmts: List[ast.stmt], counter: List[int]) -> bool:
    changed = False
    i = 0
    while i < len(stmts):
        st = stmts[i]
        if isinstance(st, ast.Match):
            tests = []
            ok = True
            pre: List[ast.stmt] = []
            subject = st.subject
            if not isinstance(subject, ast.Name):
                counter[0] += 1
                tmp = f"subject__m{counter[0]}"
                pre.append(ast.copy_location(ast.Assign(targets=[ast.Name(id=tmp, ctx=ast.Store())], value=subject), st))
                subject = ast.Name(id=tmp, ctx=ast.Load())
            for c in st.cases:
                t = _pattern_test(subject, c.pattern)
                if t is None or c.guard is not None and False:
                    ok = False
                    break
                if c.guard is not None:
                    t = c.guard if isinstance(t, ast.Constant) and t.value is True else ast.BoolOp(op=ast.And(), values=[t, c.guard])
                tests.append((t, c.body))
            if ok and tests:
                chain: Optional[ast.If] = None
                tail: List[ast.stmt] = []
                # build from the last case backwards
                for t, body in reversed(tests):
                    if isinstance(t, ast.Constant) and t.value is True:
                        tail = list(body)  # wildcard: everything after it is unreachable
                        chain = None
                        continue
                    node = ast.If(test=t, body=list(body), orelse=([chain] if chain is not None else tail))
                    ast.copy_location(node, st)
                    chain = node
                    tail = []
                new = pre + ([chain] if chain is not None else tail)
                for n in new:
                    ast.fix_missing_locations(n)
                stmts[i:i + 1] = new
                changed = True
                continue
        for fld in ("body", "orelse", "finalbody"):
            sub = getattr(st, fld, None)
            if isinstance(sub, list) and sub and isinstance(sub[0], ast.stmt) and not isinstance(st, (ast.FunctionDef, ast.AsyncFunctionDef, ast.ClassDef)):
                changed |= _lower_block(sub, counter)
        for h in getattr(st, "handlers", []) or []:
            changed |= _lower_block(h.body, counter)
        for c in getattr(st, "cases", []) or []:
            changed |= _lower_block(c.body, counter)
        i += 1
    return changed


def _first_evaluated_walrus(test: ast.AST) -> Optional[ast.NamedExpr]:
    """the assignment expression that is evaluated before anything else in `test` (unconditionally), if there is one"""
    e = test
    while True:
        if isinstance(e, ast.NamedExpr):
            return e if isinstance(e.target, ast.Name) and not any(isinstance(x, ast.NamedExpr) for x in ast.walk(e.value)) else None
        if isinstance(e, ast.Compare):
            e = e.left
        elif isinstance(e, ast.UnaryOp):
            e = e.operand
        elif isinstance(e, ast.BoolOp):
            e = e.values[0]
        elif isinstance(e, ast.BinOp):
            e = e.left
        else:
            return None


def _lower_walrus(stmts: List[ast.stmt]) -> bool:
    """`if (x := E) == 0:`  ->  `x = E` followed by `if x == 0:` (assignment statements and `return`s likewise)"""
    changed = False
    i = 0
    while i < len(stmts):
        st = stmts[i]
        holder = "test" if isinstance(st, ast.If) else "value" if isinstance(st, (ast.Assign, ast.Return, ast.Expr)) and getattr(st, "value", None) is not None else None
        w = _first_evaluated_walrus(getattr(st, holder)) if holder else None
        if w is not None:
            asg = ast.copy_location(ast.Assign(targets=[ast.Name(id=w.target.id, ctx=ast.Store())], value=w.value), st)

            class R(ast.NodeTransformer):
                def visit_NamedExpr(self, n):
                    if n is w:
                        return ast.copy_location(ast.Name(id=w.target.id, ctx=ast.Load()), n)
                    return self.generic_visit(n)

            setattr(st, holder, R().visit(getattr(st, holder)))
            ast.fix_missing_locations(asg)
            ast.fix_missing_locations(st)
            stmts[i:i + 1] = [asg, st]
            changed = True
            continue
        for fld in ("body", "orelse", "finalbody"):
            sub = getattr(st, fld, None)
            if isinstance(sub, list) and sub and isinstance(sub[0], ast.stmt) and not isinstance(st, (ast.FunctionDef, ast.AsyncFunctionDef, ast.ClassDef)):
                changed |= _lower_walrus(sub)
        for h in getattr(st, "handlers", []) or []:
            changed |= _lower_walrus(h.body)
        i += 1
    return changed


_FLIP = {ast.Lt: ast.Gt, ast.Gt: ast.Lt, ast.LtE: ast.GtE, ast.GtE: ast.LtE, ast.Eq: ast.Eq, ast.NotEq: ast.NotEq}


_STRING_CONSTS = {"ascii_uppercase": "ABCDEFGHIJKLMNOPQRSTUVWXYZ", "ascii_lowercase": "abcdefghijklmnopqrstuvwxyz", "digits": "0123456789", "hexdigits": "0123456789abcdefABCDEF",
                  "ascii_letters": "abcdefghijklmnopqrstuvwxyzABCDEFGHIJKLMNOPQRSTUVWXYZ", "octdigits": "01234567"}


class _ExprCanon(ast.NodeTransformer):
    """Spellings of one expression that differ only in form:
    * `isinstance(x, A) or isinstance(x, B)` is `isinstance(x, (A, B))`, `not isinstance(x, A) and not isinstance(x, B)` is
      `not isinstance(x, (A, B))` (x a name / attribute / subscript of names: evaluating it once or twice is the same);
    * `c < x` with a literal on the left is `x > c` (likewise `<=`, `==`, `!=`);
    * `range(0, n)` is `range(n)`."""

    def __init__(self, imports=None):
        self.changed = False
        self.fresh = 0
        self.imports = dict(imports or {})
        self.bound = set()

    def visit_Attribute(self, n):
        self.generic_visit(n)
        # constants of the standard library's string module are their text
        if isinstance(n.ctx, ast.Load) and isinstance(n.value, ast.Name) and self.imports.get(n.value.id) == "string" and n.attr in _STRING_CONSTS:
            self.changed = True
            return ast.copy_location(ast.Constant(value=_STRING_CONSTS[n.attr]), n)
        return n

    def visit_Name(self, n):
        if isinstance(n.ctx, ast.Load) and self.imports.get(n.id, "").startswith("string.") and self.imports[n.id].split(".", 1)[1] in _STRING_CONSTS and n.id not in self.bound:
            self.changed = True
            return ast.copy_location(ast.Constant(value=_STRING_CONSTS[self.imports[n.id].split(".", 1)[1]]), n)
        return n

    def visit_Lambda(self, n):
        return n

    @staticmethod
    def _pure(e) -> bool:
        return all(isinstance(x, (ast.Name, ast.Attribute, ast.Subscript, ast.Constant, ast.Load, ast.Tuple)) for x in ast.walk(e))

    @staticmethod
    def _isinst(e):
        """(subject, [types], negated) for `isinstance(x, T)` / `not isinstance(x, T)`"""
        neg = False
        if isinstance(e, ast.UnaryOp) and isinstance(e.op, ast.Not):
            e, neg = e.operand, True
        if isinstance(e, ast.Call) and isinstance(e.func, ast.Name) and e.func.id == "isinstance" and len(e.args) == 2 and not e.keywords:
            types = list(e.args[1].elts) if isinstance(e.args[1], ast.Tuple) else [e.args[1]]
            if not any(isinstance(t, ast.Starred) for t in types):
                return e.args[0], types, neg
        return None

    def visit_BoolOp(self, n):
        self.generic_visit(n)
        want_neg = isinstance(n.op, ast.And)  # `or` merges positive tests, `and` merges negated ones
        out = []
        for v in n.values:
            cur = self._isinst(v)
            prev = self._isinst(out[-1]) if out else None
            if cur is not None and prev is not None and cur[2] == want_neg and prev[2] == want_neg and self._pure(cur[0]) and ast.dump(cur[0]) == ast.dump(prev[0]):
                call = ast.Call(func=ast.Name(id="isinstance", ctx=ast.Load()), args=[prev[0], ast.Tuple(elts=prev[1] + cur[1], ctx=ast.Load())], keywords=[])
                merged = ast.UnaryOp(op=ast.Not(), operand=call) if want_neg else call
                out[-1] = ast.fix_missing_locations(ast.copy_location(merged, v))
                self.changed = True
            else:
                out.append(v)
        if len(out) == 1:
            return out[0]
        n.values = out
        return n

    def visit_Compare(self, n):
        self.generic_visit(n)
        if len(n.ops) == 1 and type(n.ops[0]) in _FLIP and isinstance(n.left, ast.Constant) and not isinstance(n.comparators[0], ast.Constant) and not isinstance(n.left.value, (str, bytes)):
            self.changed = True
            return ast.copy_location(ast.Compare(left=n.comparators[0], ops=[_FLIP[type(n.ops[0])]()], comparators=[n.left]), n)
        if len(n.ops) == 1 and type(n.ops[0]) in (ast.Lt, ast.Gt, ast.LtE, ast.GtE) and isinstance(n.left, ast.Name) and isinstance(n.comparators[0], ast.Call) \
                and isinstance(n.comparators[0].func, ast.Name) and n.comparators[0].func.id == "len":
            # `C > len(xs)` is `len(xs) < C` (a bare name on the left has no effect to be ordered with)
            self.changed = True
            return ast.copy_location(ast.Compare(left=n.comparators[0], ops=[_FLIP[type(n.ops[0])]()], comparators=[n.left]), n)
        return n

    def _comp(self, n):
        self.generic_visit(n)
        # [.. X[i] .. for i in range(len(X))]  is  [.. x .. for i, x in enumerate(X)]   (X a name / attribute chain, not rebound inside)
        for gi, g in enumerate(n.generators):
            it = g.iter
            if not (isinstance(g.target, ast.Name) and isinstance(it, ast.Call) and isinstance(it.func, ast.Name) and it.func.id == "range" and len(it.args) == 1 and not it.keywords):
                continue
            a = it.args[0]
            if not (isinstance(a, ast.Call) and isinstance(a.func, ast.Name) and a.func.id == "len" and len(a.args) == 1 and not a.keywords and self._pure(a.args[0])
                    and not isinstance(a.args[0], ast.Subscript)):
                continue
            X, i = a.args[0], g.target.id
            scope = list(g.ifs) + [x for g2 in n.generators[gi + 1:] for x in [g2.iter] + list(g2.ifs)] + ([n.key, n.value] if isinstance(n, ast.DictComp) else [n.elt])
            hits = [x for e in scope for x in ast.walk(e) if isinstance(x, ast.Subscript) and isinstance(x.ctx, ast.Load) and isinstance(x.slice, ast.Name) and x.slice.id == i
                    and ast.dump(x.value) == ast.dump(X)]
            if not hits:
                continue
            self.fresh += 1
            en = f"_en{self.fresh}"
            ids = {id(h) for h in hits}

            class R(ast.NodeTransformer):
                def visit_Subscript(self, x):
                    if id(x) in ids:
                        return ast.copy_location(ast.Name(id=en, ctx=ast.Load()), x)
                    return self.generic_visit(x)

            g.ifs = [R().visit(x) for x in g.ifs]
            for g2 in n.generators[gi + 1:]:
                g2.iter = R().visit(g2.iter)
                g2.ifs = [R().visit(x) for x in g2.ifs]
            if isinstance(n, ast.DictComp):
                n.key, n.value = R().visit(n.key), R().visit(n.value)
            else:
                n.elt = R().visit(n.elt)
            g.target = ast.copy_location(ast.Tuple(elts=[ast.Name(id=i, ctx=ast.Store()), ast.Name(id=en, ctx=ast.Store())], ctx=ast.Store()), g.target)
            g.iter = ast.copy_location(ast.Call(func=ast.Name(id="enumerate", ctx=ast.Load()), args=[X], keywords=[]), it)
            self.changed = True
        return n

    visit_ListComp = visit_SetComp = visit_DictComp = visit_GeneratorExp = _comp

    def visit_UnaryOp(self, n):
        self.generic_visit(n)
        # not (a is not None and b is not None)  is  a is None or b is None: the negation is pushed into a conjunction / disjunction
        # whose operands are all exactly negatable (is / == / in and their negations, or `not x`)
        NEG = {ast.Is: ast.IsNot, ast.IsNot: ast.Is, ast.Eq: ast.NotEq, ast.NotEq: ast.Eq, ast.In: ast.NotIn, ast.NotIn: ast.In}
        if isinstance(n.op, ast.Not) and isinstance(n.operand, ast.BoolOp) and len(n.operand.values) >= 2:
            def negatable(e):
                return (isinstance(e, ast.Compare) and len(e.ops) == 1 and type(e.ops[0]) in NEG) or (isinstance(e, ast.UnaryOp) and isinstance(e.op, ast.Not))

            if all(negatable(e) for e in n.operand.values):
                vals = []
                for e in n.operand.values:
                    if isinstance(e, ast.Compare):
                        vals.append(ast.copy_location(ast.Compare(left=e.left, ops=[NEG[type(e.ops[0])]()], comparators=e.comparators), e))
                    else:
                        vals.append(e.operand)
                self.changed = True
                op = ast.Or() if isinstance(n.operand.op, ast.And) else ast.And()
                return ast.copy_location(ast.BoolOp(op=op, values=vals), n)
        return n

    def visit_IfExp(self, n):
        self.generic_visit(n)
        if isinstance(n.test, ast.UnaryOp) and isinstance(n.test.op, ast.Not):
            # `a if not c else b` is `b if c else a`
            self.changed = True
            return ast.copy_location(ast.IfExp(test=n.test.operand, body=n.orelse, orelse=n.body), n)
        return n

    def visit_Subscript(self, n):
        self.generic_visit(n)

        def len_minus(e, base):
            """k when e is `len(<base>) - k` (k a positive int literal)"""
            if isinstance(e, ast.BinOp) and isinstance(e.op, ast.Sub) and isinstance(e.right, ast.Constant) and isinstance(e.right.value, int) and not isinstance(e.right.value, bool) and e.right.value >= 1 \
                    and isinstance(e.left, ast.Call) and isinstance(e.left.func, ast.Name) and e.left.func.id == "len" and len(e.left.args) == 1 and not e.left.keywords \
                    and self._pure(base) and ast.dump(e.left.args[0]) == ast.dump(base):
                return e.right.value
            return None

        sl = n.slice
        if isinstance(sl, ast.Slice):
            # xs[0:k] is xs[:k];  xs[: len(xs) - k] is xs[:-k]
            if isinstance(sl.lower, ast.Constant) and sl.lower.value == 0 and not isinstance(sl.lower.value, bool) and sl.step is None:
                sl.lower = None
                self.changed = True
            k = len_minus(sl.upper, n.value) if sl.upper is not None else None
            if k is not None and sl.step is None:
                sl.upper = ast.copy_location(ast.UnaryOp(op=ast.USub(), operand=ast.Constant(value=k)), sl.upper)
                self.changed = True
        elif isinstance(n.ctx, ast.Load):
            # xs[len(xs) - 1] is xs[-1] (both raise IndexError for an empty xs)
            k = len_minus(sl, n.value)
            if k == 1:
                n.slice = ast.copy_location(ast.UnaryOp(op=ast.USub(), operand=ast.Constant(value=1)), sl)
                self.changed = True
        return n

    def visit_Call(self, n):
        self.generic_visit(n)
        if isinstance(n.func, ast.Name) and n.func.id == "range" and len(n.args) == 2 and not n.keywords and isinstance(n.args[0], ast.Constant) and n.args[0].value == 0 \
                and not isinstance(n.args[0].value, bool):
            self.changed = True
            n.args = [n.args[1]]
        if isinstance(n.func, ast.Name) and n.func.id == "format" and "format" not in self.bound and 1 <= len(n.args) <= 2 and not n.keywords \
                and (len(n.args) == 1 or (isinstance(n.args[1], ast.Constant) and isinstance(n.args[1].value, str))) and not isinstance(n.args[0], ast.Starred):
            # format(v, ".2f") is f"{v:.2f}"
            self.changed = True
            spec = n.args[1].value if len(n.args) == 2 else ""
            fv_ = ast.FormattedValue(value=n.args[0], conversion=-1, format_spec=ast.JoinedStr(values=[ast.Constant(value=spec)]) if spec else None)
            return ast.copy_location(ast.JoinedStr(values=[fv_]), n)
        if isinstance(n.func, ast.Attribute) and n.func.attr == "reshape" and isinstance(n.func.value, ast.Name) and self.imports.get(n.func.value.id) == "numpy" and len(n.args) == 2 \
                and not any(isinstance(a, ast.Starred) for a in n.args) and all(k.arg == "order" for k in n.keywords):
            # numpy.reshape(a, shape) is a.reshape(shape)
            self.changed = True
            return ast.copy_location(ast.Call(func=ast.Attribute(value=n.args[0], attr="reshape", ctx=ast.Load()), args=[n.args[1]], keywords=n.keywords), n)
        if isinstance(n.func, ast.Attribute) and n.func.attr == "around" and isinstance(n.func.value, ast.Name) and self.imports.get(n.func.value.id) == "numpy":
            # numpy.around is numpy.round
            self.changed = True
            n.func.attr = "round"
        if isinstance(n.func, ast.Name) and n.func.id == "dict" and len(n.args) == 1 and not n.keywords:
            a = n.args[0]
            if isinstance(a, (ast.ListComp, ast.GeneratorExp)) and isinstance(a.elt, ast.Tuple) and len(a.elt.elts) == 2 and not any(isinstance(e, ast.Starred) for e in a.elt.elts):
                # dict([(k, v) for ..]) is {k: v for ..}
                self.changed = True
                return ast.copy_location(ast.DictComp(key=a.elt.elts[0], value=a.elt.elts[1], generators=a.generators), n)
            if isinstance(a, ast.Call) and isinstance(a.func, ast.Name) and a.func.id == "zip" and len(a.args) == 2 and not a.keywords and not any(isinstance(e, ast.Starred) for e in a.args):
                # dict(zip(ks, vs)) is {k: v for k, v in zip(ks, vs)}
                self.changed = True
                self.fresh += 1
                k_, v_ = f"_zk{self.fresh}", f"_zv{self.fresh}"
                gen = ast.comprehension(target=ast.Tuple(elts=[ast.Name(id=k_, ctx=ast.Store()), ast.Name(id=v_, ctx=ast.Store())], ctx=ast.Store()), iter=a, ifs=[], is_async=0)
                return ast.copy_location(ast.DictComp(key=ast.Name(id=k_, ctx=ast.Load()), value=ast.Name(id=v_, ctx=ast.Load()), generators=[gen]), n)
        if isinstance(n.func, ast.Attribute) and n.func.attr == "group" and isinstance(n.func.value, ast.Name) and len(n.args) >= 2 and not n.keywords \
                and all(isinstance(a, ast.Constant) and isinstance(a.value, int) and not isinstance(a.value, bool) for a in n.args):
            # m.group(1, 2) of a regular-expression match is (m.group(1), m.group(2))
            self.changed = True
            return ast.copy_location(ast.Tuple(elts=[ast.copy_location(ast.Call(func=ast.Attribute(value=ast.Name(id=n.func.value.id, ctx=ast.Load()), attr="group", ctx=ast.Load()), args=[a], keywords=[]), n)
                                                     for a in n.args], ctx=ast.Load()), n)
        return n


def _lower_selfassign(fn: ast.AST) -> bool:
    """`x = x + e` (or `x = e + x`, `x = x | e`, ...) on a numeric accumulator is `x += e`: x is a local whose other bindings are
    number literals, augmented assignments or assignments of this form (for numbers `+`, `*`, `|`, `&` commute and rebinding
    equals the in-place operator)."""
    stores = {}
    parents = {}
    for p_ in ast.walk(fn):
        for ch in ast.iter_child_nodes(p_):
            parents[id(ch)] = p_
    params = {a.arg for a in fn.args.posonlyargs + fn.args.args + fn.args.kwonlyargs} | ({fn.args.vararg.arg} if fn.args.vararg else set()) | ({fn.args.kwarg.arg} if fn.args.kwarg else set())
    for n in ast.walk(fn):
        if isinstance(n, ast.Name) and isinstance(n.ctx, ast.Store):
            stores.setdefault(n.id, []).append(parents.get(id(n)))

    def selfref(st, name):
        if isinstance(st, ast.Assign) and len(st.targets) == 1 and isinstance(st.targets[0], ast.Name) and st.targets[0].id == name and isinstance(st.value, ast.BinOp):
            v = st.value
            if isinstance(v.left, ast.Name) and v.left.id == name and not any(isinstance(x, ast.Name) and x.id == name for x in ast.walk(v.right)):
                return v.op, v.right
            if isinstance(v.op, (ast.Add, ast.Mult, ast.BitOr, ast.BitAnd)) and isinstance(v.right, ast.Name) and v.right.id == name \
                    and not any(isinstance(x, ast.Name) and x.id == name for x in ast.walk(v.left)):
                return v.op, v.left
        return None

    numeric = set()
    for name, sts in stores.items():
        if name in params:
            continue
        ok = any(isinstance(st, ast.Assign) and isinstance(st.value, ast.Constant) and isinstance(st.value.value, (int, float)) and not isinstance(st.value.value, bool) for st in sts)
        for st in sts:
            if isinstance(st, ast.Assign) and isinstance(st.value, ast.Constant) and isinstance(st.value.value, (int, float)) and not isinstance(st.value.value, bool):
                continue
            if isinstance(st, ast.AugAssign) and isinstance(st.target, ast.Name):
                continue
            if selfref(st, name) is not None:
                continue
            ok = False
        if ok:
            numeric.add(name)
    changed = False

    def walk(stmts):
        nonlocal changed
        for i, st in enumerate(stmts):
            if isinstance(st, ast.Assign) and len(st.targets) == 1 and isinstance(st.targets[0], ast.Name) and st.targets[0].id in numeric:
                sr = selfref(st, st.targets[0].id)
                if sr is not None:
                    new = ast.AugAssign(target=ast.Name(id=st.targets[0].id, ctx=ast.Store()), op=sr[0], value=sr[1])
                    stmts[i] = ast.fix_missing_locations(ast.copy_location(new, st))
                    changed = True
                    continue
            for fld in ("body", "orelse", "finalbody"):
                sub = getattr(st, fld, None)
                if isinstance(sub, list) and sub and isinstance(sub[0], ast.stmt) and not isinstance(st, (ast.FunctionDef, ast.AsyncFunctionDef, ast.ClassDef)):
                    walk(sub)
            for h in getattr(st, "handlers", []) or []:
                walk(h.body)

    walk(fn.body)
    return changed


def _blocks(fn: ast.AST):
    """every statement list of a function body (not of nested functions / classes)"""
    out = []

    def rec(stmts):
        out.append(stmts)
        for st in stmts:
            if isinstance(st, (ast.FunctionDef, ast.AsyncFunctionDef, ast.ClassDef)):
                continue
            for fld in ("body", "orelse", "finalbody"):
                sub = getattr(st, fld, None)
                if isinstance(sub, list) and sub and isinstance(sub[0], ast.stmt):
                    rec(sub)
            for h in getattr(st, "handlers", []) or []:
                rec(h.body)
            for c in getattr(st, "cases", []) or []:
                rec(c.body)

    rec(fn.body)
    return out


def _index_reads(stmts, start: int, t: str, n_loads: int) -> List[str]:
    """names a, b, .. when stmts[start:] begins with `a = t[0]; b = t[1]; ..` (at least two) and these are all n_loads reads of t"""
    names: List[str] = []
    for k, b in enumerate(stmts[start:]):
        if isinstance(b, ast.Assign) and len(b.targets) == 1 and isinstance(b.targets[0], ast.Name) and b.targets[0].id != t and b.targets[0].id not in names \
                and isinstance(b.value, ast.Subscript) and isinstance(b.value.value, ast.Name) and b.value.value.id == t and isinstance(b.value.slice, ast.Constant) \
                and b.value.slice.value == k and not isinstance(b.value.slice.value, bool):
            names.append(b.targets[0].id)
        else:
            break
    return names if len(names) >= 2 and len(names) == n_loads else []


def _counter_init(st):
    if isinstance(st, ast.Assign) and len(st.targets) == 1 and isinstance(st.targets[0], ast.Name) and isinstance(st.value, ast.Constant) and isinstance(st.value.value, int) \
            and not isinstance(st.value.value, bool):
        return st.targets[0].id, st.value.value
    return None


def _is_incr(b, k: str) -> bool:
    return isinstance(b, ast.AugAssign) and isinstance(b.op, ast.Add) and isinstance(b.target, ast.Name) and b.target.id == k and isinstance(b.value, ast.Constant) and b.value.value == 1 \
        and not isinstance(b.value.value, bool)


def _loop_level(body, kinds) -> bool:
    """a statement of one of the kinds that belongs to this loop (not to a loop nested in it)"""
    for b in body:
        if isinstance(b, kinds):
            return True
        if isinstance(b, (ast.For, ast.While, ast.FunctionDef, ast.AsyncFunctionDef, ast.ClassDef)):
            # break / continue inside belong to the inner loop; its else clause belongs to this one
            if isinstance(b, (ast.For, ast.While)) and _loop_level(b.orelse, kinds):
                return True
            continue
        for fld in ("body", "orelse", "finalbody"):
            sub = getattr(b, fld, None)
            if isinstance(sub, list) and sub and isinstance(sub[0], ast.stmt) and _loop_level(sub, kinds):
                return True
        for h in getattr(b, "handlers", []) or []:
            if _loop_level(h.body, kinds):
                return True
    return False


def _counter_loop(init, loop, params, stores, loads):
    k, c0 = _counter_init(init)
    if k in params or len(stores.get(k, [])) != 2 or not loop.body:
        return None
    inside = {id(n) for n in ast.walk(loop)}
    if any(id(n) not in inside for n in loads.get(k, [])):
        return None  # the counter is read after the loop
    if isinstance(loop, ast.For):
        if any(isinstance(n, ast.Name) and n.id == k for n in ast.walk(loop.iter)) or any(isinstance(n, ast.Name) and n.id == k for n in ast.walk(loop.target)):
            return None
        if _is_incr(loop.body[0], k) and len(loop.body) > 1:
            start, body = c0 + 1, loop.body[1:]
        elif _is_incr(loop.body[-1], k) and len(loop.body) > 1 and not _loop_level(loop.body, (ast.Continue,)):
            start, body = c0, loop.body[:-1]
        else:
            return None
        call = ast.Call(func=ast.Name(id="enumerate", ctx=ast.Load()), args=[loop.iter] + ([ast.Constant(value=start)] if start != 0 else []), keywords=[])
        new = ast.For(target=ast.Tuple(elts=[ast.Name(id=k, ctx=ast.Store()), loop.target], ctx=ast.Store()), iter=call, body=body, orelse=[], type_comment=None)
        return ast.fix_missing_locations(ast.copy_location(new, loop))
    t = loop.test
    if c0 != 0 or not (isinstance(t, ast.Compare) and len(t.ops) == 1 and isinstance(t.ops[0], ast.Lt) and isinstance(t.left, ast.Name) and t.left.id == k):
        return None
    bound = t.comparators[0]
    # the bound is built from names / attributes / len() only and nothing it names is rebound or (visibly) mutated in the body
    if not all(isinstance(n, (ast.Name, ast.Attribute, ast.Load, ast.Call)) for n in ast.walk(bound)):
        return None
    if any(isinstance(n, ast.Call) and not (isinstance(n.func, ast.Name) and n.func.id == "len" and len(n.args) == 1 and not n.keywords) for n in ast.walk(bound)):
        return None
    bnames = {n.id for n in ast.walk(bound) if isinstance(n, ast.Name)} - {"len"}
    if k in bnames:
        return None
    for b in loop.body:
        for n in ast.walk(b):
            if isinstance(n, ast.Name) and isinstance(n.ctx, (ast.Store, ast.Del)) and n.id in bnames:
                return None
            if isinstance(n, ast.Call) and isinstance(n.func, ast.Attribute) and isinstance(n.func.value, ast.Name) and n.func.value.id in bnames \
                    and n.func.attr in ("append", "extend", "pop", "remove", "insert", "clear"):
                return None
            if isinstance(n, (ast.Subscript, ast.Attribute)) and isinstance(n.ctx, (ast.Store, ast.Del)) and isinstance(n.value, ast.Name) and n.value.id in bnames and isinstance(n, ast.Subscript) \
                    and isinstance(n.slice, ast.Slice):
                return None
    if not (_is_incr(loop.body[-1], k) and len(loop.body) > 1) or _loop_level(loop.body, (ast.Continue,)):
        return None
    call = ast.Call(func=ast.Name(id="range", ctx=ast.Load()), args=[bound], keywords=[])
    new = ast.For(target=ast.Name(id=k, ctx=ast.Store()), iter=call, body=loop.body[:-1], orelse=[], type_comment=None)
    return ast.fix_missing_locations(ast.copy_location(new, loop))


def _lower_enumerate_index(fn: ast.AST) -> bool:
    """`for i, (a, b) in enumerate(zip(A, B)): v = Z[i]; ..` with i used for nothing else and `assert len(Z) == len(A)` (or the
    mirrored form) standing before the loop in the function body, neither sequence rebound in between or in the loop
    ->  `for a, b, v in zip(A, B, Z): ..`  (the counter indexes a sequence of the same length: the i-th element of Z)"""
    loads, stores = {}, {}
    for n in ast.walk(fn):
        if isinstance(n, ast.Name):
            (loads if isinstance(n.ctx, ast.Load) else stores).setdefault(n.id, []).append(n)
    changed = False
    top = fn.body

    def len_pair(st):
        if isinstance(st, ast.Assert) and isinstance(st.test, ast.Compare) and len(st.test.ops) == 1 and isinstance(st.test.ops[0], ast.Eq):
            sides = [st.test.left, st.test.comparators[0]]
            if all(isinstance(x, ast.Call) and isinstance(x.func, ast.Name) and x.func.id == "len" and len(x.args) == 1 and isinstance(x.args[0], ast.Name) and not x.keywords for x in sides):
                return {sides[0].args[0].id, sides[1].args[0].id}
        return None

    for li, lp in enumerate(top):
        if not (isinstance(lp, ast.For) and not lp.orelse and isinstance(lp.iter, ast.Call) and isinstance(lp.iter.func, ast.Name) and lp.iter.func.id == "enumerate" and len(lp.iter.args) == 1
                and not lp.iter.keywords and isinstance(lp.target, ast.Tuple) and len(lp.target.elts) == 2 and isinstance(lp.target.elts[0], ast.Name)):
            continue
        i = lp.target.elts[0].id
        inner_t, X = lp.target.elts[1], lp.iter.args[0]
        if isinstance(X, ast.Call) and isinstance(X.func, ast.Name) and X.func.id == "zip" and X.args and not X.keywords and all(isinstance(a, ast.Name) for a in X.args) \
                and isinstance(inner_t, ast.Tuple) and len(inner_t.elts) == len(X.args):
            seqs, telts = [a.id for a in X.args], list(inner_t.elts)
        elif isinstance(X, ast.Name):
            seqs, telts = [X.id], [inner_t]
        else:
            continue
        extra = []
        for b in lp.body:
            if isinstance(b, ast.Assign) and len(b.targets) == 1 and isinstance(b.targets[0], ast.Name) and isinstance(b.value, ast.Subscript) and isinstance(b.value.value, ast.Name) \
                    and isinstance(b.value.slice, ast.Name) and b.value.slice.id == i and b.value.value.id not in seqs and b.value.value.id not in [z for _v, z in extra]:
                extra.append((b.targets[0].id, b.value.value.id))
            else:
                break
        if not extra or len(extra) >= len(lp.body) or len(loads.get(i, [])) != len(extra) or len(stores.get(i, [])) != 1:
            continue
        ok = True
        for _v, z in extra:
            guard = [k for k in range(li) if (lp_ := len_pair(top[k])) is not None and z in lp_ and (lp_ - {z}) and next(iter(lp_ - {z})) in seqs]
            if not guard:
                ok = False
                break
            a0 = next(iter(len_pair(top[guard[-1]]) - {z}))
            between = top[guard[-1] + 1:li] + [lp]
            if any(isinstance(x, ast.Name) and isinstance(x.ctx, (ast.Store, ast.Del)) and x.id in (z, a0) for st in between for x in ast.walk(st)):
                ok = False
                break
        if not ok:
            continue
        lp.target = ast.copy_location(ast.Tuple(elts=telts + [ast.Name(id=v, ctx=ast.Store()) for v, _z in extra], ctx=ast.Store()), lp.target)
        lp.iter = ast.copy_location(ast.Call(func=ast.Name(id="zip", ctx=ast.Load()), args=[ast.Name(id=q, ctx=ast.Load()) for q in seqs] + [ast.Name(id=z, ctx=ast.Load()) for _v, z in extra],
                                             keywords=[]), lp.iter)
        del lp.body[:len(extra)]
        ast.fix_missing_locations(lp)
        changed = True
    return changed


def _const_index_reads(fn, stmts, i: int, name: str, loads) -> int:
    """n >= 2 when every read of `name` is `name[k]` with an int literal k, the ks are exactly 0..n-1 and all reads stand in
    the statements after stmts[i] of the same block; else 0"""
    uses = loads.get(name, [])
    if not uses:
        return 0
    after = {id(x) for b in stmts[i + 1:] for x in ast.walk(b)}
    ks = set()
    subs = {id(x.value): x for b in stmts[i + 1:] for x in ast.walk(b) if isinstance(x, ast.Subscript)}
    for u in uses:
        par = subs.get(id(u))
        if id(u) not in after or par is None or not isinstance(par.ctx, ast.Load) or not (isinstance(par.slice, ast.Constant) and isinstance(par.slice.value, int)
                                                                                           and not isinstance(par.slice.value, bool) and par.slice.value >= 0):
            return 0
        ks.add(par.slice.value)
    n = len(ks)
    return n if n >= 2 and ks == set(range(n)) else 0


def _lower_statements(fn: ast.AST) -> List[str]:
    """Statement forms with one meaning written one way:
    `del xs[k]` (k an int literal, xs a name) is `xs.pop(k)`;
    `if not c: A else: B` / `if x not in s: A else: B` (a plain else, no elif chain) is `if c: B else: A`;
    `t = <call>; a, b, c = t` with t used nowhere else is `a, b, c = <call>`;
    `L = []; .. L.append(e) ..; x = "".join(L)` with L used for nothing else is `L = ""; .. L += e ..; x = L`."""
    notes = []
    loads, stores = {}, {}
    for n in ast.walk(fn):
        if isinstance(n, ast.Name):
            (loads if isinstance(n.ctx, ast.Load) else stores).setdefault(n.id, []).append(n)
    params = {a.arg for a in fn.args.posonlyargs + fn.args.args + fn.args.kwonlyargs} | ({fn.args.vararg.arg} if fn.args.vararg else set()) | ({fn.args.kwarg.arg} if fn.args.kwarg else set())
    nested = any(isinstance(n, (ast.FunctionDef, ast.AsyncFunctionDef, ast.Lambda, ast.ClassDef)) and n is not fn for n in ast.walk(fn))
    for stmts in _blocks(fn):
        i = 0
        while i < len(stmts):
            st = stmts[i]
            if isinstance(st, ast.AnnAssign) and st.value is not None and isinstance(st.target, ast.Attribute):
                # self.x: T = v  is  self.x = v
                stmts[i] = st = ast.copy_location(ast.Assign(targets=[st.target], value=st.value), st)
                notes.append("annotated attribute assignment written as a plain assignment")
            if isinstance(st, ast.Expr) and isinstance(st.value, ast.Call) and isinstance(st.value.func, ast.Attribute) and st.value.func.attr == "setdefault" and len(st.value.args) == 2 \
                    and not st.value.keywords and isinstance(st.value.func.value, ast.Name) and all(isinstance(a, (ast.Name, ast.Constant)) for a in st.value.args):
                # d.setdefault(k, v) as a statement (result unused, k / v plain)  is  if not k in d: d[k] = v
                d_, k_, v_ = st.value.func.value, st.value.args[0], st.value.args[1]
                test = ast.UnaryOp(op=ast.Not(), operand=ast.Compare(left=k_, ops=[ast.In()], comparators=[ast.Name(id=d_.id, ctx=ast.Load())]))
                store = ast.Assign(targets=[ast.Subscript(value=ast.Name(id=d_.id, ctx=ast.Load()), slice=k_, ctx=ast.Store())], value=v_)
                stmts[i] = st = ast.fix_missing_locations(ast.copy_location(ast.If(test=test, body=[ast.copy_location(store, st)], orelse=[]), st))
                notes.append("d.setdefault(k, v) as a statement written as the membership test and store")
            if isinstance(st, ast.Assign) and len(st.targets) == 1 and isinstance(st.targets[0], ast.Subscript) and isinstance(st.targets[0].value, ast.Name) \
                    and isinstance(st.targets[0].slice, (ast.Name, ast.Constant)) and isinstance(st.value, ast.BinOp) and isinstance(st.value.op, ast.Add) and isinstance(st.value.left, ast.Call) \
                    and isinstance(st.value.left.func, ast.Attribute) and st.value.left.func.attr == "get" and isinstance(st.value.left.func.value, ast.Name) \
                    and st.value.left.func.value.id == st.targets[0].value.id and len(st.value.left.args) == 2 and not st.value.left.keywords \
                    and ast.dump(st.value.left.args[0]) == ast.dump(st.targets[0].slice) and isinstance(st.value.left.args[1], ast.Constant):
                # d[k] = d.get(k, c) + e   is   if not k in d: d[k] = c;  d[k] += e
                d_, k_, c_, e_ = st.targets[0].value.id, st.targets[0].slice, st.value.left.args[1], st.value.right
                test = ast.UnaryOp(op=ast.Not(), operand=ast.Compare(left=k_, ops=[ast.In()], comparators=[ast.Name(id=d_, ctx=ast.Load())]))
                init_ = ast.If(test=test, body=[ast.Assign(targets=[ast.Subscript(value=ast.Name(id=d_, ctx=ast.Load()), slice=k_, ctx=ast.Store())], value=c_)], orelse=[])
                aug_ = ast.AugAssign(target=ast.Subscript(value=ast.Name(id=d_, ctx=ast.Load()), slice=k_, ctx=ast.Store()), op=ast.Add(), value=e_)
                stmts[i:i + 1] = [ast.fix_missing_locations(ast.copy_location(init_, st)), ast.fix_missing_locations(ast.copy_location(aug_, st))]
                notes.append("d[k] = d.get(k, c) + e written as the membership test, store and increment")
                i += 2
                continue
            if isinstance(st, ast.Assign) and len(st.targets) == 1 and isinstance(st.targets[0], ast.Tuple) and any(isinstance(e, (ast.Tuple, ast.List)) for e in st.targets[0].elts) \
                    and not any(isinstance(e, ast.Starred) for e in st.targets[0].elts):
                # a, (b, c), d = E   is   a, t, d = E; b, c = t
                extra = []
                for k_, e in enumerate(st.targets[0].elts):
                    if isinstance(e, (ast.Tuple, ast.List)):
                        tmp = f"_nt{getattr(st, 'lineno', 0)}_{k_}"
                        st.targets[0].elts[k_] = ast.copy_location(ast.Name(id=tmp, ctx=ast.Store()), e)
                        extra.append(ast.fix_missing_locations(ast.copy_location(ast.Assign(targets=[e], value=ast.Name(id=tmp, ctx=ast.Load())), st)))
                stmts[i + 1:i + 1] = extra
                notes.append("nested unpacking target written as two assignments")
            if isinstance(st, ast.Delete) and len(st.targets) == 1 and isinstance(st.targets[0], ast.Subscript) and isinstance(st.targets[0].value, ast.Name) \
                    and isinstance(st.targets[0].slice, ast.Constant) and isinstance(st.targets[0].slice.value, int) and not isinstance(st.targets[0].slice.value, bool):
                t = st.targets[0]
                stmts[i] = ast.copy_location(ast.Expr(value=ast.copy_location(ast.Call(func=ast.Attribute(value=ast.Name(id=t.value.id, ctx=ast.Load()), attr="pop", ctx=ast.Load()),
                                                                                         args=[t.slice], keywords=[]), st)), st)
                notes.append("del xs[k] written as xs.pop(k)")
            elif isinstance(st, ast.If) and st.orelse and not (len(st.orelse) == 1 and isinstance(st.orelse[0], ast.If)) and not (len(st.body) == 1 and isinstance(st.body[0], ast.If)):
                t = st.test
                pos = None
                if isinstance(t, ast.UnaryOp) and isinstance(t.op, ast.Not):
                    pos = t.operand
                elif isinstance(t, ast.Compare) and len(t.ops) == 1 and isinstance(t.ops[0], ast.NotIn):
                    pos = ast.copy_location(ast.Compare(left=t.left, ops=[ast.In()], comparators=t.comparators), t)
                if pos is not None:
                    st.test, st.body, st.orelse = pos, st.orelse, st.body
                    notes.append("if not c: A else: B written as if c: B else: A")
            elif not nested and _counter_init(st) is not None and i + 1 < len(stmts) and isinstance(stmts[i + 1], (ast.For, ast.While)) and not stmts[i + 1].orelse \
                    and _counter_loop(st, stmts[i + 1], params, stores, loads) is not None:
                # k = c0; for T in IT: k += 1; ..   is   for k, T in enumerate(IT, c0 + 1): ..      (k read only inside the loop)
                # k = 0; while k < N: ..; k += 1    is   for k in range(N): ..                     (no continue; N not rebound inside)
                stmts[i:i + 2] = [_counter_loop(st, stmts[i + 1], params, stores, loads)]
                notes.append("hand-kept loop counter written as enumerate / range")
                continue
            elif not nested and isinstance(st, ast.For) and isinstance(st.target, ast.Name) and st.target.id not in params and len(stores.get(st.target.id, [])) == 1 and len(st.body) >= 3:
                # for t in xs: a = t[0]; b = t[1]; ..  (t read nowhere else)  is  for a, b in xs: ..
                t = st.target.id
                names = []
                for k, b in enumerate(st.body):
                    if isinstance(b, ast.Assign) and len(b.targets) == 1 and isinstance(b.targets[0], ast.Name) and b.targets[0].id != t and b.targets[0].id not in names \
                            and isinstance(b.value, ast.Subscript) and isinstance(b.value.value, ast.Name) and b.value.value.id == t and isinstance(b.value.slice, ast.Constant) \
                            and b.value.slice.value == k and not isinstance(b.value.slice.value, bool):
                        names.append(b.targets[0].id)
                    else:
                        break
                if len(names) >= 2 and len(names) < len(st.body) and len(loads.get(t, [])) == len(names):
                    st.target = ast.copy_location(ast.Tuple(elts=[ast.Name(id=x, ctx=ast.Store()) for x in names], ctx=ast.Store()), st.target)
                    del st.body[:len(names)]
                    notes.append("loop variable read only through t[0], t[1], .. at the head of the body written as a tuple target")
            elif not nested and isinstance(st, ast.Assign) and len(st.targets) == 1 and isinstance(st.targets[0], ast.Name) and i + 2 < len(stmts) and st.targets[0].id not in params \
                    and len(stores.get(st.targets[0].id, [])) == 1 and _index_reads(stmts, i + 1, st.targets[0].id, len(loads.get(st.targets[0].id, []))):
                # p = E; a = p[0]; b = p[1]  (p read nowhere else)  is  a, b = E
                names = _index_reads(stmts, i + 1, st.targets[0].id, len(loads.get(st.targets[0].id, [])))
                st.targets = [ast.copy_location(ast.Tuple(elts=[ast.Name(id=x, ctx=ast.Store()) for x in names], ctx=ast.Store()), st.targets[0])]
                del stmts[i + 1:i + 1 + len(names)]
                notes.append("local read only through p[0], p[1], .. right after its binding written as a tuple assignment")
            elif not nested and isinstance(st, ast.Assign) and len(st.targets) == 1 and isinstance(st.targets[0], ast.Name) and st.targets[0].id not in params \
                    and len(stores.get(st.targets[0].id, [])) == 1 and isinstance(st.value, (ast.Subscript, ast.Call)) and _const_index_reads(fn, stmts, i, st.targets[0].id, loads):
                # g = D[key]; .. g[0] .. g[1] .. g[2] ..   (g read only through these constant indices, all after the binding)   is   g0, g1, g2 = D[key]
                pname = st.targets[0].id
                n_ = _const_index_reads(fn, stmts, i, pname, loads)
                names = [f"{pname}__i{k}" for k in range(n_)]

                class R_(ast.NodeTransformer):
                    def visit_Subscript(self, x):
                        if isinstance(x.value, ast.Name) and x.value.id == pname and isinstance(x.slice, ast.Constant) and isinstance(x.ctx, ast.Load):
                            return ast.copy_location(ast.Name(id=names[x.slice.value], ctx=ast.Load()), x)
                        return self.generic_visit(x)

                st.targets = [ast.copy_location(ast.Tuple(elts=[ast.Name(id=x, ctx=ast.Store()) for x in names], ctx=ast.Store()), st.targets[0])]
                for j in range(i + 1, len(stmts)):
                    stmts[j] = R_().visit(stmts[j])
                loads.pop(pname, None)
                notes.append("local read only through constant indices written as a tuple assignment")
            elif not nested and isinstance(st, ast.Assign) and len(st.targets) == 1 and isinstance(st.targets[0], ast.Name) and isinstance(st.value, ast.Call) and i + 1 < len(stmts):
                x = st.targets[0].id
                nx = stmts[i + 1]
                if x not in params and len(stores.get(x, [])) == 1 and len(loads.get(x, [])) == 1 and isinstance(nx, ast.Assign) and nx.value is loads[x][0] and len(nx.targets) == 1 \
                        and isinstance(nx.targets[0], (ast.Tuple, ast.List)):
                    nx.value = st.value
                    del stmts[i]
                    notes.append("tuple bound to a single-use local before it is unpacked")
                    continue
            i += 1
    # list of text pieces joined once
    if not nested:
        for L, sts in list(stores.items()):
            if L in params or len(sts) != 1:
                continue
            init = join = None
            apps = []
            ok = True
            parents = {}
            for p_ in ast.walk(fn):
                for ch in ast.iter_child_nodes(p_):
                    parents[id(ch)] = p_
            ip = parents.get(id(sts[0]))
            if not (isinstance(ip, ast.Assign) and len(ip.targets) == 1 and ip.targets[0] is sts[0] and isinstance(ip.value, ast.List) and not ip.value.elts):
                continue
            for ld in loads.get(L, []):
                p1 = parents.get(id(ld))
                p2 = parents.get(id(p1))
                p3 = parents.get(id(p2))
                if isinstance(p1, ast.Attribute) and p1.attr == "append" and isinstance(p2, ast.Call) and p2.func is p1 and len(p2.args) == 1 and not p2.keywords and isinstance(p3, ast.Expr):
                    apps.append((p3, p2.args[0]))
                elif isinstance(p1, ast.Call) and isinstance(p1.func, ast.Attribute) and p1.func.attr == "join" and isinstance(p1.func.value, ast.Constant) and p1.func.value.value == "" \
                        and p1.args == [ld] and join is None and isinstance(p2, (ast.Assign, ast.Return)) and p2.value is p1:
                    join = (p2, p1)
                else:
                    ok = False
            if not ok or join is None or not apps:
                continue
            # the join must come after every append: it is a statement of the function body's top level placed after the statements holding the appends
            top = fn.body
            if join[0] not in top or ip not in top:
                continue
            ji = top.index(join[0])
            def top_index(node):
                cur = node
                while cur is not None and cur not in top:
                    cur = parents.get(id(cur))
                return top.index(cur) if cur is not None else None
            if not all((top_index(a_) is not None and top.index(ip) < top_index(a_) < ji) for a_, _e in apps):
                continue
            # `T = "".join(L)` with T bound nowhere else and read only afterwards: the accumulator is T itself
            jt = join[0].targets[0] if isinstance(join[0], ast.Assign) and len(join[0].targets) == 1 and isinstance(join[0].targets[0], ast.Name) else None
            if jt is not None and jt.id not in params and len(stores.get(jt.id, [])) == 1 and all((top_index(l_) or -1) > ji for l_ in loads.get(jt.id, [])):
                ip.targets[0].id = jt.id
                top.remove(join[0])
                L = jt.id
            else:
                join[0].value = ast.copy_location(ast.Name(id=L, ctx=ast.Load()), join[1])
            ip.value = ast.copy_location(ast.Constant(value=""), ip.value)
            for blk in _blocks(fn):
                for k, st in enumerate(blk):
                    for a_, e_ in apps:
                        if st is a_:
                            blk[k] = ast.copy_location(ast.AugAssign(target=ast.Name(id=L, ctx=ast.Store()), op=ast.Add(), value=e_), st)
            notes.append("text pieces collected in a list and joined once written as a string accumulator")
    return notes


def _passthrough_properties(prog: Program) -> List[str]:
    """A property `x` that only passes a private attribute through - getter `return self._x`, setter (optional guards that
    raise, then) `self._x = value` - is the plain attribute it replaced: the property is dropped from the model and `._x` is
    read as `.x` everywhere (only when no class outside the family of the defining class uses an attribute `_x`).
    A setter or getter that converts, caches or computes is not touched (rules/objmodel.py judges those)."""
    notes: List[str] = []
    for m in list(prog.modules.values()):
        for c in list(m.classes.values()):
            getters, setters, deleters = {}, {}, {}
            for node in c.node.body:
                if not isinstance(node, ast.FunctionDef):
                    continue
                for d in node.decorator_list:
                    if isinstance(d, ast.Name) and d.id == "property":
                        getters[node.name] = node
                    elif isinstance(d, ast.Attribute) and d.attr == "setter" and isinstance(d.value, ast.Name) and d.value.id == node.name:
                        setters[node.name] = node
                    elif isinstance(d, ast.Attribute) and d.attr == "deleter":
                        deleters[node.name] = node
            for name, g in getters.items():
                body = [b for b in g.body if not (isinstance(b, ast.Expr) and isinstance(b.value, ast.Constant))]
                if len(g.args.args) != 1 or len(body) != 1 or not isinstance(body[0], ast.Return):
                    continue
                selfn = g.args.args[0].arg
                r = body[0].value
                if not (isinstance(r, ast.Attribute) and isinstance(r.value, ast.Name) and r.value.id == selfn and r.attr != name):
                    continue
                backing = r.attr
                st = setters.get(name)
                if st is None:
                    continue
                if len(st.args.args) != 2:
                    continue
                s_self, s_val = st.args.args[0].arg, st.args.args[1].arg
                sbody = [b for b in st.body if not (isinstance(b, ast.Expr) and isinstance(b.value, ast.Constant))]
                if not sbody:
                    continue
                last = sbody[-1]
                ok = isinstance(last, ast.Assign) and len(last.targets) == 1 and isinstance(last.targets[0], ast.Attribute) and isinstance(last.targets[0].value, ast.Name) \
                    and last.targets[0].value.id == s_self and last.targets[0].attr == backing and isinstance(last.value, ast.Name) and last.value.id == s_val
                ok = ok and all(isinstance(b, ast.If) and not b.orelse and all(isinstance(x, ast.Raise) for x in b.body) for b in sbody[:-1])
                ok = ok and not any(isinstance(x, ast.Name) and x.id == s_val and isinstance(x.ctx, ast.Store) for b in sbody for x in ast.walk(b))
                dl = deleters.get(name)
                if dl is not None:
                    dbody = [b for b in dl.body if not (isinstance(b, ast.Expr) and isinstance(b.value, ast.Constant))]
                    ok = ok and len(dbody) == 1 and isinstance(dbody[0], ast.Delete) and len(dbody[0].targets) == 1 and isinstance(dbody[0].targets[0], ast.Attribute) \
                        and dbody[0].targets[0].attr == backing
                if not ok:
                    continue
                # the backing name must belong to this class family only
                family = [k for mm in prog.modules.values() for k in mm.classes.values() if any(x is c for x in prog.mro(k)) or any(x is k for x in prog.mro(c))]
                foreign = False
                for mm in prog.modules.values():
                    for k in mm.classes.values():
                        if any(k is x for x in family):
                            continue
                        if any(isinstance(x, ast.Attribute) and x.attr == backing for x in ast.walk(k.node)):
                            foreign = True
                    for fn_ in mm.functions.values():
                        pass
                if foreign:
                    continue
                c.node.body = [b for b in c.node.body if b is not g and b is not st and b is not dl]
                c.methods.pop(name, None)
                for mm in prog.modules.values():
                    for x in ast.walk(mm.tree):
                        if isinstance(x, ast.Attribute) and x.attr == backing:
                            x.attr = name
                notes.append(f"{c.qualname}: pass-through property `{name}` over `{backing}` read as the plain attribute")
    return notes


def lower_program(prog: Program) -> None:
    counter = [0]
    log = []
    log += _passthrough_properties(prog)
    for f in list(prog.all_functions(include_inlined=True)):
        if _lower_enumerate_index(f.node):
            log.append(f"{f.qualname}: sequence indexed by the enumerate counter (equal lengths asserted before the loop) zipped into the loop")
    for f in list(prog.all_functions(include_inlined=True)):
        for note in sorted(set(_lower_statements(f.node))):
            ast.fix_missing_locations(f.node)
            log.append(f"{f.qualname}: {note}")
    for f in list(prog.all_functions(include_inlined=True)):
        if _lower_selfassign(f.node):
            log.append(f"{f.qualname}: `x = x <op> e` on a numeric accumulator written as an augmented assignment")
    for f in list(prog.all_functions(include_inlined=True)):
        c = _ExprCanon(getattr(f.module, "imports", None))
        c.bound = {n.id for n in ast.walk(f.node) if isinstance(n, ast.Name) and isinstance(n.ctx, ast.Store)} | {a.arg for a in ast.walk(f.node) if isinstance(a, ast.arg)}
        if any(isinstance(n, ast.Name) and isinstance(n.ctx, ast.Store) and n.id in c.imports for n in ast.walk(f.node)) or any(a.arg in c.imports for a in ast.walk(f.node) if isinstance(a, ast.arg)):
            c.imports = {k: v for k, v in c.imports.items() if k not in c.bound}
        for i, st in enumerate(f.node.body):
            f.node.body[i] = c.visit(st)
        if c.changed:
            ast.fix_missing_locations(f.node)
            log.append(f"{f.qualname}: isinstance chains / mirrored comparisons / range(0, n) written in their canonical form")
    for f in list(prog.all_functions(include_inlined=True)):
        if any(isinstance(n, ast.NamedExpr) for n in ast.walk(f.node)):
            if _lower_walrus(f.node.body):
                log.append(f"{f.qualname}: assignment expression at the head of a statement written as an assignment statement")
    for f in list(prog.all_functions(include_inlined=True)):
        if any(isinstance(n, ast.Match) for n in ast.walk(f.node)):
            if _lower_block(f.node.body, counter):
                log.append(f"{f.qualname}: match statement lowered to an if/elif chain")
    prog.inline_log = list(getattr(prog, "inline_log", [])) + log
