"""Lowering of statement forms the CFG does not model directly (model only - /repo is never touched).

* `match <subject>: case <value> | <value>: ... case _: ...` over literal / dotted-name / singleton patterns is the chain
  `if subject == v1 or subject == v2: ... elif ...: ... else: ...` (singletons compare with `is`). A subject that is not a
  plain name is bound to a temporary first. Other pattern kinds (sequences, mappings, classes, captures, guards) are left
  alone - the CFG then reports the function as not modelled and every rule that needs it answers INCONCLUSIVE.
* `if (x := E) == 0:` - an assignment expression that is the first thing the statement evaluates - is `x = E` followed by
  `if x == 0:`.
"""
from __future__ import annotations

import ast
import copy
from typing import List, Optional

from .model import Program


def _pattern_test(subject: ast.AST, p: ast.pattern) -> Optional[ast.AST]:
    """boolean expression equivalent to the pattern; Constant(True) for the wildcard; None if unsupported"""
    if isinstance(p, ast.MatchValue):
        return ast.Compare(left=copy.deepcopy(subject), ops=[ast.Eq()], comparators=[copy.deepcopy(p.value)])
    if isinstance(p, ast.MatchSingleton):
        return ast.Compare(left=copy.deepcopy(subject), ops=[ast.Is()], comparators=[ast.Constant(value=p.value)])
    if isinstance(p, ast.MatchOr):
        parts = [_pattern_test(subject, q) for q in p.patterns]
        if any(x is None for x in parts):
            return None
        if any(isinstance(x, ast.Constant) and x.value is True for x in parts):
            return ast.Constant(value=True)
        return ast.BoolOp(op=ast.Or(), values=parts)
    if isinstance(p, ast.MatchAs) and p.pattern is None and p.name is None:
        return ast.Constant(value=True)
    return None


def _lower_block(stmts: List[ast.stmt], counter: List[int]) -> bool:
    changed = False
    i = 0
    while i < len(stmts):
        st = stmts[i]
        if isinstance(st, ast.Match):
            tests = []
            ok = True
            pre: List[ast.stmt] = []
            subject = st.subject
            if not isinstance(subject, ast.Name):
                counter[0] += 1
                tmp = f"subject__m{counter[0]}"
                pre.append(ast.copy_location(ast.Assign(targets=[ast.Name(id=tmp, ctx=ast.Store())], value=subject), st))
                subject = ast.Name(id=tmp, ctx=ast.Load())
            for c in st.cases:
                t = _pattern_test(subject, c.pattern)
                if t is None or c.guard is not None and False:
                    ok = False
                    break
                if c.guard is not None:
                    t = c.guard if isinstance(t, ast.Constant) and t.value is True else ast.BoolOp(op=ast.And(), values=[t, c.guard])
                tests.append((t, c.body))
            if ok and tests:
                chain: Optional[ast.If] = None
                tail: List[ast.stmt] = []
                # build from the last case backwards
                for t, body in reversed(tests):
                    if isinstance(t, ast.Constant) and t.value is True:
                        tail = list(body)  # wildcard: everything after it is unreachable
                        chain = None
                        continue
                    node = ast.If(test=t, body=list(body), orelse=([chain] if chain is not None else tail))
                    ast.copy_location(node, st)
                    chain = node
                    tail = []
                new = pre + ([chain] if chain is not None else tail)
                for n in new:
                    ast.fix_missing_locations(n)
                stmts[i:i + 1] = new
                changed = True
                continue
        for fld in ("body", "orelse", "finalbody"):
            sub = getattr(st, fld, None)
            if isinstance(sub, list) and sub and isinstance(sub[0], ast.stmt) and not isinstance(st, (ast.FunctionDef, ast.AsyncFunctionDef, ast.ClassDef)):
                changed |= _lower_block(sub, counter)
        for h in getattr(st, "handlers", []) or []:
            changed |= _lower_block(h.body, counter)
        for c in getattr(st, "cases", []) or []:
            changed |= _lower_block(c.body, counter)
        i += 1
    return changed


def _first_evaluated_walrus(test: ast.AST) -> Optional[ast.NamedExpr]:
    """the assignment expression that is evaluated before anything else in `test` (unconditionally), if there is one"""
    e = test
    while True:
        if isinstance(e, ast.NamedExpr):
            return e if isinstance(e.target, ast.Name) and not any(isinstance(x, ast.NamedExpr) for x in ast.walk(e.value)) else None
        if isinstance(e, ast.Compare):
            e = e.left
        elif isinstance(e, ast.UnaryOp):
            e = e.operand
        elif isinstance(e, ast.BoolOp):
            e = e.values[0]
        elif isinstance(e, ast.BinOp):
            e = e.left
        else:
            return None


def _lower_walrus(stmts: List[ast.stmt]) -> bool:
    """`if (x := E) == 0:`  ->  `x = E` followed by `if x == 0:` (assignment statements and `return`s likewise)"""
    changed = False
    i = 0
    while i < len(stmts):
        st = stmts[i]
        holder = "test" if isinstance(st, ast.If) else "value" if isinstance(st, (ast.Assign, ast.Return, ast.Expr)) and getattr(st, "value", None) is not None else None
        w = _first_evaluated_walrus(getattr(st, holder)) if holder else None
        if w is not None:
            asg = ast.copy_location(ast.Assign(targets=[ast.Name(id=w.target.id, ctx=ast.Store())], value=w.value), st)

            class R(ast.NodeTransformer):
                def visit_NamedExpr(self, n):
                    if n is w:
                        return ast.copy_location(ast.Name(id=w.target.id, ctx=ast.Load()), n)
                    return self.generic_visit(n)

            setattr(st, holder, R().visit(getattr(st, holder)))
            ast.fix_missing_locations(asg)
            ast.fix_missing_locations(st)
            stmts[i:i + 1] = [asg, st]
            changed = True
            continue
        for fld in ("body", "orelse", "finalbody"):
            sub = getattr(st, fld, None)
            if isinstance(sub, list) and sub and isinstance(sub[0], ast.stmt) and not isinstance(st, (ast.FunctionDef, ast.AsyncFunctionDef, ast.ClassDef)):
                changed |= _lower_walrus(sub)
        for h in getattr(st, "handlers", []) or []:
            changed |= _lower_walrus(h.body)
        i += 1
    return changed


_FLIP = {ast.Lt: ast.Gt, ast.Gt: ast.Lt, ast.LtE: ast.GtE, ast.GtE: ast.LtE, ast.Eq: ast.Eq, ast.NotEq: ast.NotEq}


class _ExprCanon(ast.NodeTransformer):
    """Spellings of one expression that differ only in form:
    * `isinstance(x, A) or isinstance(x, B)` is `isinstance(x, (A, B))`, `not isinstance(x, A) and not isinstance(x, B)` is
      `not isinstance(x, (A, B))` (x a name / attribute / subscript of names: evaluating it once or twice is the same);
    * `c < x` with a literal on the left is `x > c` (likewise `<=`, `==`, `!=`);
    * `range(0, n)` is `range(n)`."""

    def __init__(self):
        self.changed = False

    def visit_Lambda(self, n):
        return n

    @staticmethod
    def _pure(e) -> bool:
        return all(isinstance(x, (ast.Name, ast.Attribute, ast.Subscript, ast.Constant, ast.Load, ast.Tuple)) for x in ast.walk(e))

    @staticmethod
    def _isinst(e):
        """(subject, [types], negated) for `isinstance(x, T)` / `not isinstance(x, T)`"""
        neg = False
        if isinstance(e, ast.UnaryOp) and isinstance(e.op, ast.Not):
            e, neg = e.operand, True
        if isinstance(e, ast.Call) and isinstance(e.func, ast.Name) and e.func.id == "isinstance" and len(e.args) == 2 and not e.keywords:
            types = list(e.args[1].elts) if isinstance(e.args[1], ast.Tuple) else [e.args[1]]
            if not any(isinstance(t, ast.Starred) for t in types):
                return e.args[0], types, neg
        return None

    def visit_BoolOp(self, n):
        self.generic_visit(n)
        want_neg = isinstance(n.op, ast.And)  # `or` merges positive tests, `and` merges negated ones
        out = []
        for v in n.values:
            cur = self._isinst(v)
            prev = self._isinst(out[-1]) if out else None
            if cur is not None and prev is not None and cur[2] == want_neg and prev[2] == want_neg and self._pure(cur[0]) and ast.dump(cur[0]) == ast.dump(prev[0]):
                call = ast.Call(func=ast.Name(id="isinstance", ctx=ast.Load()), args=[prev[0], ast.Tuple(elts=prev[1] + cur[1], ctx=ast.Load())], keywords=[])
                merged = ast.UnaryOp(op=ast.Not(), operand=call) if want_neg else call
                out[-1] = ast.fix_missing_locations(ast.copy_location(merged, v))
                self.changed = True
            else:
                out.append(v)
        if len(out) == 1:
            return out[0]
        n.values = out
        return n

    def visit_Compare(self, n):
        self.generic_visit(n)
        if len(n.ops) == 1 and type(n.ops[0]) in _FLIP and isinstance(n.left, ast.Constant) and not isinstance(n.comparators[0], ast.Constant) and not isinstance(n.left.value, (str, bytes)):
            self.changed = True
            return ast.copy_location(ast.Compare(left=n.comparators[0], ops=[_FLIP[type(n.ops[0])]()], comparators=[n.left]), n)
        if len(n.ops) == 1 and type(n.ops[0]) in (ast.Lt, ast.Gt, ast.LtE, ast.GtE) and isinstance(n.left, ast.Name) and isinstance(n.comparators[0], ast.Call) \
                and isinstance(n.comparators[0].func, ast.Name) and n.comparators[0].func.id == "len":
            # `C > len(xs)` is `len(xs) < C` (a bare name on the left has no effect to be ordered with)
            self.changed = True
            return ast.copy_location(ast.Compare(left=n.comparators[0], ops=[_FLIP[type(n.ops[0])]()], comparators=[n.left]), n)
        return n

    def visit_Call(self, n):
        self.generic_visit(n)
        if isinstance(n.func, ast.Name) and n.func.id == "range" and len(n.args) == 2 and not n.keywords and isinstance(n.args[0], ast.Constant) and n.args[0].value == 0 \
                and not isinstance(n.args[0].value, bool):
            self.changed = True
            n.args = [n.args[1]]
        return n


def _lower_selfassign(fn: ast.AST) -> bool:
    """`x = x + e` (or `x = e + x`, `x = x | e`, ...) on a numeric accumulator is `x += e`: x is a local whose other bindings are
    number literals, augmented assignments or assignments of this form (for numbers `+`, `*`, `|`, `&` commute and rebinding
    equals the in-place operator)."""
    stores = {}
    parents = {}
    for p_ in ast.walk(fn):
        for ch in ast.iter_child_nodes(p_):
            parents[id(ch)] = p_
    params = {a.arg for a in fn.args.posonlyargs + fn.args.args + fn.args.kwonlyargs} | ({fn.args.vararg.arg} if fn.args.vararg else set()) | ({fn.args.kwarg.arg} if fn.args.kwarg else set())
    for n in ast.walk(fn):
        if isinstance(n, ast.Name) and isinstance(n.ctx, ast.Store):
            stores.setdefault(n.id, []).append(parents.get(id(n)))

    def selfref(st, name):
        if isinstance(st, ast.Assign) and len(st.targets) == 1 and isinstance(st.targets[0], ast.Name) and st.targets[0].id == name and isinstance(st.value, ast.BinOp):
            v = st.value
            if isinstance(v.left, ast.Name) and v.left.id == name and not any(isinstance(x, ast.Name) and x.id == name for x in ast.walk(v.right)):
                return v.op, v.right
            if isinstance(v.op, (ast.Add, ast.Mult, ast.BitOr, ast.BitAnd)) and isinstance(v.right, ast.Name) and v.right.id == name \
                    and not any(isinstance(x, ast.Name) and x.id == name for x in ast.walk(v.left)):
                return v.op, v.left
        return None

    numeric = set()
    for name, sts in stores.items():
        if name in params:
            continue
        ok = any(isinstance(st, ast.Assign) and isinstance(st.value, ast.Constant) and isinstance(st.value.value, (int, float)) and not isinstance(st.value.value, bool) for st in sts)
        for st in sts:
            if isinstance(st, ast.Assign) and isinstance(st.value, ast.Constant) and isinstance(st.value.value, (int, float)) and not isinstance(st.value.value, bool):
                continue
            if isinstance(st, ast.AugAssign) and isinstance(st.target, ast.Name):
                continue
            if selfref(st, name) is not None:
                continue
            ok = False
        if ok:
            numeric.add(name)
    changed = False

    def walk(stmts):
        nonlocal changed
        for i, st in enumerate(stmts):
            if isinstance(st, ast.Assign) and len(st.targets) == 1 and isinstance(st.targets[0], ast.Name) and st.targets[0].id in numeric:
                sr = selfref(st, st.targets[0].id)
                if sr is not None:
                    new = ast.AugAssign(target=ast.Name(id=st.targets[0].id, ctx=ast.Store()), op=sr[0], value=sr[1])
                    stmts[i] = ast.fix_missing_locations(ast.copy_location(new, st))
                    changed = True
                    continue
            for fld in ("body", "orelse", "finalbody"):
                sub = getattr(st, fld, None)
                if isinstance(sub, list) and sub and isinstance(sub[0], ast.stmt) and not isinstance(st, (ast.FunctionDef, ast.AsyncFunctionDef, ast.ClassDef)):
                    walk(sub)
            for h in getattr(st, "handlers", []) or []:
                walk(h.body)

    walk(fn.body)
    return changed


def lower_program(prog: Program) -> None:
    counter = [0]
    log = []
    for f in list(prog.all_functions(include_inlined=True)):
        if _lower_selfassign(f.node):
            log.append(f"{f.qualname}: `x = x <op> e` on a numeric accumulator written as an augmented assignment")
    for f in list(prog.all_functions(include_inlined=True)):
        c = _ExprCanon()
        for i, st in enumerate(f.node.body):
            f.node.body[i] = c.visit(st)
        if c.changed:
            ast.fix_missing_locations(f.node)
            log.append(f"{f.qualname}: isinstance chains / mirrored comparisons / range(0, n) written in their canonical form")
    for f in list(prog.all_functions(include_inlined=True)):
        if any(isinstance(n, ast.NamedExpr) for n in ast.walk(f.node)):
            if _lower_walrus(f.node.body):
                log.append(f"{f.qualname}: assignment expression at the head of a statement written as an assignment statement")
    for f in list(prog.all_functions(include_inlined=True)):
        if any(isinstance(n, ast.Match) for n in ast.walk(f.node)):
            if _lower_block(f.node.body, counter):
                log.append(f"{f.qualname}: match statement lowered to an if/elif chain")
    prog.inline_log = list(getattr(prog, "inline_log", [])) + log
