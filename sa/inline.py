"""Extract-method tolerance: statement-level calls to *new* helper functions are expanded in the caller's AST.

"New" = a function whose short name is not in the frozen list sa/anchors.py (the functions of the pinned tree).
The rules are anchored on the pinned functions; when a maintainer moves a block of such a function into a helper,
the block has to be analysed in the context it was taken from.  For every call that is a whole statement
(`helper(..)`, `x = helper(..)`, `a, b = helper(..)`, `return helper(..)`) the helper's body is copied into the
caller with its parameters bound to the arguments and its locals renamed; `return` statements in guard-clause
position are restructured into if/else (no goto needed), other shapes make the helper ineligible and the call is
left alone (the engine's expression-level look-through and, failing that, INCONCLUSIVE take over).

Nothing is executed; this is a source-to-source expansion on the parsed tree of the analysed copy only.
Helpers whose every call site in the package was expanded are hidden from `Program.all_functions()` (their
effects are accounted for in the callers); the others stay visible and are analysed as functions of their own.
"""
from __future__ import annotations

import ast
import builtins
import copy
from typing import Dict, List, Optional, Set, Tuple

from .anchors import KNOWN_FUNCTIONS
from .model import ClassInfo, FunctionInfo, Program

_BUILTINS = set(dir(builtins))
MAX_ROUNDS = 3


class NotEligible(Exception):
    pass


def _own_nodes(fn: ast.AST):
    """Nodes of a function body without descending into nested function/class definitions."""
    stack = list(ast.iter_child_nodes(fn))
    while stack:
        n = stack.pop()
        yield n
        if isinstance(n, (ast.FunctionDef, ast.AsyncFunctionDef, ast.ClassDef, ast.Lambda)):
            continue
        stack.extend(ast.iter_child_nodes(n))


def _contains_return(st: ast.AST) -> bool:
    if isinstance(st, ast.Return):
        return True
    return any(isinstance(n, ast.Return) for n in _own_nodes(st))


def _may_fall_through(stmts: List[ast.stmt]) -> bool:
    if not stmts:
        return True
    last = stmts[-1]
    if isinstance(last, (ast.Return, ast.Raise, ast.Continue, ast.Break)):
        return False
    if isinstance(last, ast.If):
        return _may_fall_through(last.body) or _may_fall_through(last.orelse)
    return True


def _restructure(stmts: List[ast.stmt], ret: str, state: Dict[str, bool]) -> Tuple[List[ast.stmt], bool]:
    """Rewrite a statement list whose returns are in guard-clause position into a return-free one: the statements
    that follow an `if` with a return inside are moved into the branch(es) that can reach them.
    -> (statements, falls through)"""
    out: List[ast.stmt] = []
    for i, st in enumerate(stmts):
        if isinstance(st, ast.Return):
            if st.value is not None:
                state["value"] = True
                a = ast.Assign(targets=[ast.Name(id=ret, ctx=ast.Store())], value=st.value)
                ast.copy_location(a, st)
                out.append(a)
            return out, False
        if isinstance(st, ast.If) and _contains_return(st):
            rest = stmts[i + 1:]
            bf, of = _may_fall_through(st.body), _may_fall_through(st.orelse)
            rest_b = rest if bf else []
            rest_o = ([copy.deepcopy(x) for x in rest] if bf else rest) if of else []
            nb, bft = _restructure(list(st.body) + list(rest_b), ret, state)
            no, oft = _restructure(list(st.orelse) + list(rest_o), ret, state)
            new = ast.If(test=st.test, body=nb or [ast.Pass()], orelse=no)
            ast.copy_location(new, st)
            out.append(new)
            return out, (bft and bf) or (oft and of)
        if _contains_return(st):
            raise NotEligible("return inside a loop / try / with block")
        out.append(st)
    return out, True


def _stored_names(body: List[ast.stmt]) -> Set[str]:
    out: Set[str] = set()
    for st in body:
        for n in [st] + list(_own_nodes(st)):
            if isinstance(n, ast.Name) and isinstance(n.ctx, (ast.Store, ast.Del)):
                out.add(n.id)
            elif isinstance(n, ast.ExceptHandler) and n.name:
                out.add(n.name)
            elif isinstance(n, (ast.FunctionDef, ast.AsyncFunctionDef, ast.ClassDef)):
                out.add(n.name)
            elif isinstance(n, (ast.Import, ast.ImportFrom)):
                for a in n.names:
                    out.add((a.asname or a.name).split(".")[0])
    return out


class _Rename(ast.NodeTransformer):
    def __init__(self, mapping: Dict[str, ast.AST]):
        self.mapping = mapping

    def visit_Name(self, n: ast.Name):
        if n.id in self.mapping:
            m = self.mapping[n.id]
            if isinstance(m, str):
                return ast.copy_location(ast.Name(id=m, ctx=n.ctx), n)
            if isinstance(n.ctx, ast.Load):
                return ast.copy_location(copy.deepcopy(m), n)
        return n

    def visit_ExceptHandler(self, n: ast.ExceptHandler):
        self.generic_visit(n)
        if n.name and isinstance(self.mapping.get(n.name), str):
            n.name = self.mapping[n.name]
        return n


def _helper_ok(g: FunctionInfo) -> bool:
    node = g.node
    if isinstance(node, ast.AsyncFunctionDef) or [d for d in node.decorator_list if not (isinstance(d, ast.Name) and d.id == "staticmethod")]:
        return False
    a = node.args
    if a.vararg:
        # *items is fine when the function only iterates over it (comprehensions / for loops / len / enumerate / zip)
        va = a.vararg.arg
        parents = {}
        for p_ in ast.walk(node):
            for ch in ast.iter_child_nodes(p_):
                parents[id(ch)] = p_
        for n in _own_nodes(node):
            if isinstance(n, ast.Name) and n.id == va:
                par = parents.get(id(n))
                ok = (isinstance(par, ast.comprehension) and par.iter is n) or (isinstance(par, ast.For) and par.iter is n) or \
                     (isinstance(par, ast.Call) and isinstance(par.func, ast.Name) and par.func.id in ("len", "enumerate", "zip", "tuple", "list") and n in par.args)
                if not ok or isinstance(n.ctx, ast.Store):
                    return False
    for n in _own_nodes(node):
        if isinstance(n, (ast.Yield, ast.YieldFrom, ast.Global, ast.Nonlocal, ast.Await)):
            return False
        if isinstance(n, (ast.FunctionDef, ast.AsyncFunctionDef, ast.Lambda, ast.ClassDef)):
            return False  # closures capture renamed locals; keep it simple
        if isinstance(n, ast.Call) and isinstance(n.func, ast.Name) and n.func.id in ("locals", "vars", "globals", "super", "eval", "exec"):
            return False
    for d in list(a.defaults) + [d for d in a.kw_defaults if d is not None]:
        if isinstance(d, ast.Name) and isinstance(g.module.assigns.get(d.id), ast.Constant):
            continue  # a module-level constant as default value
        if not isinstance(d, ast.Constant) and not (isinstance(d, ast.UnaryOp) and isinstance(d.operand, ast.Constant)):
            return False
    return True


def _free_names_agree(prog: Program, g: FunctionInfo, f: FunctionInfo, local: Set[str]) -> bool:
    if g.module is f.module:
        return True
    pending: Dict[str, str] = {}
    body_nodes = []
    for st in g.node.body:
        # names that occur only in annotations do not matter for the analysis
        for n in [st] + list(_own_nodes(st)):
            body_nodes.append(n)
    ann = set()
    for n in body_nodes:
        if isinstance(n, ast.AnnAssign):
            ann |= {id(x) for x in ast.walk(n.annotation)}
    for n in body_nodes:
        if id(n) in ann:
            continue
        if isinstance(n, ast.Name) and isinstance(n.ctx, ast.Load) and n.id not in local and n.id not in _BUILTINS:
            a = g.module.imports.get(n.id)
            b = f.module.imports.get(n.id)
            if a is not None and a == b:
                continue
            # a module-level object of the helper's module that the caller imports under the same name
            if a is None and b == f"{g.module.name}.{n.id}":
                continue
            # a name the caller's module does not know at all: make it known there (model only) under the helper's meaning
            unknown_there = b is None and n.id not in f.module.functions and n.id not in f.module.classes and n.id not in f.module.assigns
            if unknown_there and (a is not None or n.id in g.module.functions or n.id in g.module.classes or n.id in g.module.assigns):
                pending[n.id] = a if a is not None else f"{g.module.name}.{n.id}"
                continue
            return False
    f.module.imports.update(pending)
    return True


def _resolve_helper(prog: Program, f: FunctionInfo, call: ast.Call, known: Set[str]) -> Optional[Tuple[FunctionInfo, Optional[ast.AST]]]:
    """(helper, receiver expression or None) if `call` is a call of an eligible new helper."""
    fn = call.func
    g = None
    recv = None
    if isinstance(fn, ast.Name):
        r = prog.resolve_name(f.module, fn.id)
        if isinstance(r, FunctionInfo) and r.cls is None:
            g = r
    elif isinstance(fn, ast.Attribute) and isinstance(fn.value, ast.Name) and f.cls is not None and f.params and fn.value.id == f.params[0]:
        m = prog.find_method(f.cls, fn.attr)
        if m is not None and not m.is_property and not any(isinstance(d, ast.Name) and d.id in ("classmethod",) for d in m.node.decorator_list):
            # an override in a subclass would make the static target wrong
            overridden = any(isinstance(c, ClassInfo) and c is not m.cls and fn.attr in c.methods and m.cls in prog.mro(c) for mod in prog.modules.values() for c in mod.classes.values())
            if not overridden:
                g = m
                # a static method called through the instance takes no receiver
                recv = None if any(isinstance(d, ast.Name) and d.id == "staticmethod" for d in m.node.decorator_list) else fn.value
    if g is None or g is f or g.short in known or not _helper_ok(g):
        return None
    if any(isinstance(a, ast.Starred) for a in call.args):
        return None
    stars = [k for k in call.keywords if k.arg is None]
    if stars and not (g.node.args.kwarg is not None and len(stars) == 1 and isinstance(stars[0].value, ast.Name)):
        return None
    if g.node.args.kwarg is not None and not stars:
        # explicit keywords collected by the helper's **kwargs: fine if the helper only hands `**kwargs` on to other calls
        kw = g.node.args.kwarg.arg
        for n in _own_nodes(g.node):
            if isinstance(n, ast.Name) and n.id == kw:
                return None if not _only_forwarded(g.node, kw) else (g, recv)
    # no recursion
    for n in _own_nodes(g.node):
        if isinstance(n, ast.Call) and ((isinstance(n.func, ast.Name) and n.func.id == g.name) or (isinstance(n.func, ast.Attribute) and n.func.attr == g.name)):
            return None
    return g, recv


def _only_forwarded(fn: ast.AST, kw: str) -> bool:
    """Every use of the **kwargs name is `f(..., **kwargs)`."""
    uses = [n for n in _own_nodes(fn) if isinstance(n, ast.Name) and n.id == kw]
    forwarded = [k.value for n in _own_nodes(fn) if isinstance(n, ast.Call) for k in n.keywords if k.arg is None and isinstance(k.value, ast.Name) and k.value.id == kw]
    # ... or `kwargs.items()` / `.values()` / `.keys()`: with explicit keywords at the call site that is a literal sequence
    viewed = [n.func.value for n in _own_nodes(fn) if isinstance(n, ast.Call) and isinstance(n.func, ast.Attribute) and n.func.attr in ("items", "values", "keys") and not n.args
              and isinstance(n.func.value, ast.Name) and n.func.value.id == kw]
    return len(uses) == len(forwarded) + len(viewed)


def _static_test(t: ast.AST, consts: Dict[str, ast.AST]) -> Optional[bool]:
    """truth value of a test over literals (and module-level constants), or None"""
    neg = False
    while isinstance(t, ast.UnaryOp) and isinstance(t.op, ast.Not):
        t, neg = t.operand, not neg

    def lit(e):
        if isinstance(e, ast.Name) and isinstance(consts.get(e.id), ast.Constant):
            return consts[e.id]
        return e

    val = None
    t = lit(t)
    if isinstance(t, ast.Constant) and isinstance(t.value, (bool, int, str, type(None))):
        val = bool(t.value)
    elif isinstance(t, ast.Compare) and len(t.ops) == 1:
        a_, b_ = lit(t.left), lit(t.comparators[0])
        if isinstance(a_, ast.Constant) and isinstance(b_, ast.Constant) and isinstance(t.ops[0], (ast.Eq, ast.NotEq, ast.Is, ast.IsNot)):
            a, b = a_.value, b_.value
            if type(a) is type(b) or a is None or b is None:
                val = (a == b) if isinstance(t.ops[0], (ast.Eq, ast.Is)) else (a != b)
        elif isinstance(a_, ast.Constant) and isinstance(t.ops[0], (ast.In, ast.NotIn)) and isinstance(b_, (ast.Tuple, ast.List, ast.Set)) and all(isinstance(e, ast.Constant) for e in b_.elts):
            inside = a_.value in [e.value for e in b_.elts]
            val = inside if isinstance(t.ops[0], ast.In) else not inside
    if val is None:
        return None
    return (not val) if neg else val


def _fold_constant_tests(stmts: List[ast.stmt], consts: Optional[Dict[str, ast.AST]] = None) -> List[ast.stmt]:
    """`if "A" == "A": X else: Y` (a helper parameter that selects a variant was bound to a literal) -> X;
    likewise conditional expressions whose test is decided"""
    consts = consts or {}

    class E(ast.NodeTransformer):
        def visit_IfExp(self, n):
            self.generic_visit(n)
            v = _static_test(n.test, consts)
            if v is None:
                return n
            return n.body if v else n.orelse

        def visit_FunctionDef(self, n):
            return n

        def visit_Lambda(self, n):
            return n

    out: List[ast.stmt] = []
    for st in stmts:
        if not isinstance(st, (ast.If, ast.For, ast.While, ast.With, ast.Try)):
            st = E().visit(st)
        if isinstance(st, ast.If):
            val = _static_test(st.test, consts)
            if val is not None:
                out += _fold_constant_tests(list(st.body if val else st.orelse), consts)
                continue
            st.body = _fold_constant_tests(list(st.body), consts) or [ast.copy_location(ast.Pass(), st)]
            st.orelse = _fold_constant_tests(list(st.orelse), consts)
        elif isinstance(st, (ast.For, ast.While, ast.With, ast.Try)):
            for fld in ("body", "orelse", "finalbody"):
                sub = getattr(st, fld, None)
                if isinstance(sub, list) and sub:
                    setattr(st, fld, _fold_constant_tests(list(sub), consts) or ([ast.copy_location(ast.Pass(), st)] if fld == "body" else []))
            for h in getattr(st, "handlers", []) or []:
                h.body = _fold_constant_tests(list(h.body), consts) or [ast.copy_location(ast.Pass(), st)]
        out.append(st)
    return out


class _VarArgs(ast.AST):
    """Marker: the helper's *args is bound to these positional arguments of the call (plain names / constants)."""

    _fields = ()

    def __init__(self, items):
        super().__init__()
        self.items = list(items)


def _unroll_comprehensions(body: List[ast.stmt], literal_names: Dict[str, List[ast.AST]]) -> None:
    """tuple(E(v) for v in <literal tuple>) / [E(v) for v in <literal>]  ->  (E(a), E(b), E(c)); a local that is defined once by
    such a display counts as literal for later comprehensions; `return name` of such a local returns the display."""
    lits = dict(literal_names)

    def literal(e) -> Optional[List[ast.AST]]:
        if isinstance(e, (ast.Tuple, ast.List)) and not any(isinstance(x, ast.Starred) for x in e.elts):
            return list(e.elts)
        if isinstance(e, ast.Name) and e.id in lits:
            return lits[e.id]
        return None

    class Sub(ast.NodeTransformer):
        def __init__(self, var, value):
            self.var, self.value = var, value

        def visit_Name(self, n):
            if n.id == self.var and isinstance(n.ctx, ast.Load):
                return copy.deepcopy(self.value)
            return n

    class T(ast.NodeTransformer):
        def visit_FunctionDef(self, n):
            return n

        def visit_Lambda(self, n):
            return n

        def unrolled(self, comp):
            if len(comp.generators) != 1 or comp.generators[0].ifs or not isinstance(comp.generators[0].target, ast.Name):
                return None
            seq = literal(comp.generators[0].iter)
            if seq is None or len(seq) > 8:
                return None
            v = comp.generators[0].target.id
            return [Sub(v, e).visit(copy.deepcopy(comp.elt)) for e in seq]

        def visit_Call(self, c):
            self.generic_visit(c)
            if isinstance(c.func, ast.Name) and c.func.id in ("tuple", "list") and len(c.args) == 1 and not c.keywords and isinstance(c.args[0], (ast.GeneratorExp, ast.ListComp)):
                elts = self.unrolled(c.args[0])
                if elts is not None:
                    new = ast.Tuple(elts=elts, ctx=ast.Load()) if c.func.id == "tuple" else ast.List(elts=elts, ctx=ast.Load())
                    return ast.copy_location(new, c)
            return c

        def visit_ListComp(self, c):
            self.generic_visit(c)
            elts = self.unrolled(c)
            if elts is not None:
                return ast.copy_location(ast.List(elts=elts, ctx=ast.Load()), c)
            return c

    stores: Dict[str, int] = {}
    for st in body:
        for n in [st] + list(_own_nodes(st)):
            if isinstance(n, ast.Name) and isinstance(n.ctx, ast.Store):
                stores[n.id] = stores.get(n.id, 0) + 1
    for i, st in enumerate(body):
        st = T().visit(st)
        body[i] = st
        if isinstance(st, ast.Assign) and len(st.targets) == 1 and isinstance(st.targets[0], ast.Name) and stores.get(st.targets[0].id) == 1 and isinstance(st.value, (ast.Tuple, ast.List)):
            lits[st.targets[0].id] = list(st.value.elts)
        if isinstance(st, ast.Return) and isinstance(st.value, ast.Name) and st.value.id in lits and stores.get(st.value.id) == 1:
            st.value = ast.copy_location(ast.Tuple(elts=[copy.deepcopy(e) for e in lits[st.value.id]], ctx=ast.Load()), st.value)
        ast.fix_missing_locations(st)


class _ExplicitKwargs(ast.AST):
    """Marker: the helper's **kwargs is bound to these explicit keyword arguments of the call."""

    _fields = ()

    def __init__(self, items):
        super().__init__()
        self.items = items


def _bind(g: FunctionInfo, call: ast.Call, recv: Optional[ast.AST]) -> Optional[Dict[str, ast.AST]]:
    a = g.node.args
    pos = [x.arg for x in a.posonlyargs + a.args]
    kwonly = [x.arg for x in a.kwonlyargs]
    out: Dict[str, ast.AST] = {}
    extras: List[Tuple[str, ast.AST]] = []
    args = list(call.args)
    if recv is not None:
        if not pos:
            return None
        out[pos[0]] = recv
        pos = pos[1:]
    if len(args) > len(pos):
        if a.vararg is None or not all(isinstance(x, (ast.Name, ast.Constant)) for x in args[len(pos):]):
            return None
        out[a.vararg.arg] = _VarArgs(args[len(pos):])
        args = args[: len(pos)]
    elif a.vararg is not None:
        out[a.vararg.arg] = _VarArgs([])
    for p, v in zip(pos, args):
        out[p] = v
    for k in call.keywords:
        if k.arg is None:
            # `**kwargs` handed through unchanged to the helper's own **kwargs
            out[a.kwarg.arg] = k.value
            continue
        if k.arg in out:
            return None
        if k.arg not in pos + kwonly:
            if a.kwarg is None:
                return None
            extras.append((k.arg, k.value))
            continue
        out[k.arg] = k.value
    if a.kwarg is not None and a.kwarg.arg not in out:
        out[a.kwarg.arg] = _ExplicitKwargs(extras)
    for p in pos + kwonly:
        if p not in out:
            d = g.param_default(p)
            if d is None:
                return None
            if isinstance(d, ast.Name) and isinstance(g.module.assigns.get(d.id), ast.Constant):
                d = g.module.assigns[d.id]
            out[p] = d
    return out


def _bool_ifexp(t: ast.AST, a: ast.AST, b: ast.AST) -> ast.AST:
    """`a if t else b`, read as a truth value, as and/or/not."""
    def const(x, v):
        return isinstance(x, ast.Constant) and x.value is v

    def neg(x):
        return x.operand if isinstance(x, ast.UnaryOp) and isinstance(x.op, ast.Not) else ast.UnaryOp(op=ast.Not(), operand=x)

    if const(a, False) or const(a, None):
        return ast.BoolOp(op=ast.And(), values=[neg(t), b]) if not (const(b, True)) else neg(t)
    if const(a, True):
        return ast.BoolOp(op=ast.Or(), values=[t, b]) if not const(b, False) else t
    if const(b, False) or const(b, None):
        return ast.BoolOp(op=ast.And(), values=[t, a])
    if const(b, True):
        return ast.BoolOp(op=ast.Or(), values=[neg(t), a])
    return ast.BoolOp(op=ast.Or(), values=[ast.BoolOp(op=ast.And(), values=[t, a]), ast.BoolOp(op=ast.And(), values=[neg(copy.deepcopy(t)), b])])


def _predicate_expr(stmts: List[ast.stmt]) -> ast.AST:
    """The truth value a pure predicate (only `if` / `return <expr>` statements) returns, as one boolean expression."""
    if not stmts:
        return ast.Constant(value=None)
    st = stmts[0]
    if isinstance(st, ast.Return):
        return copy.deepcopy(st.value) if st.value is not None else ast.Constant(value=None)
    if isinstance(st, ast.If):
        then = _predicate_expr(list(st.body) + list(stmts[1:]))
        els = _predicate_expr(list(st.orelse) + list(stmts[1:]))
        return _bool_ifexp(copy.deepcopy(st.test), then, els)
    if isinstance(st, ast.Pass):
        return _predicate_expr(stmts[1:])
    raise NotEligible("predicate body contains other statements")


def _value_expr(stmts: List[ast.stmt]) -> ast.AST:
    """The value a pure selector (only `if` / `return <expr>` statements, every path returns) returns, as one expression:
    if c: return a; return b   ->   a if c else b"""
    if not stmts:
        raise NotEligible("a path falls off the end")
    st = stmts[0]
    if isinstance(st, ast.Return):
        if st.value is None:
            raise NotEligible("bare return")
        return copy.deepcopy(st.value)
    if isinstance(st, ast.If):
        then = _value_expr(list(st.body) + list(stmts[1:]))
        els = _value_expr(list(st.orelse) + list(stmts[1:]))
        return ast.IfExp(test=copy.deepcopy(st.test), body=then, orelse=els)
    if isinstance(st, ast.Pass):
        return _value_expr(stmts[1:])
    raise NotEligible("selector body contains other statements")


def _simple_arg(e: ast.AST) -> bool:
    if isinstance(e, (ast.Name, ast.Constant)):
        return True
    if isinstance(e, ast.Attribute):
        return _simple_arg(e.value)
    if isinstance(e, ast.Subscript):
        return _simple_arg(e.value) and _simple_arg(e.slice)
    return False


class Inliner:
    def __init__(self, prog: Program):
        self.prog = prog
        self.known = set(KNOWN_FUNCTIONS)
        self.counter = 0
        self.expanded: Dict[str, int] = {}
        self.log: List[str] = []

    def expand_statement(self, f: FunctionInfo, st: ast.stmt) -> Optional[List[ast.stmt]]:
        call = None
        if isinstance(st, ast.Expr) and isinstance(st.value, ast.Call):
            call = st.value
        elif isinstance(st, (ast.Assign, ast.AnnAssign, ast.Return)) and isinstance(st.value, ast.Call):
            call = st.value
        if call is None:
            return None
        r = _resolve_helper(self.prog, f, call, self.known)
        if r is None:
            return None
        g, recv = r
        binding = _bind(g, call, recv)
        if binding is None:
            return None
        self.counter += 1
        tag = f"__h{self.counter}"
        body = [copy.deepcopy(s) for s in g.node.body]
        if body and isinstance(body[0], ast.Expr) and isinstance(body[0].value, ast.Constant) and isinstance(body[0].value.value, str):
            body = body[1:]
        varargs = {p_: v_.items for p_, v_ in binding.items() if isinstance(v_, _VarArgs)}
        for p_ in varargs:
            del binding[p_]
        if varargs:
            _unroll_comprehensions(body, {p_: items for p_, items in varargs.items()})
            if any(isinstance(n, ast.Name) and n.id in varargs for s_ in body for n in [s_] + list(_own_nodes(s_))):
                return None  # some use of *args survived: not modelled
        stored = _stored_names(body)
        params = list(binding)
        local = set(params) | stored
        if not _free_names_agree(self.prog, g, f, local):
            return None
        ret = f"ret{tag}"
        state = {"value": False}
        try:
            new_body, _ft = _restructure(body, ret, state)
        except NotEligible:
            return None
        mapping: Dict[str, object] = {}
        pre: List[ast.stmt] = []
        caller_stored = _stored_names(f.node.body)
        explicit_kwargs = None
        for p, v in list(binding.items()):
            if isinstance(v, _ExplicitKwargs):
                explicit_kwargs = (p, v.items)
                del binding[p]
        for p, v in binding.items():
            simple = isinstance(v, ast.Name) and p not in stored and (v.id not in stored)
            const = isinstance(v, ast.Constant) and p not in stored
            if simple or const:
                mapping[p] = v
            else:
                tmp = f"{p}{tag}"
                mapping[p] = tmp
                a = ast.Assign(targets=[ast.Name(id=tmp, ctx=ast.Store())], value=copy.deepcopy(v))
                ast.copy_location(a, st)
                pre.append(a)
        for n in stored:
            if n not in mapping:
                mapping[n] = f"{n}{tag}"
        if explicit_kwargs is not None:
            kwname, items = explicit_kwargs

            class Fwd(ast.NodeTransformer):
                def visit_Call(self, c: ast.Call):
                    self.generic_visit(c)
                    if isinstance(c.func, ast.Attribute) and c.func.attr in ("items", "values", "keys") and not c.args and isinstance(c.func.value, ast.Name) and c.func.value.id == kwname:
                        if c.func.attr == "items":
                            elts = [ast.Tuple(elts=[ast.Constant(value=n_), copy.deepcopy(v_)], ctx=ast.Load()) for n_, v_ in items]
                        elif c.func.attr == "values":
                            elts = [copy.deepcopy(v_) for n_, v_ in items]
                        else:
                            elts = [ast.Constant(value=n_) for n_, v_ in items]
                        return ast.copy_location(ast.Tuple(elts=elts, ctx=ast.Load()), c)
                    new_kw = []
                    for k in c.keywords:
                        if k.arg is None and isinstance(k.value, ast.Name) and k.value.id == kwname:
                            new_kw += [ast.keyword(arg=n_, value=copy.deepcopy(v_)) for n_, v_ in items]
                        else:
                            new_kw.append(k)
                    c.keywords = new_kw
                    return c

            # the explicit values are caller expressions: substitute them after the helper's own names were renamed
            ren = _Rename(mapping)  # type: ignore[arg-type]
            new_body = [Fwd().visit(ren.visit(s)) for s in new_body]
        else:
            ren = _Rename(mapping)  # type: ignore[arg-type]
            new_body = [ren.visit(s) for s in new_body]
        # parameters bound to literals can decide tests of the helper's body: keep only the live branch
        new_body = _fold_constant_tests(new_body, {k_: v_ for k_, v_ in g.module.assigns.items() if isinstance(v_, ast.Constant) and k_ not in stored and k_ not in binding})
        out: List[ast.stmt] = list(pre)
        needs_value = not isinstance(st, ast.Expr)
        if needs_value:
            init = ast.Assign(targets=[ast.Name(id=ret, ctx=ast.Store())], value=ast.Constant(value=None))
            ast.copy_location(init, st)
            # the initial None is only needed when some path falls off the end; keep it simple: always
            if not state["value"] or _ft:
                out.append(init)
        # `a, b = helper(..)` with the helper returning tuple displays: bind the components directly (a = x; b = y), so that
        # the data flow of each component stays visible
        tgt = st.targets[0] if isinstance(st, ast.Assign) and len(st.targets) == 1 else None
        split = False
        if isinstance(tgt, ast.Tuple) and all(isinstance(e, ast.Name) for e in tgt.elts) and state["value"] and not _ft:
            ret_assigns = [x for s_ in new_body for x in [s_] + list(_own_nodes(s_)) if isinstance(x, ast.Assign) and len(x.targets) == 1 and isinstance(x.targets[0], ast.Name) and x.targets[0].id == ret]
            if ret_assigns and all(isinstance(x.value, ast.Tuple) and len(x.value.elts) == len(tgt.elts) for x in ret_assigns):
                split = True

                class Split(ast.NodeTransformer):
                    def visit_Assign(self, x):
                        if len(x.targets) == 1 and isinstance(x.targets[0], ast.Name) and x.targets[0].id == ret and isinstance(x.value, ast.Tuple):
                            parts = []
                            for i_, e_ in enumerate(x.value.elts):
                                parts.append(ast.copy_location(ast.Assign(targets=[ast.Name(id=f"{ret}_{i_}", ctx=ast.Store())], value=e_), x))
                            return parts
                        return x

                new_body = [y for s_ in new_body for y in (lambda r: r if isinstance(r, list) else [r])(Split().visit(s_))]
                out = [o for o in out if not (isinstance(o, ast.Assign) and isinstance(o.targets[0], ast.Name) and o.targets[0].id == ret)]
        out += new_body
        if needs_value and split:
            for i_, e_ in enumerate(tgt.elts):
                a_ = ast.Assign(targets=[ast.Name(id=e_.id, ctx=ast.Store())], value=ast.Name(id=f"{ret}_{i_}", ctx=ast.Load()))
                out.append(ast.copy_location(a_, st))
        elif needs_value:
            st2 = copy.copy(st)
            st2.value = ast.copy_location(ast.Name(id=ret, ctx=ast.Load()), call)
            out.append(st2)
        for s in out:
            ast.fix_missing_locations(s)
        self.expanded[g.qualname] = self.expanded.get(g.qualname, 0) + 1
        self.log.append(f"{f.qualname}: expanded {g.short} at line {getattr(st, 'lineno', '?')}")
        return out or [ast.copy_location(ast.Pass(), st)]

    def unroll(self, f: FunctionInfo, st: ast.stmt) -> Optional[List[ast.stmt]]:
        """`for a, b in (("x", x), ("y", y)): BODY`  ->  a, b = "x", x; BODY; a, b = "y", y; BODY
        for a loop over a short literal sequence whose body neither breaks nor continues and that contains a call of a new
        helper (only then is the unrolled form of any use: the helper's guards get to see the individual elements)."""
        if isinstance(st, ast.For) and isinstance(st.iter, ast.Name) and st.iter.id not in f.params:
            # the literal sequence held in a local that is bound once and only read by this loop
            occ = [n for n in _own_nodes(f.node) if isinstance(n, ast.Name) and n.id == st.iter.id]
            stores = [n for n in occ if isinstance(n.ctx, ast.Store)]
            if len(stores) == 1 and len(occ) == 2:
                for n in _own_nodes(f.node):
                    if isinstance(n, ast.Assign) and len(n.targets) == 1 and n.targets[0] is stores[0] and isinstance(n.value, (ast.Tuple, ast.List)):
                        st = copy.copy(st)
                        st.iter = n.value
        if not isinstance(st, ast.For) or st.orelse or not isinstance(st.iter, (ast.Tuple, ast.List)) or not (1 <= len(st.iter.elts) <= 12):
            return None
        if any(isinstance(e, ast.Starred) for e in st.iter.elts):
            return None
        tgt = st.target
        if isinstance(tgt, ast.Tuple):
            if not all(isinstance(t, ast.Name) for t in tgt.elts) or not all(isinstance(e, (ast.Tuple, ast.List)) and len(e.elts) == len(tgt.elts) for e in st.iter.elts):
                return None
        elif not isinstance(tgt, ast.Name):
            return None
        for n in [x for b in st.body for x in [b] + list(_own_nodes(b))]:
            if isinstance(n, (ast.Break, ast.Continue)):
                return None
        has_helper = any(isinstance(n, ast.Call) and _resolve_helper(self.prog, f, n, self.known) is not None for b in st.body for n in [b] + list(_own_nodes(b)))
        # ... or raises: a validation loop over the (name, value) pairs of several arguments is the sequence of their guards
        has_raise = any(isinstance(n, (ast.Raise, ast.Assert)) for b in st.body for n in [b] + list(_own_nodes(b)))
        if not has_helper and not has_raise:
            return None
        out: List[ast.stmt] = []
        for e in st.iter.elts:
            asg = ast.Assign(targets=[copy.deepcopy(tgt)], value=copy.deepcopy(e))
            ast.copy_location(asg, st)
            ast.fix_missing_locations(asg)
            out.append(asg)
            out += [copy.deepcopy(b) for b in st.body]
        self.log.append(f"{f.qualname}: unrolled the loop over a literal sequence at line {getattr(st, 'lineno', '?')}")
        return out

    def comp_to_loop(self, f: FunctionInfo, st: ast.stmt) -> Optional[List[ast.stmt]]:
        """`x = [helper(e) for e in it]` / `{helper(e) for e in it}` / `return sum({helper(e) ...})` with a new helper in the element
        expression: written as the equivalent loop, so that the helper call becomes a statement that can be expanded
            acc = []; for e in it: tmp = helper(e); acc.append(tmp); x = acc | set(acc)"""
        if not isinstance(st, (ast.Assign, ast.AnnAssign, ast.Return)) or st.value is None:
            return None
        comps = [n for n in ast.walk(st.value) if isinstance(n, (ast.ListComp, ast.SetComp)) and len(n.generators) == 1 and not n.generators[0].ifs and not n.generators[0].is_async]
        def has_helper(elt: ast.AST) -> bool:
            if isinstance(elt, ast.Call) and _resolve_helper(self.prog, f, elt, self.known) is not None:
                return True
            # the helper call as the index / an operand of an otherwise plain element expression: table[helper(e)]
            inner = [x for x in ast.walk(elt) if isinstance(x, ast.Call) and _resolve_helper(self.prog, f, x, self.known) is not None]
            if len(inner) != 1:
                return False
            inside = {id(y) for y in ast.walk(inner[0])}
            return all(isinstance(x, (ast.Name, ast.Attribute, ast.Subscript, ast.Constant, ast.Tuple, ast.BinOp, ast.UnaryOp, ast.operator, ast.unaryop, ast.expr_context, ast.Slice))
                       for x in ast.walk(elt) if id(x) not in inside)

        comps = [c for c in comps if has_helper(c.elt)]
        if len(comps) != 1:
            return None
        c = comps[0]
        # the comprehension must be evaluated exactly once and unconditionally within the statement
        for n in ast.walk(st.value):
            if isinstance(n, (ast.IfExp, ast.BoolOp, ast.Lambda, ast.GeneratorExp)) or (isinstance(n, (ast.ListComp, ast.SetComp, ast.DictComp)) and n is not c):
                return None
        self.counter += 1
        tag = f"__c{self.counter}"
        acc, tmp = f"acc{tag}", f"elt{tag}"
        g = c.generators[0]
        init = ast.Assign(targets=[ast.Name(id=acc, ctx=ast.Store())], value=ast.List(elts=[], ctx=ast.Load()))
        body = [ast.Assign(targets=[ast.Name(id=tmp, ctx=ast.Store())], value=copy.deepcopy(c.elt)),
                ast.Expr(value=ast.Call(func=ast.Attribute(value=ast.Name(id=acc, ctx=ast.Load()), attr="append", ctx=ast.Load()), args=[ast.Name(id=tmp, ctx=ast.Load())], keywords=[]))]
        loop = ast.For(target=copy.deepcopy(g.target), iter=copy.deepcopy(g.iter), body=body, orelse=[])
        repl = ast.Name(id=acc, ctx=ast.Load()) if isinstance(c, ast.ListComp) else ast.Call(func=ast.Name(id="set", ctx=ast.Load()), args=[ast.Name(id=acc, ctx=ast.Load())], keywords=[])

        class R(ast.NodeTransformer):
            def visit(self, n):
                if n is c:
                    return repl
                return super().visit(n)

        new_st = copy.copy(st)
        new_st.value = R().visit(st.value)
        out = [init, loop, new_st]
        for o in out:
            ast.copy_location(o, st)
            ast.fix_missing_locations(o)
        self.log.append(f"{f.qualname}: comprehension over a helper call written as a loop at line {getattr(st, 'lineno', '?')}")
        return out

    PURE_CALLS = {"len", "list", "tuple", "sorted", "argsort", "asarray", "array", "str", "int", "float", "min", "max", "sum", "abs", "range", "enumerate", "zip", "set", "dict", "isinstance",
                  "reshape", "astype", "flatten", "ravel", "copy", "tolist", "round", "atleast_1d", "repeat", "exp", "log", "floor", "ceil", "minimum", "maximum"}

    def lift_call(self, f: FunctionInfo, st: ast.stmt) -> Optional[List[ast.stmt]]:
        """`x = helper(a, b)[1:]` / `order = numpy.argsort(helper(..))`: a call of a new helper nested inside the expression of a
        simple statement is bound to a temporary first (tmp = helper(a, b); x = tmp[1:]), so that it can be expanded like a
        statement-level call. Only where nothing else in the statement can have an effect or raise before the call is
        evaluated in a way that matters: the rest of the expression consists of names, constants, attribute / subscript
        loads and calls of pure builtins."""
        if not isinstance(st, (ast.Assign, ast.AnnAssign, ast.Return, ast.Expr, ast.AugAssign)) or getattr(st, "value", None) is None:
            return None
        root = st.value
        if isinstance(root, ast.Call) and _resolve_helper(self.prog, f, root, self.known) is not None:
            return None  # statement-level call: expand_statement
        target_call = None
        parents = {}
        for p_ in ast.walk(root):
            for ch in ast.iter_child_nodes(p_):
                parents[id(ch)] = p_
        for n in ast.walk(root):
            if isinstance(n, ast.Call) and n is not root and _resolve_helper(self.prog, f, n, self.known) is not None:
                # not under a construct that evaluates it conditionally or repeatedly
                q, ok = n, True
                while id(q) in parents:
                    q = parents[id(q)]
                    if isinstance(q, (ast.IfExp, ast.BoolOp, ast.Lambda, ast.ListComp, ast.SetComp, ast.DictComp, ast.GeneratorExp)):
                        ok = False
                if ok:
                    target_call = n
                    break
        if target_call is None:
            return None
        for n in ast.walk(root):
            if isinstance(n, ast.Call) and n is not target_call:
                nm = n.func.id if isinstance(n.func, ast.Name) else n.func.attr if isinstance(n.func, ast.Attribute) else None
                inside = any(x is n for x in ast.walk(target_call))
                if not inside and n is root and isinstance(st, ast.Expr) and any(a is target_call for a in n.args) and not n.keywords \
                        and all(a is target_call or isinstance(a, (ast.Name, ast.Constant)) for a in n.args) \
                        and isinstance(n.func, ast.Attribute) and isinstance(n.func.value, ast.Name):
                    continue  # `obj.method(helper(..))` as a statement: the helper call is evaluated before anything with an effect happens
                if not inside and nm not in self.PURE_CALLS:
                    return None
            if isinstance(n, (ast.Await, ast.Yield, ast.YieldFrom, ast.NamedExpr)):
                return None
        self.counter += 1
        tmp = f"tmp__l{self.counter}"
        asg = ast.Assign(targets=[ast.Name(id=tmp, ctx=ast.Store())], value=target_call)

        class R(ast.NodeTransformer):
            def visit(self, n):
                if n is target_call:
                    return ast.Name(id=tmp, ctx=ast.Load())
                return super().visit(n)

        new_st = copy.copy(st)
        new_st.value = R().visit(st.value)
        for o in (asg, new_st):
            ast.copy_location(o, st)
            ast.fix_missing_locations(o)
        self.log.append(f"{f.qualname}: nested helper call bound to a temporary at line {getattr(st, 'lineno', '?')}")
        return [asg, new_st]

    def expand_block(self, f: FunctionInfo, stmts: List[ast.stmt]) -> bool:
        changed = False
        i = 0
        while i < len(stmts):
            st = stmts[i]
            rep = self.lift_call(f, st)
            if rep is not None:
                stmts[i:i + 1] = rep
                changed = True
                continue
            rep = self.comp_to_loop(f, st)
            if rep is not None:
                stmts[i:i + 1] = rep
                changed = True
                continue
            rep = self.unroll(f, st)
            if rep is not None:
                stmts[i:i + 1] = rep
                changed = True
                continue
            rep = self.expand_statement(f, st)
            if rep is not None:
                stmts[i:i + 1] = rep
                changed = True
                i += len(rep)
                continue
            for fld in ("body", "orelse", "finalbody"):
                sub = getattr(st, fld, None)
                if isinstance(sub, list) and sub and isinstance(sub[0], ast.stmt) and not isinstance(st, (ast.FunctionDef, ast.AsyncFunctionDef, ast.ClassDef)):
                    changed |= self.expand_block(f, sub)
            for h in getattr(st, "handlers", []) or []:
                changed |= self.expand_block(f, h.body)
            for c in getattr(st, "cases", []) or []:
                changed |= self.expand_block(f, c.body)
            i += 1
        return changed

    def expand_predicates(self, f: FunctionInfo) -> bool:
        """`if not is_valid(x): raise ...` with a new, pure predicate helper: the call is replaced by the predicate's boolean
        expression over the arguments (only inside the tests of if / while / assert statements)."""
        inl = self
        changed = [False]

        class T(ast.NodeTransformer):
            def visit_Call(self, c: ast.Call):
                self.generic_visit(c)
                r = _resolve_helper(inl.prog, f, c, inl.known)
                if r is None:
                    return c
                g, recv = r
                if g.node.args.kwarg is not None or not all(_simple_arg(a) for a in c.args) or not all(_simple_arg(k.value) for k in c.keywords):
                    return c
                binding = _bind(g, c, recv)
                if binding is None:
                    return c
                body = list(g.node.body)
                if body and isinstance(body[0], ast.Expr) and isinstance(body[0].value, ast.Constant) and isinstance(body[0].value.value, str):
                    body = body[1:]
                comp_locals = set()
                for st_ in body:
                    for x_ in ast.walk(st_):
                        if isinstance(x_, ast.comprehension):
                            comp_locals |= {y_.id for y_ in ast.walk(x_.target) if isinstance(y_, ast.Name)}
                if _stored_names(body) - comp_locals:
                    return c  # locals: not a pure expression
                if comp_locals & (set(binding) | {y_.id for a_ in list(c.args) + [k_.value for k_ in c.keywords] for y_ in ast.walk(a_) if isinstance(y_, ast.Name)}):
                    return c  # a comprehension variable would capture an argument name
                try:
                    expr = _predicate_expr(body)
                except NotEligible:
                    return c
                if not _free_names_agree(inl.prog, g, f, set(binding) | comp_locals):
                    return c
                new = _Rename(dict(binding)).visit(expr)  # type: ignore[arg-type]
                ast.copy_location(new, c)
                for x in ast.walk(new):
                    if not hasattr(x, "lineno"):
                        ast.copy_location(x, c)
                ast.fix_missing_locations(new)
                inl.expanded[g.qualname] = inl.expanded.get(g.qualname, 0) + 1
                inl.log.append(f"{f.qualname}: expanded predicate {g.short} at line {getattr(c, 'lineno', '?')}")
                changed[0] = True
                return new

        for n in _own_nodes(f.node):
            if isinstance(n, (ast.If, ast.While, ast.Assert, ast.IfExp)):
                n.test = T().visit(n.test)
        return changed[0]

    def joins_to_fstrings(self, f: FunctionInfo) -> bool:
        """`";".join([a, b, c])` / `";".join(f"{x}" for x in fields)` with a literal list of fields (possibly bound to a local
        that is defined once and never modified) is the f-string f"{a};{b};{c}": records built field by field are brought to
        the template form the rules read."""
        fn = f.node
        single_defs: Dict[str, List[ast.AST]] = {}
        mutated: Set[str] = set()
        for n in _own_nodes(fn):
            if isinstance(n, ast.Assign) and len(n.targets) == 1 and isinstance(n.targets[0], ast.Name):
                single_defs.setdefault(n.targets[0].id, []).append(n.value)
            elif isinstance(n, (ast.AugAssign, ast.AnnAssign)) and isinstance(n.target, ast.Name):
                single_defs.setdefault(n.target.id, []).append(None)
            elif isinstance(n, ast.Call) and isinstance(n.func, ast.Attribute) and isinstance(n.func.value, ast.Name) and n.func.attr in ("append", "extend", "insert", "pop", "remove", "clear", "sort", "reverse"):
                mutated.add(n.func.value.id)
            elif isinstance(n, ast.Subscript) and isinstance(n.ctx, (ast.Store, ast.Del)) and isinstance(n.value, ast.Name):
                mutated.add(n.value.id)
            elif isinstance(n, (ast.For, ast.comprehension)):
                for x in ast.walk(n.target):
                    if isinstance(x, ast.Name):
                        single_defs.setdefault(x.id, []).append(None)

        def literal(e) -> Optional[List[ast.AST]]:
            if isinstance(e, (ast.List, ast.Tuple)) and not any(isinstance(x, ast.Starred) for x in e.elts):
                return list(e.elts)
            if isinstance(e, ast.Name) and e.id not in mutated and len(single_defs.get(e.id, [])) == 1 and single_defs[e.id][0] is not None and e.id not in f.params:
                return literal(single_defs[e.id][0])
            return None

        def fields_of(arg) -> Optional[List[ast.AST]]:
            lit = literal(arg)
            if lit is not None:
                return lit
            if isinstance(arg, (ast.ListComp, ast.GeneratorExp)) and len(arg.generators) == 1 and not arg.generators[0].ifs and isinstance(arg.generators[0].target, ast.Name):
                v = arg.generators[0].target.id
                elt = arg.elt
                plain = isinstance(elt, ast.Name) and elt.id == v
                as_str = isinstance(elt, ast.Call) and isinstance(elt.func, ast.Name) and elt.func.id in ("str", "format") and len(elt.args) == 1 and isinstance(elt.args[0], ast.Name) and elt.args[0].id == v and not elt.keywords
                as_f = isinstance(elt, ast.JoinedStr) and len(elt.values) == 1 and isinstance(elt.values[0], ast.FormattedValue) and isinstance(elt.values[0].value, ast.Name) and elt.values[0].value.id == v \
                    and elt.values[0].format_spec is None and elt.values[0].conversion == -1
                if plain or as_str or as_f:
                    return literal(arg.generators[0].iter)
            if isinstance(arg, ast.Call) and isinstance(arg.func, ast.Name) and arg.func.id == "map" and len(arg.args) == 2 and isinstance(arg.args[0], ast.Name) and arg.args[0].id == "str":
                return literal(arg.args[1])
            return None

        changed = [False]

        class T(ast.NodeTransformer):
            def visit_FunctionDef(self, n):
                if n is fn:
                    self.generic_visit(n)
                return n

            def visit_Lambda(self, n):
                return n

            def visit_Call(self, c: ast.Call):
                self.generic_visit(c)
                if isinstance(c.func, ast.Attribute) and c.func.attr == "join" and isinstance(c.func.value, ast.Constant) and isinstance(c.func.value.value, str) and len(c.args) == 1 and not c.keywords:
                    flds = fields_of(c.args[0])
                    if flds is not None and 1 <= len(flds) <= 40:
                        sep = c.func.value.value
                        values: List[ast.AST] = []
                        for i_, e_ in enumerate(flds):
                            if i_ and sep:
                                values.append(ast.Constant(value=sep))
                            if isinstance(e_, ast.Constant) and isinstance(e_.value, str):
                                values.append(ast.Constant(value=e_.value))
                            elif isinstance(e_, ast.JoinedStr):
                                values += [copy.deepcopy(v_) for v_ in e_.values]
                            else:
                                values.append(ast.FormattedValue(value=copy.deepcopy(e_), conversion=-1, format_spec=None))
                        merged: List[ast.AST] = []
                        for v_ in values:
                            if isinstance(v_, ast.Constant) and merged and isinstance(merged[-1], ast.Constant):
                                merged[-1] = ast.Constant(value=merged[-1].value + v_.value)
                            else:
                                merged.append(v_)
                        changed[0] = True
                        js = ast.JoinedStr(values=merged)
                        ast.copy_location(js, c)
                        ast.fix_missing_locations(js)
                        return js
                return c

        T().visit(fn)
        if changed[0]:
            self.log.append(f"{f.qualname}: str.join over a literal field list written as an f-string")
        return changed[0]

    def expand_selectors(self, f: FunctionInfo) -> bool:
        """A call of a new helper that only selects between expressions (`if c: return a` ... `return b`, no other statement,
        no raise) is replaced by the conditional expression it computes - wherever it stands, also inside comprehensions.
        Arguments must be plain names / constants / attribute loads (they may be duplicated)."""
        inl = self
        changed = [False]
        # calls that are the whole value of a statement are expanded as statements (expand_statement keeps the if/else shape)
        direct = {id(n.value) for n in _own_nodes(f.node) if isinstance(n, (ast.Assign, ast.AnnAssign, ast.Return, ast.Expr)) and isinstance(getattr(n, "value", None), ast.Call)}

        class T(ast.NodeTransformer):
            def visit_FunctionDef(self, n):
                if n is f.node:
                    self.generic_visit(n)
                return n

            def visit_Lambda(self, n):
                return n

            def visit_Call(self, c: ast.Call):
                self.generic_visit(c)
                if id(c) in direct:
                    return c
                r = _resolve_helper(inl.prog, f, c, inl.known)
                if r is None:
                    return c
                g, recv = r
                if g.node.args.kwarg is not None or g.node.args.vararg is not None or not all(_simple_arg(a) for a in c.args) or not all(k.arg and _simple_arg(k.value) for k in c.keywords):
                    return c
                body = list(g.node.body)
                if body and isinstance(body[0], ast.Expr) and isinstance(body[0].value, ast.Constant) and isinstance(body[0].value.value, str):
                    body = body[1:]
                # (a one-line predicate stays a call: the guards it stands in are read through it by expand_predicates / the resolver)
                oneliner = len(body) == 1 and isinstance(body[0], ast.Return) and body[0].value is not None \
                    and not isinstance(body[0].value, (ast.BoolOp, ast.Compare)) and not (isinstance(body[0].value, ast.UnaryOp) and isinstance(body[0].value.op, ast.Not)) \
                    and not any(isinstance(x, (ast.Lambda, ast.NamedExpr, ast.Yield, ast.YieldFrom, ast.Await, ast.ListComp, ast.SetComp, ast.DictComp, ast.GeneratorExp)) for x in ast.walk(body[0].value))
                if (not oneliner and not any(isinstance(x, ast.If) for x in body)) or _stored_names(body):
                    return c
                boolean = any(isinstance(x, ast.Return) and isinstance(x.value, ast.Constant) and isinstance(x.value.value, bool) for s_ in body for x in [s_] + list(_own_nodes(s_)))
                try:
                    # a predicate (some path returns a literal True / False) is written with and / or / not, so that the guards
                    # it stands in keep their canonical form
                    expr = _predicate_expr(body) if boolean else _value_expr(body)
                except NotEligible:
                    return c
                binding = _bind(g, c, recv)
                if binding is None or any(isinstance(v, (_ExplicitKwargs, _VarArgs)) for v in binding.values()):
                    return c
                if not _free_names_agree(inl.prog, g, f, set(binding)):
                    return c
                new = _Rename(dict(binding)).visit(expr)  # type: ignore[arg-type]
                ast.copy_location(new, c)
                for x in ast.walk(new):
                    if not hasattr(x, "lineno"):
                        ast.copy_location(x, c)
                ast.fix_missing_locations(new)
                inl.expanded[g.qualname] = inl.expanded.get(g.qualname, 0) + 1
                inl.log.append(f"{f.qualname}: selector {g.short} replaced by its conditional expression at line {getattr(c, 'lineno', '?')}")
                changed[0] = True
                return new

        T().visit(f.node)
        return changed[0]

    def sorts_to_sorted(self, f: FunctionInfo) -> bool:
        """`x.sort()` on a local list that no other name refers to  ->  `x = sorted(x)`"""
        fn = f.node
        aliased: Set[str] = set()
        for n in _own_nodes(fn):
            if isinstance(n, ast.Assign) and isinstance(n.value, ast.Name):
                aliased.add(n.value.id)
            if isinstance(n, ast.Attribute) and isinstance(n.ctx, ast.Store) and False:
                pass
        changed = False

        def walk(stmts: List[ast.stmt]) -> None:
            nonlocal changed
            for i, st in enumerate(stmts):
                if isinstance(st, ast.Expr) and isinstance(st.value, ast.Call) and isinstance(st.value.func, ast.Attribute) and st.value.func.attr == "sort" and not st.value.args \
                        and isinstance(st.value.func.value, ast.Name) and st.value.func.value.id not in f.params and st.value.func.value.id not in aliased \
                        and all(k.arg in ("key", "reverse") for k in st.value.keywords):
                    nm = st.value.func.value.id
                    new = ast.Assign(targets=[ast.Name(id=nm, ctx=ast.Store())],
                                     value=ast.Call(func=ast.Name(id="sorted", ctx=ast.Load()), args=[ast.Name(id=nm, ctx=ast.Load())], keywords=list(st.value.keywords)))
                    ast.copy_location(new, st)
                    ast.fix_missing_locations(new)
                    stmts[i] = new
                    changed = True
                    continue
                for fld in ("body", "orelse", "finalbody"):
                    sub = getattr(st, fld, None)
                    if isinstance(sub, list) and sub and isinstance(sub[0], ast.stmt) and not isinstance(st, (ast.FunctionDef, ast.AsyncFunctionDef, ast.ClassDef)):
                        walk(sub)
                for h in getattr(st, "handlers", []) or []:
                    walk(h.body)

        walk(fn.body)
        return changed

    def _tuple_arity(self, f: FunctionInfo, call: ast.Call) -> Optional[int]:
        """n when `call` is a call of a package function (or method on self) whose every return is an n-tuple display"""
        g = None
        if isinstance(call.func, ast.Name):
            r = self.prog.resolve_name(f.module, call.func.id)
            g = r if isinstance(r, FunctionInfo) and r.cls is None else None
        elif isinstance(call.func, ast.Attribute) and isinstance(call.func.value, ast.Name) and f.cls is not None and f.params and call.func.value.id == f.params[0]:
            g = self.prog.find_method(f.cls, call.func.attr)
        if g is None or any(isinstance(x, (ast.Yield, ast.YieldFrom)) for x in _own_nodes(g.node)):
            return None
        rets = [x for x in _own_nodes(g.node) if isinstance(x, ast.Return)]
        if not rets or _may_fall_through(list(g.node.body)):
            return None
        ns = {len(x.value.elts) if isinstance(x.value, ast.Tuple) and not any(isinstance(e, ast.Starred) for e in x.value.elts) else None for x in rets}
        return ns.pop() if len(ns) == 1 and None not in ns else None

    def numpy_idioms(self, f: FunctionInfo) -> bool:
        """Exactly equivalent spellings read as the one the rules know: `X.T.flatten()` / `X.T.ravel()` (C order of the
        transposed array, any number of dimensions) is `X.flatten("F")`; `list(itertools.repeat(x, n))` is `[x] * n`."""
        changed = False
        log, qn = self.log, f.qualname

        class R(ast.NodeTransformer):
            def visit_FunctionDef(self, n):
                return n if n is not f.node else self.generic_visit(n)

            visit_AsyncFunctionDef = visit_FunctionDef

            def visit_Lambda(self, n):
                return n

            def visit_ListComp(self, n):
                nonlocal changed
                self.generic_visit(n)
                # [f(v) for v in (a, b, c)] over a short display of names is [f(a), f(b), f(c)]
                if len(n.generators) == 1 and not n.generators[0].ifs and not n.generators[0].is_async and isinstance(n.generators[0].target, ast.Name) \
                        and isinstance(n.generators[0].iter, (ast.Tuple, ast.List)) and 1 <= len(n.generators[0].iter.elts) <= 6 \
                        and all(isinstance(e_, (ast.Name, ast.Constant, ast.Attribute)) for e_ in n.generators[0].iter.elts):
                    tv = n.generators[0].target.id
                    elts = [_Rename({tv: e_}).visit(copy.deepcopy(n.elt)) for e_ in n.generators[0].iter.elts]
                    changed = True
                    log.append(f"{qn}: comprehension over a display of {len(elts)} names written out at line {getattr(n, 'lineno', '?')}")
                    return ast.fix_missing_locations(ast.copy_location(ast.List(elts=elts, ctx=ast.Load()), n))
                # [x for _ in range(k)] with x a name / literal (the same object every time) is [x] * k
                if len(n.generators) == 1 and not n.generators[0].ifs and not n.generators[0].is_async and isinstance(n.generators[0].target, ast.Name) and isinstance(n.elt, (ast.Name, ast.Constant)) \
                        and not (isinstance(n.elt, ast.Name) and n.elt.id == n.generators[0].target.id):
                    it = n.generators[0].iter
                    if isinstance(it, ast.Call) and isinstance(it.func, ast.Name) and it.func.id == "range" and len(it.args) == 1 and not it.keywords:
                        changed = True
                        log.append(f"{qn}: `[x for _ in range(k)]` read as `[x] * k` at line {getattr(n, 'lineno', '?')}")
                        new = ast.BinOp(left=ast.List(elts=[n.elt], ctx=ast.Load()), op=ast.Mult(), right=it.args[0])
                        return ast.fix_missing_locations(ast.copy_location(new, n))
                return n

            def visit_Call(self, n):
                nonlocal changed
                self.generic_visit(n)
                fn = n.func
                if isinstance(fn, ast.Attribute) and fn.attr in ("flatten", "ravel") and not n.args and not n.keywords and isinstance(fn.value, ast.Attribute) and fn.value.attr == "T":
                    changed = True
                    log.append(f"{qn}: `.T.{fn.attr}()` read as `.{fn.attr}('F')` at line {getattr(n, 'lineno', '?')}")
                    new = ast.Call(func=ast.Attribute(value=fn.value.value, attr=fn.attr, ctx=ast.Load()), args=[ast.Constant(value="F")], keywords=[])
                    return ast.fix_missing_locations(ast.copy_location(new, n))
                if isinstance(fn, ast.Attribute) and fn.attr == "ravel" and isinstance(fn.value, ast.Call) and ast.unparse(fn.value.func) in ("numpy.array", "np.array") \
                        and len(n.args) + len(n.keywords) <= 1 and all(k.arg == "order" for k in n.keywords):
                    # ravel of a fresh copy (numpy.array(..) always copies) is flatten
                    order = [k.value for k in n.keywords] + list(n.args)
                    changed = True
                    log.append(f"{qn}: `numpy.array(..).ravel(..)` read as `.flatten(..)` at line {getattr(n, 'lineno', '?')}")
                    new = ast.Call(func=ast.Attribute(value=fn.value, attr="flatten", ctx=ast.Load()), args=order, keywords=[])
                    return ast.fix_missing_locations(ast.copy_location(new, n))
                if isinstance(fn, ast.Name) and fn.id == "list" and len(n.args) == 1 and not n.keywords and isinstance(n.args[0], ast.Call) and not n.args[0].keywords and len(n.args[0].args) == 2 \
                        and ast.unparse(n.args[0].func) in ("itertools.repeat", "repeat") and "repeat" not in f.params:
                    x, k = n.args[0].args
                    changed = True
                    log.append(f"{qn}: `list(itertools.repeat(x, n))` read as `[x] * n` at line {getattr(n, 'lineno', '?')}")
                    new = ast.BinOp(left=ast.List(elts=[x], ctx=ast.Load()), op=ast.Mult(), right=k)
                    return ast.fix_missing_locations(ast.copy_location(new, n))
                return n

        for st in f.node.body:
            R().visit(st)
        return changed

    def partial_attrs(self, f: FunctionInfo) -> bool:
        """`self.X(a, b)` where the constructor binds `self.X = functools.partial(G, k=v)` once (and nothing else stores X)
        ->  `G(a, b, k=<v>)`: literals are passed as they are; any other value is the one the *constructor* saw, written as the
        synthetic attribute `self.X__bound_k` - it is not the live attribute the constructor argument was also stored in."""
        if f.cls is None or not f.params or any(isinstance(d, ast.Name) and d.id == "staticmethod" for d in f.node.decorator_list):
            return False
        selfn = f.params[0]
        changed = False
        for n in list(_own_nodes(f.node)):
            if not (isinstance(n, ast.Call) and isinstance(n.func, ast.Attribute) and isinstance(n.func.value, ast.Name) and n.func.value.id == selfn):
                continue
            X = n.func.attr
            if self.prog.find_method(f.cls, X) is not None:
                continue
            stores = []
            for g in self.prog.all_functions(include_inlined=True):
                for m in _own_nodes(g.node):
                    if isinstance(m, ast.Attribute) and m.attr == X and isinstance(m.ctx, (ast.Store, ast.Del)):
                        stores.append((g, m))
            if len(stores) != 1 or stores[0][0].name != "__init__" or stores[0][0].cls is None or stores[0][0].cls not in self.prog.mro(f.cls):
                continue
            init = stores[0][0]
            asg = next((m for m in _own_nodes(init.node) if isinstance(m, ast.Assign) and len(m.targets) == 1 and m.targets[0] is stores[0][1]), None)
            v = asg.value if asg is not None else None
            if not (isinstance(v, ast.Call) and ast.unparse(v.func) in ("functools.partial", "partial") and v.args and isinstance(v.args[0], ast.Name) and len(v.args) == 1
                    and all(k.arg is not None for k in v.keywords)):
                continue
            target = self.prog.resolve_name(init.module, v.args[0].id)
            if not isinstance(target, FunctionInfo) or target.cls is not None:
                continue
            if any(k.arg in {kk.arg for kk in v.keywords} for k in n.keywords if k.arg):
                continue  # the call overrides a bound keyword: leave it alone
            name = v.args[0].id
            there = self.prog.resolve_name(f.module, name)
            if there is not target:
                if there is not None or name in f.module.assigns:
                    continue
                f.module.imports[name] = f"{target.module.name}.{target.name}"
            extra = []
            for k in v.keywords:
                val = copy.deepcopy(k.value) if isinstance(k.value, ast.Constant) else ast.Attribute(value=ast.Name(id=selfn, ctx=ast.Load()), attr=f"{X}__bound_{k.arg}", ctx=ast.Load())
                extra.append(ast.keyword(arg=k.arg, value=val))
            n.func = ast.copy_location(ast.Name(id=name, ctx=ast.Load()), n.func)
            n.keywords = list(n.keywords) + extra
            ast.fix_missing_locations(n)
            changed = True
            self.log.append(f"{f.qualname}: `self.{X}(..)` read as `{name}(.., <keywords bound by functools.partial in {init.qualname}>)` at line {getattr(n, 'lineno', '?')}")
        return changed

    def concat_to_append(self, f: FunctionInfo) -> bool:
        """final statement `return L + [e]` with L a fresh local list (bound once, never aliased)  ->  `L.append(e); return L`
        (the list object dies with the call either way; the returned value is the same list of elements)"""
        body = f.node.body
        if not body or not isinstance(body[-1], ast.Return):
            return False
        v = body[-1].value
        if not (isinstance(v, ast.BinOp) and isinstance(v.op, ast.Add) and isinstance(v.left, ast.Name) and isinstance(v.right, ast.List) and len(v.right.elts) == 1
                and not isinstance(v.right.elts[0], ast.Starred)):
            return False
        L = v.left.id
        if L in f.params:
            return False
        parents: Dict[int, ast.AST] = {}
        for p_ in ast.walk(f.node):
            for ch in ast.iter_child_nodes(p_):
                parents[id(ch)] = p_
        occ = [n for n in _own_nodes(f.node) if isinstance(n, ast.Name) and n.id == L]
        stores = [n for n in occ if isinstance(n.ctx, ast.Store)]
        if len(stores) != 1:
            return False
        d = parents.get(id(stores[0]))
        val = d.value if isinstance(d, ast.Assign) and len(d.targets) == 1 and d.targets[0] is stores[0] else d.value if isinstance(d, ast.AnnAssign) and d.target is stores[0] else None
        fresh = isinstance(val, (ast.List, ast.ListComp)) or (isinstance(val, ast.BinOp) and isinstance(val.op, ast.Mult) and (isinstance(val.left, ast.List) or isinstance(val.right, ast.List))) \
            or (isinstance(val, ast.Call) and isinstance(val.func, ast.Name) and val.func.id == "list")
        if not fresh or d not in body:
            return False
        for n in occ:
            par = parents.get(id(n))
            if isinstance(n.ctx, ast.Load) and isinstance(par, (ast.Assign, ast.AnnAssign, ast.Return, ast.Tuple, ast.List, ast.Dict, ast.keyword)) and n is not v.left:
                return False  # another name / container may keep the list alive
        app = ast.Expr(value=ast.Call(func=ast.Attribute(value=ast.Name(id=L, ctx=ast.Load()), attr="append", ctx=ast.Load()), args=[v.right.elts[0]], keywords=[]))
        ret = ast.Return(value=ast.Name(id=L, ctx=ast.Load()))
        for o in (app, ret):
            ast.fix_missing_locations(ast.copy_location(o, body[-1]))
        body[-1:] = [app, ret]
        self.log.append(f"{f.qualname}: `return {L} + [..]` read as append-and-return at line {getattr(ret, 'lineno', '?')}")
        return True

    def inline_raise_temps(self, f: FunctionInfo) -> bool:
        """`t = <expression>; raise E(f".. {t} ..")` where t is read only by that raise statement  ->  the raise with the expression in
        place (the block ends in the raise either way; the temporaries only prepare its message)"""
        fn = f.node
        changed = False
        loads: Dict[str, int] = {}
        stores: Dict[str, int] = {}
        for n in _own_nodes(fn):
            if isinstance(n, ast.Name):
                d = loads if isinstance(n.ctx, ast.Load) else stores
                d[n.id] = d.get(n.id, 0) + 1

        def walk(stmts: List[ast.stmt]) -> None:
            nonlocal changed
            while len(stmts) >= 2 and isinstance(stmts[-1], ast.Raise) and isinstance(stmts[-2], ast.Assign) and len(stmts[-2].targets) == 1 and isinstance(stmts[-2].targets[0], ast.Name):
                t = stmts[-2].targets[0].id
                in_raise = sum(1 for x in ast.walk(stmts[-1]) if isinstance(x, ast.Name) and x.id == t and isinstance(x.ctx, ast.Load))
                if t in f.params or stores.get(t, 0) != 1 or in_raise == 0 or loads.get(t, 0) != in_raise or any(isinstance(x, (ast.Await, ast.Yield, ast.YieldFrom, ast.NamedExpr)) for x in ast.walk(stmts[-2].value)):
                    break
                stmts[-1] = _Rename({t: stmts[-2].value}).visit(stmts[-1])
                ast.fix_missing_locations(stmts[-1])
                del stmts[-2]
                changed = True
                self.log.append(f"{f.qualname}: temporary `{t}` of a raise statement written in place at line {getattr(stmts[-1], 'lineno', '?')}")
            for st in stmts:
                for fld in ("body", "orelse", "finalbody"):
                    sub = getattr(st, fld, None)
                    if isinstance(sub, list) and sub and isinstance(sub[0], ast.stmt) and not isinstance(st, (ast.FunctionDef, ast.AsyncFunctionDef, ast.ClassDef)):
                        walk(sub)
                for h in getattr(st, "handlers", []) or []:
                    walk(h.body)

        walk(fn.body)
        return changed

    def index_loops_to_zip(self, f: FunctionInfo) -> bool:
        """`for i in range(len(A)): .. A[i] .. B[i] ..` where i is used only as the index of the local sequences A and B, and B is
        bound once to something exactly as long as A (`rng.permutation(A)`, `sorted(A)`, `list(A)`, `numpy.array(A)`)
        ->  `for a, b in zip(A, B): .. a .. b ..`"""
        fn = f.node
        SAME_LEN = {"permutation", "sorted", "list", "tuple", "array", "asarray", "copy"}
        stores: Dict[str, List[ast.AST]] = {}
        parents: Dict[int, ast.AST] = {}
        for p_ in ast.walk(fn):
            for ch in ast.iter_child_nodes(p_):
                parents[id(ch)] = p_
        for n in _own_nodes(fn):
            if isinstance(n, ast.Name) and isinstance(n.ctx, ast.Store):
                stores.setdefault(n.id, []).append(n)
        changed = False

        def same_length(b: str, a: str, loop: ast.For) -> bool:
            if b == a:
                return True
            sts = stores.get(b, [])
            inside = [s_ for s_ in sts if any(s_ is x for x in ast.walk(loop))]
            if inside:
                return False
            # the binding that reaches the loop: the last one before it in the same block, or the only one
            cands = [parents.get(id(s_)) for s_ in sts]
            cands = [c for c in cands if isinstance(c, ast.Assign) and len(c.targets) == 1 and isinstance(c.targets[0], ast.Name)]
            if len(cands) != len(sts) or not cands:
                return False
            blk = parents.get(id(loop))
            body_lists = [getattr(blk, fld) for fld in ("body", "orelse", "finalbody") if isinstance(getattr(blk, fld, None), list)]
            for lst in body_lists:
                if loop in lst:
                    before = [c for c in cands if c in lst and lst.index(c) < lst.index(loop)]
                    if not before:
                        return False
                    v = before[-1].value
                    if isinstance(v, ast.Call) and (v.func.attr if isinstance(v.func, ast.Attribute) else getattr(v.func, "id", None)) in SAME_LEN and len(v.args) == 1 \
                            and isinstance(v.args[0], ast.Name) and v.args[0].id == a:
                        # nothing rebinds A between that statement and the loop
                        i0, i1 = lst.index(before[-1]), lst.index(loop)
                        return not any(isinstance(x, ast.Name) and isinstance(x.ctx, ast.Store) and x.id in (a, b) for st_ in lst[i0 + 1:i1] for x in ast.walk(st_))
            return False

        def walk(stmts: List[ast.stmt]) -> None:
            nonlocal changed
            for i, st in enumerate(stmts):
                if isinstance(st, ast.For) and not st.orelse and isinstance(st.target, ast.Name) and isinstance(st.iter, ast.Call) and isinstance(st.iter.func, ast.Name) and st.iter.func.id == "range" \
                        and len(st.iter.args) == 1 and isinstance(st.iter.args[0], ast.Call) and isinstance(st.iter.args[0].func, ast.Name) and st.iter.args[0].func.id == "len" \
                        and len(st.iter.args[0].args) == 1 and isinstance(st.iter.args[0].args[0], ast.Name):
                    iv, a = st.target.id, st.iter.args[0].args[0].id
                    uses = [n for b_ in st.body for n in ast.walk(b_) if isinstance(n, ast.Name) and n.id == iv]
                    seqs: List[str] = []
                    ok = bool(uses) and a not in f.params or bool(uses)
                    for u in uses:
                        par = parents.get(id(u))
                        if isinstance(u.ctx, ast.Load) and isinstance(par, ast.Subscript) and par.slice is u and isinstance(par.ctx, ast.Load) and isinstance(par.value, ast.Name):
                            if par.value.id not in seqs:
                                seqs.append(par.value.id)
                        else:
                            ok = False
                    after = [n for n in _own_nodes(fn) if isinstance(n, ast.Name) and n.id == iv and isinstance(n.ctx, ast.Load) and not any(n is x for x in ast.walk(st))]
                    stored_in_body = {x.id for b_ in st.body for x in ast.walk(b_) if isinstance(x, ast.Name) and isinstance(x.ctx, ast.Store)}
                    if ok and seqs and a in seqs and not after and not (set(seqs) & stored_in_body) and all(same_length(b, a, st) for b in seqs) and len(seqs) <= 4:
                        seqs = [a] + [q for q in seqs if q != a]  # the sequence that bounds the loop first
                        names = {q: f"{q}__z{getattr(st, 'lineno', 0)}" for q in seqs}

                        class R(ast.NodeTransformer):
                            def visit_Subscript(self, n):
                                if isinstance(n.value, ast.Name) and n.value.id in names and isinstance(n.slice, ast.Name) and n.slice.id == iv and isinstance(n.ctx, ast.Load):
                                    return ast.copy_location(ast.Name(id=names[n.value.id], ctx=ast.Load()), n)
                                return self.generic_visit(n)

                        st.body = [R().visit(b_) for b_ in st.body]
                        if len(seqs) == 1:
                            st.target = ast.Name(id=names[seqs[0]], ctx=ast.Store())
                            st.iter = ast.Name(id=seqs[0], ctx=ast.Load())
                        else:
                            st.target = ast.Tuple(elts=[ast.Name(id=names[q], ctx=ast.Store()) for q in seqs], ctx=ast.Store())
                            st.iter = ast.Call(func=ast.Name(id="zip", ctx=ast.Load()), args=[ast.Name(id=q, ctx=ast.Load()) for q in seqs], keywords=[])
                        ast.fix_missing_locations(st)
                        changed = True
                        self.log.append(f"{f.qualname}: index loop over {seqs} written as a loop over their elements at line {getattr(st, 'lineno', '?')}")
                for fld in ("body", "orelse", "finalbody"):
                    sub = getattr(st, fld, None)
                    if isinstance(sub, list) and sub and isinstance(sub[0], ast.stmt) and not isinstance(st, (ast.FunctionDef, ast.AsyncFunctionDef, ast.ClassDef)):
                        walk(sub)
                for h in getattr(st, "handlers", []) or []:
                    walk(h.body)

        walk(fn.body)
        return changed

    def merge_conditional_comprehensions(self, f: FunctionInfo) -> bool:
        """`if C: x = [A for v in S]` / `else: x = [B for w in S]` (also the two-return form) with a loop-invariant, effect-free
        test C (a name or attribute)  ->  `x = [A if C else B for v in S]`"""
        changed = False

        def simple_comp(e):
            return isinstance(e, ast.ListComp) and len(e.generators) == 1 and not e.generators[0].ifs and not e.generators[0].is_async and isinstance(e.generators[0].target, ast.Name)

        def invariant(test, comps):
            if not all(isinstance(n, (ast.Name, ast.Attribute, ast.Load, ast.UnaryOp, ast.Not)) for n in ast.walk(test)):
                return False
            tn = {n.id for n in ast.walk(test) if isinstance(n, ast.Name)}
            return not any(c.generators[0].target.id in tn for c in comps)

        def merged(test, a, b):
            if not (simple_comp(a) and simple_comp(b) and ast.dump(a.generators[0].iter) == ast.dump(b.generators[0].iter) and invariant(test, (a, b))):
                return None
            va, vb = a.generators[0].target.id, b.generators[0].target.id
            eb = _Rename({vb: ast.Name(id=va, ctx=ast.Load())}).visit(copy.deepcopy(b.elt)) if va != vb else copy.deepcopy(b.elt)
            if va != vb and any(isinstance(n, ast.Name) and n.id == va for n in ast.walk(b.elt)):
                return None
            new = ast.ListComp(elt=ast.IfExp(test=copy.deepcopy(test), body=copy.deepcopy(a.elt), orelse=eb), generators=[copy.deepcopy(a.generators[0])])
            return new

        def walk(stmts: List[ast.stmt]) -> None:
            nonlocal changed
            i = 0
            while i < len(stmts):
                st = stmts[i]
                if isinstance(st, ast.If):
                    # assignment form
                    if len(st.body) == 1 and len(st.orelse) == 1 and all(isinstance(x, ast.Assign) and len(x.targets) == 1 and isinstance(x.targets[0], ast.Name) for x in (st.body[0], st.orelse[0])) \
                            and st.body[0].targets[0].id == st.orelse[0].targets[0].id:
                        m = merged(st.test, st.body[0].value, st.orelse[0].value)
                        if m is not None:
                            new = ast.Assign(targets=[ast.Name(id=st.body[0].targets[0].id, ctx=ast.Store())], value=m)
                            stmts[i] = ast.fix_missing_locations(ast.copy_location(new, st))
                            changed = True
                            self.log.append(f"{f.qualname}: conditional between two comprehensions over the same sequence moved into the element at line {getattr(st, 'lineno', '?')}")
                            continue
                    # return form: if C: return [..]   (else:) return [..]
                    nxt = stmts[i + 1] if i + 1 < len(stmts) else None
                    other = st.orelse[0] if len(st.orelse) == 1 else nxt if not st.orelse else None
                    if len(st.body) == 1 and isinstance(st.body[0], ast.Return) and isinstance(other, ast.Return) and st.body[0].value is not None and other.value is not None:
                        m = merged(st.test, st.body[0].value, other.value)
                        if m is not None:
                            new = ast.fix_missing_locations(ast.copy_location(ast.Return(value=m), st))
                            if st.orelse:
                                stmts[i] = new
                            else:
                                stmts[i:i + 2] = [new]
                            changed = True
                            self.log.append(f"{f.qualname}: conditional between two returned comprehensions over the same sequence moved into the element at line {getattr(st, 'lineno', '?')}")
                            continue
                for fld in ("body", "orelse", "finalbody"):
                    sub = getattr(st, fld, None)
                    if isinstance(sub, list) and sub and isinstance(sub[0], ast.stmt) and not isinstance(st, (ast.FunctionDef, ast.AsyncFunctionDef, ast.ClassDef)):
                        walk(sub)
                for h in getattr(st, "handlers", []) or []:
                    walk(h.body)
                i += 1

        walk(f.node.body)
        return changed

    def result_components(self, f: FunctionInfo) -> bool:
        """`x = g(..)` with g returning n-tuples and x used only as `x[<constant>]`  ->  `x__0, .., x__n-1 = g(..)` and `x__k`"""
        fn = f.node
        parents: Dict[int, ast.AST] = {}
        for p_ in ast.walk(fn):
            for ch in ast.iter_child_nodes(p_):
                parents[id(ch)] = p_
        by_name: Dict[str, List[ast.Name]] = {}
        for n in _own_nodes(fn):
            if isinstance(n, ast.Name):
                by_name.setdefault(n.id, []).append(n)
        changed = False
        for name, occ in sorted(by_name.items()):
            if name in f.params or "__" in name and name.rsplit("__", 1)[1].isdigit():
                continue
            stores = [n for n in occ if isinstance(n.ctx, ast.Store)]
            if len(stores) != 1:
                continue
            d = parents.get(id(stores[0]))
            if not (isinstance(d, ast.Assign) and len(d.targets) == 1 and d.targets[0] is stores[0] and isinstance(d.value, ast.Call)):
                continue
            k = self._tuple_arity(f, d.value)
            if k is None:
                continue
            uses = [n for n in occ if isinstance(n.ctx, ast.Load)]
            subs = []
            for u in uses:
                par = parents.get(id(u))
                if isinstance(par, ast.Subscript) and par.value is u and isinstance(par.ctx, ast.Load) and isinstance(par.slice, ast.Constant) and isinstance(par.slice.value, int) \
                        and not isinstance(par.slice.value, bool) and 0 <= par.slice.value < k:
                    subs.append(par)
                else:
                    subs = None
                    break
            if not subs:
                continue
            ids = {id(x) for x in subs}

            class R(ast.NodeTransformer):
                def visit_Subscript(self, n):
                    if id(n) in ids:
                        return ast.copy_location(ast.Name(id=f"{name}__{n.slice.value}", ctx=ast.Load()), n)
                    return self.generic_visit(n)

            for st in fn.body:
                R().visit(st)
            d.targets = [ast.Tuple(elts=[ast.Name(id=f"{name}__{i}", ctx=ast.Store()) for i in range(k)], ctx=ast.Store())]
            ast.fix_missing_locations(d)
            changed = True
            self.log.append(f"{f.qualname}: `{name}` (a {k}-tuple result used by component only) written as an unpacking assignment")
        return changed

    def star_tuples(self, f: FunctionInfo) -> bool:
        """`g(a, *t)` where `t` is bound once, to the result of a package function whose every return is an n-tuple
        ->  `g(a, t[0], ..., t[n-1])`"""
        fn = f.node
        stores: Dict[str, List[ast.AST]] = {}
        for n in _own_nodes(fn):
            if isinstance(n, ast.Name) and isinstance(n.ctx, ast.Store):
                stores.setdefault(n.id, []).append(n)
        defs: Dict[str, ast.Call] = {}
        for n in _own_nodes(fn):
            if isinstance(n, ast.Assign) and len(n.targets) == 1 and isinstance(n.targets[0], ast.Name) and isinstance(n.value, ast.Call) and len(stores.get(n.targets[0].id, [])) == 1 \
                    and n.targets[0].id not in f.params:
                defs[n.targets[0].id] = n.value

        def arity(call: ast.Call) -> Optional[int]:
            return self._tuple_arity(f, call)

        def _unused(call: ast.Call) -> Optional[int]:
            g = None
            if isinstance(call.func, ast.Name):
                r = self.prog.resolve_name(f.module, call.func.id)
                g = r if isinstance(r, FunctionInfo) and r.cls is None else None
            elif isinstance(call.func, ast.Attribute) and isinstance(call.func.value, ast.Name) and f.cls is not None and f.params and call.func.value.id == f.params[0]:
                g = self.prog.find_method(f.cls, call.func.attr)
            if g is None or any(isinstance(x, (ast.Yield, ast.YieldFrom)) for x in _own_nodes(g.node)):
                return None
            rets = [x for x in _own_nodes(g.node) if isinstance(x, ast.Return)]
            if not rets or _may_fall_through(list(g.node.body)):
                return None
            ns = {len(x.value.elts) if isinstance(x.value, ast.Tuple) and not any(isinstance(e, ast.Starred) for e in x.value.elts) else None for x in rets}
            return ns.pop() if len(ns) == 1 and None not in ns else None

        changed = False
        for n in list(_own_nodes(fn)):
            if isinstance(n, ast.Call) and any(isinstance(a, ast.Starred) and isinstance(a.value, ast.Name) and a.value.id in defs for a in n.args):
                new_args: List[ast.AST] = []
                for a in n.args:
                    k = arity(defs[a.value.id]) if isinstance(a, ast.Starred) and isinstance(a.value, ast.Name) and a.value.id in defs else None
                    if k is None:
                        new_args.append(a)
                        continue
                    for i in range(k):
                        new_args.append(ast.copy_location(ast.Subscript(value=ast.Name(id=a.value.id, ctx=ast.Load()), slice=ast.Constant(value=i), ctx=ast.Load()), a))
                    changed = True
                    self.log.append(f"{f.qualname}: `*{a.value.id}` written out as its {k} elements at line {getattr(n, 'lineno', '?')}")
                n.args = new_args
                ast.fix_missing_locations(n)
        # `helper(a, *x)` with x a name or a lookup `d[k]` and the helper taking exactly n more required positional
        # parameters: any other length raises TypeError, so the call is `helper(a, x[0], .., x[n-1])`
        for n in list(_own_nodes(fn)):
            if not (isinstance(n, ast.Call) and n.args and isinstance(n.args[-1], ast.Starred) and not any(isinstance(a, ast.Starred) for a in n.args[:-1]) and not n.keywords):
                continue
            sv = n.args[-1].value
            pure = isinstance(sv, ast.Name) or (isinstance(sv, ast.Subscript) and isinstance(sv.value, ast.Name) and isinstance(sv.slice, (ast.Name, ast.Constant))) \
                or (isinstance(sv, ast.Attribute) and isinstance(sv.value, ast.Name))
            if not pure:
                continue
            g = None
            recv = False
            if isinstance(n.func, ast.Name):
                r = self.prog.resolve_name(f.module, n.func.id)
                g = r if isinstance(r, FunctionInfo) and r.cls is None else None
            elif isinstance(n.func, ast.Attribute) and isinstance(n.func.value, ast.Name) and f.cls is not None and f.params and n.func.value.id == f.params[0]:
                g = self.prog.find_method(f.cls, n.func.attr)
                recv = g is not None and not any(isinstance(d, ast.Name) and d.id == "staticmethod" for d in g.node.decorator_list)
            if g is None or g.short in self.known or g.node.args.vararg is not None or g.node.args.defaults or g.node.args.kwonlyargs and any(d is None for d in g.node.args.kw_defaults):
                continue
            pos = [x.arg for x in g.node.args.posonlyargs + g.node.args.args][(1 if recv else 0):]
            k = len(pos) - (len(n.args) - 1)
            if k < 1 or k > 12:
                continue
            n.args = list(n.args[:-1]) + [ast.copy_location(ast.Subscript(value=copy.deepcopy(sv), slice=ast.Constant(value=i), ctx=ast.Load()), sv) for i in range(k)]
            ast.fix_missing_locations(n)
            changed = True
            self.log.append(f"{f.qualname}: `*{ast.unparse(sv)[:30]}` written out as the {k} remaining positional arguments of {g.short} at line {getattr(n, 'lineno', '?')}")
        return changed

    def formats_to_fstrings(self, f: FunctionInfo) -> bool:
        """`TEMPLATE.format(a, b)` with a constant template (literal or module-level constant)  ->  the equivalent f-string"""
        from .engine import format_call_to_joinedstr

        changed = False
        prog, module, log, qn = self.prog, f.module, self.log, f.qualname

        class R(ast.NodeTransformer):
            def visit_FunctionDef(self, n):
                return n if n is not f.node else self.generic_visit(n)

            visit_AsyncFunctionDef = visit_FunctionDef

            def visit_Lambda(self, n):
                return n

            def visit_Call(self, n):
                nonlocal changed
                self.generic_visit(n)
                if isinstance(n.func, ast.Attribute) and n.func.attr == "format":
                    js = format_call_to_joinedstr(prog, module, n)
                    if js is not None:
                        changed = True
                        log.append(f"{qn}: `{ast.unparse(n.func.value)[:30]}.format(..)` read as an f-string at line {getattr(n, 'lineno', '?')}")
                        ast.fix_missing_locations(js)
                        return js
                return n

        R().visit(f.node)
        return changed

    def concats_to_fstrings(self, f: FunctionInfo) -> bool:
        """`"C;" + line` / `"\n" + f"{label}" + "\n"`: a concatenation of a string literal with a value that can only be a str (the
        result of a str method / str() / an f-string, directly or through a single-definition local)  ->  the equivalent
        f-string with that operand as a hole. Anything else is left alone: `literal + None` raises, an f-string does not."""
        changed = False
        log, qn = self.log, f.qualname

        def strish(e):
            return (isinstance(e, ast.Constant) and isinstance(e.value, str)) or isinstance(e, ast.JoinedStr)

        stores: Dict[str, List[ast.AST]] = {}
        parent_of: Dict[int, ast.AST] = {}
        for p_ in ast.walk(f.node):
            for ch in ast.iter_child_nodes(p_):
                parent_of[id(ch)] = p_
        comp_scoped: Set[int] = set()  # targets of comprehensions live in their own scope
        for n_ in _own_nodes(f.node):
            if isinstance(n_, ast.comprehension):
                comp_scoped |= {id(x) for x in ast.walk(n_.target)}
        for n_ in _own_nodes(f.node):
            if isinstance(n_, ast.Name) and isinstance(n_.ctx, ast.Store) and id(n_) not in comp_scoped:
                stores.setdefault(n_.id, []).append(n_)
        STR_METHODS = {"strip", "lstrip", "rstrip", "upper", "lower", "format", "join", "replace", "ljust", "rjust", "zfill", "title", "capitalize", "center"}

        def is_str(e, depth=0) -> bool:
            """the value can only be a str (so that `literal + e` cannot raise TypeError and equals the f-string)"""
            if depth > 4:
                return False
            if strish(e):
                return True
            if isinstance(e, ast.Call) and isinstance(e.func, ast.Attribute) and e.func.attr in STR_METHODS:
                return True
            if isinstance(e, ast.Call) and isinstance(e.func, ast.Name) and e.func.id in ("str", "repr", "chr", "hex", "format"):
                return True
            if isinstance(e, ast.BinOp) and isinstance(e.op, ast.Add):
                return is_str(e.left, depth + 1) or is_str(e.right, depth + 1)
            if isinstance(e, ast.Name) and e.id not in f.params and 1 <= len(stores.get(e.id, [])) <= 3:
                # every binding of the name yields a str
                def one(store_node) -> bool:
                    st_ = parent_of.get(id(store_node))
                    if isinstance(st_, ast.Assign) and len(st_.targets) == 1 and st_.targets[0] is store_node:
                        v_ = st_.value
                        if isinstance(v_, ast.Call) and isinstance(v_.func, ast.Attribute) and v_.func.attr in STR_METHODS:
                            return True
                        return is_str(v_, depth + 1)
                    if isinstance(st_, (ast.For, ast.comprehension)) and st_.target is store_node:
                        it = st_.iter
                        if isinstance(it, ast.Name) and it.id not in f.params and len(stores.get(it.id, [])) == 1:
                            d_ = parent_of.get(id(stores[it.id][0]))
                            it = d_.value if isinstance(d_, ast.Assign) and len(d_.targets) == 1 and d_.targets[0] is stores[it.id][0] else it
                        if isinstance(it, ast.ListComp):
                            return is_str(it.elt, depth + 1)
                        if isinstance(it, ast.Call) and isinstance(it.func, ast.Attribute) and it.func.attr in ("split", "splitlines", "rsplit"):
                            return True
                    return False

                return all(one(sn) for sn in stores[e.id])
            return False

        def parts(e):
            if isinstance(e, ast.Constant):
                return [e] if e.value else []
            if isinstance(e, ast.JoinedStr):
                return list(e.values)
            if isinstance(e, ast.Call) and isinstance(e.func, ast.Name) and e.func.id == "str" and len(e.args) == 1 and not e.keywords:
                return [ast.FormattedValue(value=e.args[0], conversion=115, format_spec=None)]  # "a" + str(x) is f"a{x!s}"
            return [ast.FormattedValue(value=e, conversion=-1, format_spec=None)]

        class R(ast.NodeTransformer):
            def visit_FunctionDef(self, n):
                return n if n is not f.node else self.generic_visit(n)

            visit_AsyncFunctionDef = visit_FunctionDef

            def visit_Lambda(self, n):
                return n

            def visit_BinOp(self, n):
                nonlocal changed
                self.generic_visit(n)
                if isinstance(n.op, ast.Add) and (strish(n.left) or strish(n.right)) and not (isinstance(n.left, ast.Constant) and isinstance(n.right, ast.Constant)):
                    other = n.right if strish(n.left) else n.left
                    if is_str(other):
                        js = ast.JoinedStr(values=parts(n.left) + parts(n.right))
                        changed = True
                        log.append(f"{qn}: string concatenation read as an f-string at line {getattr(n, 'lineno', '?')}")
                        return ast.fix_missing_locations(ast.copy_location(js, n))
                return n

        R().visit(f.node)

        # `x = f"..."` directly followed by `x += f"..."` (x a local): one assignment of the joined text
        def merge(stmts: List[ast.stmt]) -> None:
            nonlocal changed
            i = 0
            while i < len(stmts):
                a_ = stmts[i]
                b_ = stmts[i + 1] if i + 1 < len(stmts) else None
                if isinstance(a_, ast.Assign) and len(a_.targets) == 1 and isinstance(a_.targets[0], ast.Name) and strish(a_.value) and isinstance(b_, ast.AugAssign) and isinstance(b_.op, ast.Add) \
                        and isinstance(b_.target, ast.Name) and b_.target.id == a_.targets[0].id and strish(b_.value) and a_.targets[0].id not in f.params:
                    a_.value = ast.fix_missing_locations(ast.copy_location(ast.JoinedStr(values=parts(a_.value) + parts(b_.value)), a_.value))
                    del stmts[i + 1]
                    changed = True
                    log.append(f"{qn}: text built by `+=` read as one f-string at line {getattr(a_, 'lineno', '?')}")
                    continue
                for fld in ("body", "orelse", "finalbody"):
                    sub = getattr(a_, fld, None)
                    if isinstance(sub, list) and sub and isinstance(sub[0], ast.stmt) and not isinstance(a_, (ast.FunctionDef, ast.AsyncFunctionDef, ast.ClassDef)):
                        merge(sub)
                for h in getattr(a_, "handlers", []) or []:
                    merge(h.body)
                i += 1

        merge(f.node.body)
        return changed

    def percents_to_fstrings(self, f: FunctionInfo) -> bool:
        """`"W%d;" % int(x)` / `"%s;%s" % (a, b)` with a literal template using only %s, %d (of an `int(..)` value) and %%
        ->  the equivalent f-string (`%s` is `{x!s}`)"""
        import re as _re

        changed = False
        log, qn = self.log, f.qualname

        class R(ast.NodeTransformer):
            def visit_FunctionDef(self, n):
                return n if n is not f.node else self.generic_visit(n)

            visit_AsyncFunctionDef = visit_FunctionDef

            def visit_Lambda(self, n):
                return n

            def visit_BinOp(self, n):
                nonlocal changed
                self.generic_visit(n)
                if not (isinstance(n.op, ast.Mod) and isinstance(n.left, ast.Constant) and isinstance(n.left.value, str)):
                    return n
                if not isinstance(n.right, (ast.Tuple, ast.Call, ast.Constant, ast.JoinedStr)):
                    return n  # a bare name could be a tuple or a mapping at run time: only tuples / calls / literals are read
                args = list(n.right.elts) if isinstance(n.right, ast.Tuple) else [n.right]
                toks = _re.split(r"(%%|%[sdi])", n.left.value)
                if any("%" in t for t in toks[0::2]):
                    return n
                values, k = [], 0
                for i, t in enumerate(toks):
                    if i % 2 == 0:
                        if t:
                            values.append(ast.Constant(value=t))
                    elif t == "%%":
                        values.append(ast.Constant(value="%"))
                    else:
                        if k >= len(args):
                            return n
                        a = args[k]
                        k += 1
                        if t in ("%d", "%i"):
                            if not (isinstance(a, ast.Call) and isinstance(a.func, ast.Name) and a.func.id == "int") and not (isinstance(a, ast.Constant) and isinstance(a.value, int)):
                                return n
                            values.append(ast.FormattedValue(value=a, conversion=-1, format_spec=None))
                        else:
                            values.append(ast.FormattedValue(value=a, conversion=115, format_spec=None))
                if k != len(args):
                    return n
                changed = True
                log.append(f"{qn}: %-formatting read as an f-string at line {getattr(n, 'lineno', '?')}")
                return ast.fix_missing_locations(ast.copy_location(ast.JoinedStr(values=values), n))

        R().visit(f.node)
        return changed

    def properties_to_exprs(self, f: FunctionInfo) -> bool:
        """`self.p` where p is a new read-only property of the class (not one the rules know by name) whose body is a single
        `return <pure expression over self>` and that no subclass overrides  ->  that expression"""
        if f.cls is None or not f.params:
            return False
        selfn = f.params[0]
        if any(isinstance(d, ast.Name) and d.id == "staticmethod" for d in f.node.decorator_list):
            return False
        changed = False
        prog, known, log, qn = self.prog, self.known, self.log, f.qualname

        def body_expr(m: FunctionInfo) -> Optional[ast.AST]:
            if not m.is_property or len(m.params) != 1 or len(m.node.decorator_list) != 1:
                return None
            body = [s_ for s_ in m.node.body if not (isinstance(s_, ast.Expr) and isinstance(s_.value, ast.Constant))]
            if len(body) != 1 or not isinstance(body[0], ast.Return) or body[0].value is None:
                return None
            e = body[0].value
            if not all(isinstance(n, (ast.Name, ast.Attribute, ast.Subscript, ast.Constant, ast.BinOp, ast.UnaryOp, ast.Tuple, ast.Load, ast.operator, ast.unaryop, ast.Slice)) for n in ast.walk(e)):
                return None
            if any(isinstance(n, ast.Name) and n.id != m.params[0] for n in ast.walk(e)):
                return None
            return e

        class R(ast.NodeTransformer):
            def visit_FunctionDef(self, n):
                return n if n is not f.node else self.generic_visit(n)

            visit_AsyncFunctionDef = visit_FunctionDef

            def visit_Lambda(self, n):
                return n

            def visit_Attribute(self, n):
                nonlocal changed
                self.generic_visit(n)
                if isinstance(n.ctx, ast.Load) and isinstance(n.value, ast.Name) and n.value.id == selfn:
                    m = prog.find_method(f.cls, n.attr)
                    if m is not None and m is not f and m.short not in known and m.name not in {k.split(".")[-1] for k in known}:
                        overridden = any(isinstance(c, ClassInfo) and c is not m.cls and n.attr in c.methods and m.cls in prog.mro(c) for mod in prog.modules.values() for c in mod.classes.values())
                        e = body_expr(m) if not overridden else None
                        if e is not None:
                            changed = True
                            log.append(f"{qn}: property `{n.attr}` read as `{ast.unparse(e)[:40]}` at line {getattr(n, 'lineno', '?')}")
                            new = _Rename({m.params[0]: ast.Name(id=selfn, ctx=ast.Load())}).visit(copy.deepcopy(e))
                            return ast.fix_missing_locations(ast.copy_location(new, n))
                return n

        for st in f.node.body:
            R().visit(st)
        return changed

    def consts_to_literals(self, f: FunctionInfo) -> bool:
        """A module-level name bound once to a string / number literal (also one imported from another module of the package)
        and not re-bound in the function  ->  the literal"""
        table: Dict[str, ast.Constant] = {}
        for name, v in f.module.assigns.items():
            if isinstance(v, ast.Constant) and isinstance(v.value, (str, int, float)) and not isinstance(v.value, bool):
                table[name] = v
        for local_, dotted in f.module.imports.items():
            modn, _, attr_ = dotted.rpartition(".")
            om = self.prog.modules.get(modn)
            v = om.assigns.get(attr_) if om is not None else None
            if isinstance(v, ast.Constant) and isinstance(v.value, (str, int, float)) and not isinstance(v.value, bool) and local_ not in f.module.assigns:
                table[local_] = v
        if not table:
            return False
        bound = set(f.params)
        for n in ast.walk(f.node):
            if isinstance(n, ast.Name) and isinstance(n.ctx, (ast.Store, ast.Del)):
                bound.add(n.id)
            elif isinstance(n, (ast.Global, ast.Nonlocal)):
                bound |= set(n.names)
            elif isinstance(n, ast.arg):
                bound.add(n.arg)
        # names re-bound anywhere in the module (functions using `global`, repeated top-level assignment) keep their name
        counts: Dict[str, int] = {}
        for n in ast.walk(f.module.tree):
            if isinstance(n, ast.Global):
                for g_ in n.names:
                    counts[g_] = counts.get(g_, 0) + 2
        for st in f.module.tree.body:
            for t in (st.targets if isinstance(st, ast.Assign) else [st.target] if isinstance(st, (ast.AnnAssign, ast.AugAssign)) else []):
                if isinstance(t, ast.Name):
                    counts[t.id] = counts.get(t.id, 0) + 1
        changed = False

        class R(ast.NodeTransformer):
            def visit_Name(self, n):
                nonlocal changed
                if isinstance(n.ctx, ast.Load) and n.id in table and n.id not in bound and counts.get(n.id, 1) <= 1:
                    changed = True
                    return ast.copy_location(ast.Constant(value=table[n.id].value), n)
                return n

        for st in f.node.body:
            R().visit(st)
        for i, d in enumerate(f.node.args.defaults):
            f.node.args.defaults[i] = R().visit(d)
        for i, d in enumerate(f.node.args.kw_defaults):
            if d is not None:
                f.node.args.kw_defaults[i] = R().visit(d)
        return changed

    def class_consts_to_literals(self, f: FunctionInfo) -> bool:
        """`self.X` / `cls.X` / `<Class>.X` where X is bound once, at class level, to a literal (string, number, tuple / list /
        set / frozenset of literals) and never assigned as an attribute anywhere in the package  ->  the literal"""
        if f.cls is None or not f.params:
            return False
        if not hasattr(self, "_attr_stores"):
            stores: Set[str] = set()
            for m in self.prog.modules.values():
                for n in ast.walk(m.tree):
                    if isinstance(n, ast.Attribute) and isinstance(n.ctx, (ast.Store, ast.Del)):
                        stores.add(n.attr)
                    if isinstance(n, ast.Call) and isinstance(n.func, ast.Name) and n.func.id in ("setattr", "delattr") and len(n.args) >= 2 and isinstance(n.args[1], ast.Constant):
                        stores.add(str(n.args[1].value))
            self._attr_stores = stores

        def literal(v: ast.AST) -> Optional[ast.AST]:
            if isinstance(v, ast.Constant) and isinstance(v.value, (str, int, float)) and not isinstance(v.value, bool):
                return v
            if isinstance(v, (ast.Tuple, ast.List, ast.Set)) and v.elts and all(isinstance(e, ast.Constant) for e in v.elts):
                return v
            if isinstance(v, ast.Call) and isinstance(v.func, ast.Name) and v.func.id in ("frozenset", "tuple") and len(v.args) == 1 and not v.keywords \
                    and isinstance(v.args[0], (ast.Tuple, ast.List, ast.Set)) and v.args[0].elts and all(isinstance(e, ast.Constant) for e in v.args[0].elts):
                elts = [copy.deepcopy(e) for e in v.args[0].elts]
                return ast.Set(elts=elts) if v.func.id == "frozenset" else ast.Tuple(elts=elts, ctx=ast.Load())
            return None

        table: Dict[str, ast.AST] = {}
        for k in self.prog.mro(f.cls):
            if not hasattr(k, "class_assigns"):
                continue
            for name, v in k.class_assigns.items():
                if name in table or name in self._attr_stores:
                    continue
                lit = literal(v)
                if lit is not None and sum(1 for st in k.node.body if isinstance(st, (ast.Assign, ast.AnnAssign)) and any(
                        isinstance(t, ast.Name) and t.id == name for t in (st.targets if isinstance(st, ast.Assign) else [st.target]))) == 1:
                    table[name] = lit
        # a subclass that re-binds the name gives it another value for its instances: keep the attribute access then
        for m in self.prog.modules.values():
            for c in getattr(m, "classes", {}).values():
                if c is not f.cls and f.cls in self.prog.mro(c):
                    for name in list(table):
                        if name in c.class_assigns:
                            del table[name]
        if not table:
            return False
        selfn = f.params[0]
        cnames = {k.name for k in self.prog.mro(f.cls) if hasattr(k, "class_assigns")}
        changed = False

        class R(ast.NodeTransformer):
            def visit_Attribute(self, n):
                nonlocal changed
                self.generic_visit(n)
                if isinstance(n.ctx, ast.Load) and n.attr in table and isinstance(n.value, ast.Name) and (n.value.id in (selfn, "cls") or n.value.id in cnames):
                    changed = True
                    return ast.copy_location(copy.deepcopy(table[n.attr]), n)
                return n

        for i, st in enumerate(f.node.body):
            f.node.body[i] = R().visit(st)
        if changed:
            ast.fix_missing_locations(f.node)
            self.log.append(f"{f.qualname}: class-level constants read as their literals")
        return changed

    def loops_to_dictcomp(self, f: FunctionInfo) -> bool:
        """`d = {}` directly followed by `for T in IT: [local = pure expr]* [if COND:] d[K] = V`  ->  `d = {K: V for T in IT if COND}`
        (the locals of the loop body are substituted; they and the loop targets must not be read after the loop)"""
        fn = f.node
        changed = False

        def pure(e: ast.AST) -> bool:
            return all(isinstance(n, (ast.Name, ast.Attribute, ast.Subscript, ast.Constant, ast.Tuple, ast.BinOp, ast.UnaryOp, ast.Compare, ast.BoolOp, ast.Load,
                                      ast.operator, ast.unaryop, ast.cmpop, ast.boolop, ast.JoinedStr, ast.FormattedValue, ast.Slice)) for n in ast.walk(e))

        def loads_outside(names: Set[str], loop: ast.For) -> bool:
            inside = {id(n) for n in ast.walk(loop)}
            # reads inside another loop that binds the name itself as its target see that loop's values
            rebound: Set[int] = set()
            for other in _own_nodes(fn):
                if isinstance(other, ast.For) and other is not loop and id(other) not in inside:
                    tn = {x.id for x in ast.walk(other.target) if isinstance(x, ast.Name)}
                    for st_ in other.body:
                        for x in ast.walk(st_):
                            if isinstance(x, ast.Name) and x.id in tn:
                                rebound.add(id(x))
                if isinstance(other, (ast.ListComp, ast.SetComp, ast.DictComp, ast.GeneratorExp)) and id(other) not in inside:
                    # a comprehension's targets are its own
                    tn = {x.id for g_ in other.generators for x in ast.walk(g_.target) if isinstance(x, ast.Name)}
                    for x in ast.walk(other):
                        if isinstance(x, ast.Name) and x.id in tn:
                            rebound.add(id(x))
            return any(isinstance(n, ast.Name) and isinstance(n.ctx, ast.Load) and n.id in names and id(n) not in inside and id(n) not in rebound for n in _own_nodes(fn))

        def walk(stmts: List[ast.stmt]) -> None:
            nonlocal changed
            i = 0
            while i < len(stmts):
                st = stmts[i]
                nxt = stmts[i + 1] if i + 1 < len(stmts) else None
                tgt = st.targets[0] if isinstance(st, ast.Assign) and len(st.targets) == 1 else st.target if isinstance(st, ast.AnnAssign) and st.value is not None else None
                val = getattr(st, "value", None)
                empty = isinstance(val, ast.Dict) and not val.keys or (isinstance(val, ast.Call) and isinstance(val.func, ast.Name) and val.func.id == "dict" and not val.args and not val.keywords)
                # `L = []` directly followed by `for T in IT: [if COND:] L.append(V)`  ->  `L = [V for T in IT if COND]`
                if isinstance(tgt, ast.Name) and isinstance(val, ast.List) and not val.elts and isinstance(nxt, ast.For) and not nxt.orelse and len(nxt.body) == 1:
                    L = tgt.id
                    inner = nxt.body[0]
                    cond = None
                    if isinstance(inner, ast.If) and not inner.orelse and len(inner.body) == 1:
                        cond, inner = inner.test, inner.body[0]
                    if isinstance(inner, ast.Expr) and isinstance(inner.value, ast.Call) and isinstance(inner.value.func, ast.Attribute) and inner.value.func.attr == "append" \
                            and isinstance(inner.value.func.value, ast.Name) and inner.value.func.value.id == L and len(inner.value.args) == 1 and not inner.value.keywords \
                            and not isinstance(inner.value.args[0], ast.Starred):
                        V = inner.value.args[0]
                        parts = [x for x in (cond, V, nxt.iter) if x is not None]
                        tnames = {n.id for n in ast.walk(nxt.target) if isinstance(n, ast.Name)}
                        uses_L = any(isinstance(n, ast.Name) and n.id == L for x in parts for n in ast.walk(x))
                        no_walrus = not any(isinstance(n, (ast.NamedExpr, ast.Yield, ast.YieldFrom, ast.Await)) for x in parts for n in ast.walk(x))
                        if not uses_L and no_walrus and all(isinstance(n, (ast.Name, ast.Tuple, ast.List, ast.Store, ast.Starred)) for n in ast.walk(nxt.target)) and not loads_outside(tnames, nxt):
                            comp = ast.ListComp(elt=copy.deepcopy(V), generators=[ast.comprehension(target=copy.deepcopy(nxt.target), iter=copy.deepcopy(nxt.iter),
                                                                                                   ifs=[copy.deepcopy(cond)] if cond is not None else [], is_async=0)])
                            new = ast.Assign(targets=[ast.Name(id=L, ctx=ast.Store())], value=comp)
                            ast.copy_location(new, nxt)
                            ast.fix_missing_locations(new)
                            stmts[i:i + 2] = [new]
                            changed = True
                            self.log.append(f"{f.qualname}: loop filling `{L}` read as a list comprehension")
                            continue
                is_attr = isinstance(tgt, ast.Attribute) and isinstance(tgt.value, ast.Name)
                if (isinstance(tgt, ast.Name) or is_attr) and empty and isinstance(nxt, ast.For) and not nxt.orelse and nxt.body:
                    d = tgt.id if isinstance(tgt, ast.Name) else f"{tgt.value.id}.{tgt.attr}"

                    def is_d(x):
                        if is_attr:
                            return isinstance(x, ast.Attribute) and isinstance(x.value, ast.Name) and x.value.id == tgt.value.id and x.attr == tgt.attr
                        return isinstance(x, ast.Name) and x.id == d
                    body = list(nxt.body)
                    subst: Dict[str, ast.AST] = {}
                    ok = True
                    while body and isinstance(body[0], ast.Assign) and len(body[0].targets) == 1 and isinstance(body[0].targets[0], ast.Name) and len(body) > 1:
                        v = _Rename(dict(subst)).visit(copy.deepcopy(body[0].value))
                        if not pure(v) or body[0].targets[0].id == d or (is_attr and body[0].targets[0].id == tgt.value.id):
                            ok = False
                            break
                        subst[body[0].targets[0].id] = v
                        body = body[1:]
                    cond = None
                    if ok and len(body) == 1 and isinstance(body[0], ast.If) and not body[0].orelse and len(body[0].body) == 1:
                        cond = body[0].test
                        body = body[0].body
                    store = body[0] if ok and len(body) == 1 else None
                    if isinstance(store, ast.Assign) and len(store.targets) == 1 and isinstance(store.targets[0], ast.Subscript) and is_d(store.targets[0].value):
                        K, V = store.targets[0].slice, store.value
                        parts = [x for x in (cond, K, V, nxt.iter) if x is not None]
                        tnames = {n.id for n in ast.walk(nxt.target) if isinstance(n, ast.Name)}
                        uses_d = any(is_d(n) for x in parts for n in ast.walk(x)) or any(is_d(n) for v in subst.values() for n in ast.walk(v))
                        if is_attr and tgt.value.id in {n.id for n in ast.walk(nxt.target) if isinstance(n, ast.Name)}:
                            uses_d = True
                        if not uses_d and (cond is None or pure(cond)) and not loads_outside(set(subst) | tnames, nxt) and not (set(subst) & tnames):
                            ren = _Rename(dict(subst))
                            comp = ast.DictComp(key=ren.visit(copy.deepcopy(K)), value=ren.visit(copy.deepcopy(V)),
                                                generators=[ast.comprehension(target=copy.deepcopy(nxt.target), iter=copy.deepcopy(nxt.iter),
                                                                              ifs=[ren.visit(copy.deepcopy(cond))] if cond is not None else [], is_async=0)])
                            new = ast.Assign(targets=[copy.deepcopy(tgt)], value=comp)
                            ast.copy_location(new, nxt)
                            ast.fix_missing_locations(new)
                            stmts[i:i + 2] = [new]
                            changed = True
                            self.log.append(f"{f.qualname}: loop filling `{d}` read as a dict comprehension")
                            continue
                for fld in ("body", "orelse", "finalbody"):
                    sub = getattr(st, fld, None)
                    if isinstance(sub, list) and sub and isinstance(sub[0], ast.stmt) and not isinstance(st, (ast.FunctionDef, ast.AsyncFunctionDef, ast.ClassDef)):
                        walk(sub)
                for h in getattr(st, "handlers", []) or []:
                    walk(h.body)
                i += 1

        walk(fn.body)
        return changed

    def prune_constant_tests(self, f: FunctionInfo) -> bool:
        """`if True: A else: B` / `A if False else B` left behind by a helper that was expanded with a literal flag: only the
        branch that runs is kept (tests that are literal True / False / None only)."""
        changed = False

        def const(t):
            if isinstance(t, ast.Constant) and (isinstance(t.value, bool) or t.value is None):
                return bool(t.value)
            if isinstance(t, ast.UnaryOp) and isinstance(t.op, ast.Not):
                c_ = const(t.operand)
                return None if c_ is None else not c_
            return None

        class T(ast.NodeTransformer):
            def visit_FunctionDef(self, n):
                if n is f.node:
                    self.generic_visit(n)
                return n

            def visit_Lambda(self, n):
                return n

            def visit_IfExp(self, n):
                nonlocal changed
                self.generic_visit(n)
                c_ = const(n.test)
                if c_ is None:
                    return n
                changed = True
                return n.body if c_ else n.orelse

        def walk(stmts: List[ast.stmt]) -> None:
            nonlocal changed
            i = 0
            while i < len(stmts):
                st = stmts[i]
                if isinstance(st, ast.If) and const(st.test) is not None:
                    keep = st.body if const(st.test) else st.orelse
                    stmts[i:i + 1] = keep if keep else [ast.copy_location(ast.Pass(), st)]
                    changed = True
                    continue
                for fld in ("body", "orelse", "finalbody"):
                    sub = getattr(st, fld, None)
                    if isinstance(sub, list) and sub and isinstance(sub[0], ast.stmt) and not isinstance(st, (ast.FunctionDef, ast.AsyncFunctionDef, ast.ClassDef)):
                        walk(sub)
                for h in getattr(st, "handlers", []) or []:
                    walk(h.body)
                i += 1

        T().visit(f.node)
        walk(f.node.body)
        if changed:
            self.log.append(f"{f.qualname}: branches under a literal True / False test pruned")
        return changed

    def flatten_subcounters(self, f: FunctionInfo) -> bool:
        """for ..:  inner = 0; .. inner += e ..; [a = inner; b = a;] outer += <inner>      (inner read nowhere else, outer not read inside the loop)
        ->  for ..:  .. outer += e ..          - a per-iteration subtotal that is only added to the running total is the running total"""
        fn = f.node
        changed = False
        loads: Dict[str, List[ast.Name]] = {}
        stores: Dict[str, List[ast.AST]] = {}
        parents: Dict[int, ast.AST] = {}
        for p_ in ast.walk(fn):
            for ch in ast.iter_child_nodes(p_):
                parents[id(ch)] = p_
        for n in _own_nodes(fn):
            if isinstance(n, ast.Name):
                (loads if isinstance(n.ctx, ast.Load) else stores).setdefault(n.id, []).append(n)
        for lp in [n for n in _own_nodes(fn) if isinstance(n, ast.For)]:
            body = lp.body
            for i, st in enumerate(list(body)):
                if not (isinstance(st, ast.Assign) and len(st.targets) == 1 and isinstance(st.targets[0], ast.Name) and isinstance(st.value, ast.Constant) and st.value.value == 0
                        and not isinstance(st.value.value, bool)) or st not in body:
                    continue
                inner = st.targets[0].id
                i = body.index(st)
                # alias chain and the final `outer += alias`
                aliases = [inner]
                drop = [st]
                final = None
                for later in body[i + 1:]:
                    if isinstance(later, ast.Assign) and len(later.targets) == 1 and isinstance(later.targets[0], ast.Name) and isinstance(later.value, ast.Name) and later.value.id == aliases[-1] \
                            and len(loads.get(aliases[-1], [])) == 1 and len(stores.get(later.targets[0].id, [])) == 1:
                        aliases.append(later.targets[0].id)
                        drop.append(later)
                    elif isinstance(later, ast.AugAssign) and isinstance(later.op, ast.Add) and isinstance(later.target, ast.Name) and isinstance(later.value, ast.Name) and later.value.id == aliases[-1] \
                            and len(loads.get(aliases[-1], [])) == 1 and later.target.id not in aliases:
                        final = later
                        break
                if final is None:
                    continue
                outer = final.target.id
                inside = {id(x) for x in ast.walk(lp)}
                if any(id(x) in inside for x in loads.get(outer, [])):
                    continue  # the running total is read inside the loop
                incs = []
                ok = True
                for sn in stores.get(inner, []):
                    par = parents.get(id(sn))
                    if par is st:
                        continue
                    if isinstance(par, ast.AugAssign) and isinstance(par.op, ast.Add) and par.target is sn and id(par) in inside:
                        incs.append(par)
                    else:
                        ok = False
                j = body.index(final)
                between = {id(x) for b_ in body[i + 1:j] for x in ast.walk(b_)}
                if not ok or not incs or not all(id(p_) in between for p_ in incs):
                    continue

                def leaves(stmts_, in_inner_loop=False) -> bool:
                    # a return, or a break / continue of *this* loop, between the reset and the addition would drop the subtotal
                    for b_ in stmts_:
                        if isinstance(b_, ast.Return) or (isinstance(b_, (ast.Break, ast.Continue)) and not in_inner_loop):
                            return True
                        if isinstance(b_, (ast.FunctionDef, ast.AsyncFunctionDef, ast.ClassDef)):
                            continue
                        nested = in_inner_loop or isinstance(b_, (ast.For, ast.While))
                        for fld in ("body", "orelse", "finalbody"):
                            sub = getattr(b_, fld, None)
                            if isinstance(sub, list) and sub and isinstance(sub[0], ast.stmt) and leaves(sub, nested if fld == "body" else in_inner_loop):
                                return True
                        for h_ in getattr(b_, "handlers", []) or []:
                            if leaves(h_.body, in_inner_loop):
                                return True
                    return False

                if leaves(body[i + 1:j]):
                    continue
                for inc in incs:
                    inc.target = ast.copy_location(ast.Name(id=outer, ctx=ast.Store()), inc.target)
                for d_ in drop + [final]:
                    body.remove(d_)
                changed = True
                self.log.append(f"{f.qualname}: per-iteration subtotal `{inner}` that is only added to `{outer}` counted in `{outer}` directly")
                return True  # names and positions changed: the caller runs the pass again
        return changed

    def run(self) -> None:
        funcs = list(self.prog.all_functions(include_inlined=True))
        for f in funcs:
            self.sorts_to_sorted(f)
            self.consts_to_literals(f)
            self.class_consts_to_literals(f)
            self.merge_conditional_comprehensions(f)
            self.numpy_idioms(f)
            self.concat_to_append(f)
            self.partial_attrs(f)
            self.index_loops_to_zip(f)
            self.inline_raise_temps(f)
        for _round in range(MAX_ROUNDS):
            changed = False
            for f in funcs:
                changed |= self.expand_selectors(f)
                changed |= self.expand_block(f, f.node.body)
                changed |= self.expand_predicates(f)
                changed |= self.joins_to_fstrings(f)
                changed |= self.loops_to_dictcomp(f)
                changed |= self.star_tuples(f)
                changed |= self.result_components(f)
                changed |= self.merge_conditional_comprehensions(f)
                changed |= self.formats_to_fstrings(f)
                changed |= self.percents_to_fstrings(f)
                changed |= self.concats_to_fstrings(f)
                changed |= self.consts_to_literals(f)
                changed |= self.properties_to_exprs(f)
                changed |= self.inline_raise_temps(f)
                changed |= self.flatten_subcounters(f)
                changed |= self.prune_constant_tests(f)
            if not changed:
                break
        # helpers that are no longer called anywhere are accounted for in their callers
        remaining: Dict[str, int] = {}
        for f in funcs:
            for n in _own_nodes(f.node):
                if isinstance(n, ast.Call):
                    nm = n.func.id if isinstance(n.func, ast.Name) else n.func.attr if isinstance(n.func, ast.Attribute) else None
                    if nm:
                        remaining[nm] = remaining.get(nm, 0) + 1
        hidden = set()
        for f in funcs:
            if f.qualname in self.expanded and remaining.get(f.name, 0) == 0:
                hidden.add(f.qualname)
        self.prog.inlined_helpers = hidden
        self.prog.inline_log = self.log


def inline_new_helpers(prog: Program) -> None:
    Inliner(prog).run()
