"""Extract-method tolerance: statement-level calls to *new* helper functions are expanded in the caller's AST.

"New" = a function whose short name is not in the frozen list sa/anchors.py (the functions of the pinned tree).
The rules are anchored on the pinned functions; when a maintainer moves a block of such a function into a helper,
the block has to be analysed in the context it was taken from.  For every call that is a whole statement
(`helper(..)`, `x = helper(..)`, `a, b = helper(..)`, `return helper(..)`) the helper's body is copied into the
caller with its parameters bound to the arguments and its locals renamed; `return` statements in guard-clause
position are restructured into if/else (no goto needed), other shapes make the helper ineligible and the call is
left alone (the engine's expression-level look-through and, failing that, INCONCLUSIVE take over).

Nothing is executed; this is a source-to-source expansion on the parsed tree of the analysed copy only.
Helpers whose every call site in the package was expanded are hidden from `Program.all_functions()` (their
effects are accounted for in the callers); the others stay visible and are analysed as functions of their own.
"""
from __future__ import annotations

import ast
import builtins
import copy
from typing import Dict, List, Optional, Set, Tuple

from .anchors import KNOWN_FUNCTIONS
from .model import ClassInfo, FunctionInfo, Program

_BUILTINS = set(dir(builtins))
MAX_ROUNDS = 3


class NotEligible(Exception):
    pass


def _own_nodes(fn: ast.AST):
    """Nodes of a function body without descending into nested function/class definitions."""
    stack = list(ast.iter_child_nodes(fn))
    while stack:
        n = stack.pop()
        yield n
        if isinstance(n, (ast.FunctionDef, ast.AsyncFunctionDef, ast.ClassDef, ast.Lambda)):
            continue
        stack.extend(ast.iter_child_nodes(n))


def _contains_return(st: ast.AST) -> bool:
    if isinstance(st, ast.Return):
        return True
    return any(isinstance(n, ast.Return) for n in _own_nodes(st))


def _may_fall_through(stmts: List[ast.stmt]) -> bool:
    if not stmts:
        return True
    last = stmts[-1]
    if isinstance(last, (ast.Return, ast.Raise, ast.Continue, ast.Break)):
        return False
    if isinstance(last, ast.If):
        return _may_fall_through(last.body) or _may_fall_through(last.orelse)
    return True


def _restructure(stmts: List[ast.stmt], ret: str, state: Dict[str, bool]) -> Tuple[List[ast.stmt], bool]:
    """Rewrite a statement list whose returns are in guard-clause position into a return-free one: the statements
    that follow an `if` with a return inside are moved into the branch(es) that can reach them.
    -> (statements, falls through)"""
    out: List[ast.stmt] = []
    for i, st in enumerate(stmts):
        if isinstance(st, ast.Return):
            if st.value is not None:
                state["value"] = True
                a = ast.Assign(targets=[ast.Name(id=ret, ctx=ast.Store())], value=st.value)
                ast.copy_location(a, st)
                out.append(a)
            return out, False
        if isinstance(st, ast.If) and _contains_return(st):
            rest = stmts[i + 1:]
            bf, of = _may_fall_through(st.body), _may_fall_through(st.orelse)
            rest_b = rest if bf else []
            rest_o = ([copy.deepcopy(x) for x in rest] if bf else rest) if of else []
            nb, bft = _restructure(list(st.body) + list(rest_b), ret, state)
            no, oft = _restructure(list(st.orelse) + list(rest_o), ret, state)
            new = ast.If(test=st.test, body=nb or [ast.Pass()], orelse=no)
            ast.copy_location(new, st)
            out.append(new)
            return out, (bft and bf) or (oft and of)
        if _contains_return(st):
            raise NotEligible("return inside a loop / try / with block")
        out.append(st)
    return out, True


def _stored_names(body: List[ast.stmt]) -> Set[str]:
    out: Set[str] = set()
    for st in body:
        for n in [st] + list(_own_nodes(st)):
            if isinstance(n, ast.Name) and isinstance(n.ctx, (ast.Store, ast.Del)):
                out.add(n.id)
            elif isinstance(n, ast.ExceptHandler) and n.name:
                out.add(n.name)
            elif isinstance(n, (ast.FunctionDef, ast.AsyncFunctionDef, ast.ClassDef)):
                out.add(n.name)
            elif isinstance(n, (ast.Import, ast.ImportFrom)):
                for a in n.names:
                    out.add((a.asname or a.name).split(".")[0])
    return out


class _Rename(ast.NodeTransformer):
    def __init__(self, mapping: Dict[str, ast.AST]):
        self.mapping = mapping

    def visit_Name(self, n: ast.Name):
        if n.id in self.mapping:
            m = self.mapping[n.id]
            if isinstance(m, str):
                return ast.copy_location(ast.Name(id=m, ctx=n.ctx), n)
            if isinstance(n.ctx, ast.Load):
                return ast.copy_location(copy.deepcopy(m), n)
        return n

    def visit_ExceptHandler(self, n: ast.ExceptHandler):
        self.generic_visit(n)
        if n.name and isinstance(self.mapping.get(n.name), str):
            n.name = self.mapping[n.name]
        return n


def _helper_ok(g: FunctionInfo) -> bool:
    node = g.node
    if isinstance(node, ast.AsyncFunctionDef) or [d for d in node.decorator_list if not (isinstance(d, ast.Name) and d.id == "staticmethod")]:
        return False
    a = node.args
    if a.vararg:
        return False
    for n in _own_nodes(node):
        if isinstance(n, (ast.Yield, ast.YieldFrom, ast.Global, ast.Nonlocal, ast.Await)):
            return False
        if isinstance(n, (ast.FunctionDef, ast.AsyncFunctionDef, ast.Lambda, ast.ClassDef)):
            return False  # closures capture renamed locals; keep it simple
        if isinstance(n, ast.Call) and isinstance(n.func, ast.Name) and n.func.id in ("locals", "vars", "globals", "super", "eval", "exec"):
            return False
    for d in list(a.defaults) + [d for d in a.kw_defaults if d is not None]:
        if not isinstance(d, ast.Constant) and not (isinstance(d, ast.UnaryOp) and isinstance(d.operand, ast.Constant)):
            return False
    return True


def _free_names_agree(prog: Program, g: FunctionInfo, f: FunctionInfo, local: Set[str]) -> bool:
    if g.module is f.module:
        return True
    pending: Dict[str, str] = {}
    body_nodes = []
    for st in g.node.body:
        # names that occur only in annotations do not matter for the analysis
        for n in [st] + list(_own_nodes(st)):
            body_nodes.append(n)
    ann = set()
    for n in body_nodes:
        if isinstance(n, ast.AnnAssign):
            ann |= {id(x) for x in ast.walk(n.annotation)}
    for n in body_nodes:
        if id(n) in ann:
            continue
        if isinstance(n, ast.Name) and isinstance(n.ctx, ast.Load) and n.id not in local and n.id not in _BUILTINS:
            a = g.module.imports.get(n.id)
            b = f.module.imports.get(n.id)
            if a is not None and a == b:
                continue
            # a module-level object of the helper's module that the caller imports under the same name
            if a is None and b == f"{g.module.name}.{n.id}":
                continue
            # a name the caller's module does not know at all: make it known there (model only) under the helper's meaning
            unknown_there = b is None and n.id not in f.module.functions and n.id not in f.module.classes and n.id not in f.module.assigns
            if unknown_there and (a is not None or n.id in g.module.functions or n.id in g.module.classes or n.id in g.module.assigns):
                pending[n.id] = a if a is not None else f"{g.module.name}.{n.id}"
                continue
            return False
    f.module.imports.update(pending)
    return True


def _resolve_helper(prog: Program, f: FunctionInfo, call: ast.Call, known: Set[str]) -> Optional[Tuple[FunctionInfo, Optional[ast.AST]]]:
    """(helper, receiver expression or None) if `call` is a call of an eligible new helper."""
    fn = call.func
    g = None
    recv = None
    if isinstance(fn, ast.Name):
        r = prog.resolve_name(f.module, fn.id)
        if isinstance(r, FunctionInfo) and r.cls is None:
            g = r
    elif isinstance(fn, ast.Attribute) and isinstance(fn.value, ast.Name) and f.cls is not None and f.params and fn.value.id == f.params[0]:
        m = prog.find_method(f.cls, fn.attr)
        if m is not None and not m.is_property and not any(isinstance(d, ast.Name) and d.id in ("classmethod",) for d in m.node.decorator_list):
            # an override in a subclass would make the static target wrong
            overridden = any(isinstance(c, ClassInfo) and c is not m.cls and fn.attr in c.methods and m.cls in prog.mro(c) for mod in prog.modules.values() for c in mod.classes.values())
            if not overridden:
                g = m
                # a static method called through the instance takes no receiver
                recv = None if any(isinstance(d, ast.Name) and d.id == "staticmethod" for d in m.node.decorator_list) else fn.value
    if g is None or g is f or g.short in known or not _helper_ok(g):
        return None
    if any(isinstance(a, ast.Starred) for a in call.args):
        return None
    stars = [k for k in call.keywords if k.arg is None]
    if stars and not (g.node.args.kwarg is not None and len(stars) == 1 and isinstance(stars[0].value, ast.Name)):
        return None
    if g.node.args.kwarg is not None and not stars:
        # explicit keywords collected by the helper's **kwargs: fine if the helper only hands `**kwargs` on to other calls
        kw = g.node.args.kwarg.arg
        for n in _own_nodes(g.node):
            if isinstance(n, ast.Name) and n.id == kw:
                return None if not _only_forwarded(g.node, kw) else (g, recv)
    # no recursion
    for n in _own_nodes(g.node):
        if isinstance(n, ast.Call) and ((isinstance(n.func, ast.Name) and n.func.id == g.name) or (isinstance(n.func, ast.Attribute) and n.func.attr == g.name)):
            return None
    return g, recv


def _only_forwarded(fn: ast.AST, kw: str) -> bool:
    """Every use of the **kwargs name is `f(..., **kwargs)`."""
    uses = [n for n in _own_nodes(fn) if isinstance(n, ast.Name) and n.id == kw]
    forwarded = [k.value for n in _own_nodes(fn) if isinstance(n, ast.Call) for k in n.keywords if k.arg is None and isinstance(k.value, ast.Name) and k.value.id == kw]
    return len(uses) == len(forwarded)


class _ExplicitKwargs(ast.AST):
    """Marker: the helper's **kwargs is bound to these explicit keyword arguments of the call."""

    _fields = ()

    def __init__(self, items):
        super().__init__()
        self.items = items


def _bind(g: FunctionInfo, call: ast.Call, recv: Optional[ast.AST]) -> Optional[Dict[str, ast.AST]]:
    a = g.node.args
    pos = [x.arg for x in a.posonlyargs + a.args]
    kwonly = [x.arg for x in a.kwonlyargs]
    out: Dict[str, ast.AST] = {}
    extras: List[Tuple[str, ast.AST]] = []
    args = list(call.args)
    if recv is not None:
        if not pos:
            return None
        out[pos[0]] = recv
        pos = pos[1:]
    if len(args) > len(pos):
        return None
    for p, v in zip(pos, args):
        out[p] = v
    for k in call.keywords:
        if k.arg is None:
            # `**kwargs` handed through unchanged to the helper's own **kwargs
            out[a.kwarg.arg] = k.value
            continue
        if k.arg in out:
            return None
        if k.arg not in pos + kwonly:
            if a.kwarg is None:
                return None
            extras.append((k.arg, k.value))
            continue
        out[k.arg] = k.value
    if a.kwarg is not None and a.kwarg.arg not in out:
        out[a.kwarg.arg] = _ExplicitKwargs(extras)
    for p in pos + kwonly:
        if p not in out:
            d = g.param_default(p)
            if d is None:
                return None
            out[p] = d
    return out


def _bool_ifexp(t: ast.AST, a: ast.AST, b: ast.AST) -> ast.AST:
    """`a if t else b`, read as a truth value, as and/or/not."""
    def const(x, v):
        return isinstance(x, ast.Constant) and x.value is v

    def neg(x):
        return x.operand if isinstance(x, ast.UnaryOp) and isinstance(x.op, ast.Not) else ast.UnaryOp(op=ast.Not(), operand=x)

    if const(a, False) or const(a, None):
        return ast.BoolOp(op=ast.And(), values=[neg(t), b]) if not (const(b, True)) else neg(t)
    if const(a, True):
        return ast.BoolOp(op=ast.Or(), values=[t, b]) if not const(b, False) else t
    if const(b, False) or const(b, None):
        return ast.BoolOp(op=ast.And(), values=[t, a])
    if const(b, True):
        return ast.BoolOp(op=ast.Or(), values=[neg(t), a])
    return ast.BoolOp(op=ast.Or(), values=[ast.BoolOp(op=ast.And(), values=[t, a]), ast.BoolOp(op=ast.And(), values=[neg(copy.deepcopy(t)), b])])


def _predicate_expr(stmts: List[ast.stmt]) -> ast.AST:
    """The truth value a pure predicate (only `if` / `return <expr>` statements) returns, as one boolean expression."""
    if not stmts:
        return ast.Constant(value=None)
    st = stmts[0]
    if isinstance(st, ast.Return):
        return copy.deepcopy(st.value) if st.value is not None else ast.Constant(value=None)
    if isinstance(st, ast.If):
        then = _predicate_expr(list(st.body) + list(stmts[1:]))
        els = _predicate_expr(list(st.orelse) + list(stmts[1:]))
        return _bool_ifexp(copy.deepcopy(st.test), then, els)
    if isinstance(st, ast.Pass):
        return _predicate_expr(stmts[1:])
    raise NotEligible("predicate body contains other statements")


def _simple_arg(e: ast.AST) -> bool:
    if isinstance(e, (ast.Name, ast.Constant)):
        return True
    if isinstance(e, ast.Attribute):
        return _simple_arg(e.value)
    if isinstance(e, ast.Subscript):
        return _simple_arg(e.value) and _simple_arg(e.slice)
    return False


class Inliner:
    def __init__(self, prog: Program):
        self.prog = prog
        self.known = set(KNOWN_FUNCTIONS)
        self.counter = 0
        self.expanded: Dict[str, int] = {}
        self.log: List[str] = []

    def expand_statement(self, f: FunctionInfo, st: ast.stmt) -> Optional[List[ast.stmt]]:
        call = None
        if isinstance(st, ast.Expr) and isinstance(st.value, ast.Call):
            call = st.value
        elif isinstance(st, (ast.Assign, ast.AnnAssign, ast.Return)) and isinstance(st.value, ast.Call):
            call = st.value
        if call is None:
            return None
        r = _resolve_helper(self.prog, f, call, self.known)
        if r is None:
            return None
        g, recv = r
        binding = _bind(g, call, recv)
        if binding is None:
            return None
        self.counter += 1
        tag = f"__h{self.counter}"
        body = [copy.deepcopy(s) for s in g.node.body]
        if body and isinstance(body[0], ast.Expr) and isinstance(body[0].value, ast.Constant) and isinstance(body[0].value.value, str):
            body = body[1:]
        stored = _stored_names(body)
        params = list(binding)
        local = set(params) | stored
        if not _free_names_agree(self.prog, g, f, local):
            return None
        ret = f"ret{tag}"
        state = {"value": False}
        try:
            new_body, _ft = _restructure(body, ret, state)
        except NotEligible:
            return None
        mapping: Dict[str, object] = {}
        pre: List[ast.stmt] = []
        caller_stored = _stored_names(f.node.body)
        explicit_kwargs = None
        for p, v in list(binding.items()):
            if isinstance(v, _ExplicitKwargs):
                explicit_kwargs = (p, v.items)
                del binding[p]
        for p, v in binding.items():
            simple = isinstance(v, ast.Name) and p not in stored and (v.id not in stored)
            const = isinstance(v, ast.Constant) and p not in stored
            if simple or const:
                mapping[p] = v
            else:
                tmp = f"{p}{tag}"
                mapping[p] = tmp
                a = ast.Assign(targets=[ast.Name(id=tmp, ctx=ast.Store())], value=copy.deepcopy(v))
                ast.copy_location(a, st)
                pre.append(a)
        for n in stored:
            if n not in mapping:
                mapping[n] = f"{n}{tag}"
        if explicit_kwargs is not None:
            kwname, items = explicit_kwargs

            class Fwd(ast.NodeTransformer):
                def visit_Call(self, c: ast.Call):
                    self.generic_visit(c)
                    new_kw = []
                    for k in c.keywords:
                        if k.arg is None and isinstance(k.value, ast.Name) and k.value.id == kwname:
                            new_kw += [ast.keyword(arg=n_, value=copy.deepcopy(v_)) for n_, v_ in items]
                        else:
                            new_kw.append(k)
                    c.keywords = new_kw
                    return c

            # the explicit values are caller expressions: substitute them after the helper's own names were renamed
            ren = _Rename(mapping)  # type: ignore[arg-type]
            new_body = [Fwd().visit(ren.visit(s)) for s in new_body]
        else:
            ren = _Rename(mapping)  # type: ignore[arg-type]
            new_body = [ren.visit(s) for s in new_body]
        out: List[ast.stmt] = list(pre)
        needs_value = not isinstance(st, ast.Expr)
        if needs_value:
            init = ast.Assign(targets=[ast.Name(id=ret, ctx=ast.Store())], value=ast.Constant(value=None))
            ast.copy_location(init, st)
            # the initial None is only needed when some path falls off the end; keep it simple: always
            if not state["value"] or _ft:
                out.append(init)
        # `a, b = helper(..)` with the helper returning tuple displays: bind the components directly (a = x; b = y), so that
        # the data flow of each component stays visible
        tgt = st.targets[0] if isinstance(st, ast.Assign) and len(st.targets) == 1 else None
        split = False
        if isinstance(tgt, ast.Tuple) and all(isinstance(e, ast.Name) for e in tgt.elts) and state["value"] and not _ft:
            ret_assigns = [x for s_ in new_body for x in [s_] + list(_own_nodes(s_)) if isinstance(x, ast.Assign) and len(x.targets) == 1 and isinstance(x.targets[0], ast.Name) and x.targets[0].id == ret]
            if ret_assigns and all(isinstance(x.value, ast.Tuple) and len(x.value.elts) == len(tgt.elts) for x in ret_assigns):
                split = True

                class Split(ast.NodeTransformer):
                    def visit_Assign(self, x):
                        if len(x.targets) == 1 and isinstance(x.targets[0], ast.Name) and x.targets[0].id == ret and isinstance(x.value, ast.Tuple):
                            parts = []
                            for i_, e_ in enumerate(x.value.elts):
                                parts.append(ast.copy_location(ast.Assign(targets=[ast.Name(id=f"{ret}_{i_}", ctx=ast.Store())], value=e_), x))
                            return parts
                        return x

                new_body = [y for s_ in new_body for y in (lambda r: r if isinstance(r, list) else [r])(Split().visit(s_))]
                out = [o for o in out if not (isinstance(o, ast.Assign) and isinstance(o.targets[0], ast.Name) and o.targets[0].id == ret)]
        out += new_body
        if needs_value and split:
            for i_, e_ in enumerate(tgt.elts):
                a_ = ast.Assign(targets=[ast.Name(id=e_.id, ctx=ast.Store())], value=ast.Name(id=f"{ret}_{i_}", ctx=ast.Load()))
                out.append(ast.copy_location(a_, st))
        elif needs_value:
            st2 = copy.copy(st)
            st2.value = ast.copy_location(ast.Name(id=ret, ctx=ast.Load()), call)
            out.append(st2)
        for s in out:
            ast.fix_missing_locations(s)
        self.expanded[g.qualname] = self.expanded.get(g.qualname, 0) + 1
        self.log.append(f"{f.qualname}: expanded {g.short} at line {getattr(st, 'lineno', '?')}")
        return out or [ast.copy_location(ast.Pass(), st)]

    def expand_block(self, f: FunctionInfo, stmts: List[ast.stmt]) -> bool:
        changed = False
        i = 0
        while i < len(stmts):
            st = stmts[i]
            rep = self.expand_statement(f, st)
            if rep is not None:
                stmts[i:i + 1] = rep
                changed = True
                i += len(rep)
                continue
            for fld in ("body", "orelse", "finalbody"):
                sub = getattr(st, fld, None)
                if isinstance(sub, list) and sub and isinstance(sub[0], ast.stmt) and not isinstance(st, (ast.FunctionDef, ast.AsyncFunctionDef, ast.ClassDef)):
                    changed |= self.expand_block(f, sub)
            for h in getattr(st, "handlers", []) or []:
                changed |= self.expand_block(f, h.body)
            for c in getattr(st, "cases", []) or []:
                changed |= self.expand_block(f, c.body)
            i += 1
        return changed

    def expand_predicates(self, f: FunctionInfo) -> bool:
        """`if not is_valid(x): raise ...` with a new, pure predicate helper: the call is replaced by the predicate's boolean
        expression over the arguments (only inside the tests of if / while / assert statements)."""
        inl = self
        changed = [False]

        class T(ast.NodeTransformer):
            def visit_Call(self, c: ast.Call):
                self.generic_visit(c)
                r = _resolve_helper(inl.prog, f, c, inl.known)
                if r is None:
                    return c
                g, recv = r
                if g.node.args.kwarg is not None or not all(_simple_arg(a) for a in c.args) or not all(_simple_arg(k.value) for k in c.keywords):
                    return c
                binding = _bind(g, c, recv)
                if binding is None:
                    return c
                body = list(g.node.body)
                if body and isinstance(body[0], ast.Expr) and isinstance(body[0].value, ast.Constant) and isinstance(body[0].value.value, str):
                    body = body[1:]
                comp_locals = set()
                for st_ in body:
                    for x_ in ast.walk(st_):
                        if isinstance(x_, ast.comprehension):
                            comp_locals |= {y_.id for y_ in ast.walk(x_.target) if isinstance(y_, ast.Name)}
                if _stored_names(body) - comp_locals:
                    return c  # locals: not a pure expression
                if comp_locals & (set(binding) | {y_.id for a_ in list(c.args) + [k_.value for k_ in c.keywords] for y_ in ast.walk(a_) if isinstance(y_, ast.Name)}):
                    return c  # a comprehension variable would capture an argument name
                try:
                    expr = _predicate_expr(body)
                except NotEligible:
                    return c
                if not _free_names_agree(inl.prog, g, f, set(binding) | comp_locals):
                    return c
                new = _Rename(dict(binding)).visit(expr)  # type: ignore[arg-type]
                ast.copy_location(new, c)
                for x in ast.walk(new):
                    if not hasattr(x, "lineno"):
                        ast.copy_location(x, c)
                ast.fix_missing_locations(new)
                inl.expanded[g.qualname] = inl.expanded.get(g.qualname, 0) + 1
                inl.log.append(f"{f.qualname}: expanded predicate {g.short} at line {getattr(c, 'lineno', '?')}")
                changed[0] = True
                return new

        for n in _own_nodes(f.node):
            if isinstance(n, (ast.If, ast.While, ast.Assert, ast.IfExp)):
                n.test = T().visit(n.test)
        return changed[0]

    def run(self) -> None:
        funcs = list(self.prog.all_functions(include_inlined=True))
        for _round in range(MAX_ROUNDS):
            changed = False
            for f in funcs:
                changed |= self.expand_block(f, f.node.body)
                changed |= self.expand_predicates(f)
            if not changed:
                break
        # helpers that are no longer called anywhere are accounted for in their callers
        remaining: Dict[str, int] = {}
        for f in funcs:
            for n in _own_nodes(f.node):
                if isinstance(n, ast.Call):
                    nm = n.func.id if isinstance(n.func, ast.Name) else n.func.attr if isinstance(n.func, ast.Attribute) else None
                    if nm:
                        remaining[nm] = remaining.get(nm, 0) + 1
        hidden = set()
        for f in funcs:
            if f.qualname in self.expanded and remaining.get(f.name, 0) == 0:
                hidden.add(f.qualname)
        self.prog.inlined_helpers = hidden
        self.prog.inline_log = self.log


def inline_new_helpers(prog: Program) -> None:
    Inliner(prog).run()
