"""AST-computed behaviour-preserving edits for the must-stay-silent corpus."""
from __future__ import annotations

import ast
import copy
import os
from typing import Callable, Dict, List, Set


def _modules(root: str) -> List[str]:
    out = []
    for dp, dn, fn in os.walk(os.path.join(root, "robotools")):
        for f in fn:
            if f.endswith(".py") and not f.startswith("test_"):
                out.append(os.path.join(dp, f))
    return sorted(out)


def _rewrite(root: str, transform: Callable[[ast.Module], ast.Module]) -> bool:
    changed = False
    for path in _modules(root):
        src = open(path, encoding="utf-8").read()
        tree = ast.parse(src)
        before = ast.dump(tree)
        tree = transform(tree)
        ast.fix_missing_locations(tree)
        new = ast.unparse(tree) + "\n"
        if ast.dump(ast.parse(new)) != before:
            changed = True
        with open(path, "w", encoding="utf-8") as f:
            f.write(new)
    return changed


# ------------------------------------------------------------------ operators
def reformat(tree: ast.Module) -> ast.Module:
    return tree  # ast.unparse round trip: drops comments, re-wraps every expression, normalises quotes


class _RenameLocals(ast.NodeTransformer):
    def visit_FunctionDef(self, node: ast.FunctionDef):
        a = node.args
        params = {x.arg for x in a.posonlyargs + a.args + a.kwonlyargs}
        if a.vararg:
            params.add(a.vararg.arg)
        if a.kwarg:
            params.add(a.kwarg.arg)
        stored: Set[str] = set()
        declared: Set[str] = set()
        for sub in ast.walk(node):
            if isinstance(sub, ast.Name) and isinstance(sub.ctx, (ast.Store, ast.Del)):
                stored.add(sub.id)
            if isinstance(sub, (ast.Global, ast.Nonlocal)):
                declared |= set(sub.names)
            if isinstance(sub, ast.ExceptHandler) and sub.name:
                declared.add(sub.name)
            if isinstance(sub, (ast.FunctionDef, ast.ClassDef, ast.Lambda)) and sub is not node:
                declared |= {x.id for x in ast.walk(sub) if isinstance(x, ast.Name)}  # do not touch closures
        local = stored - params - declared
        mapping = {n: f"{n}_loc" for n in local}

        class R(ast.NodeTransformer):
            def visit_Name(self, n: ast.Name):
                if n.id in mapping:
                    return ast.copy_location(ast.Name(id=mapping[n.id], ctx=n.ctx), n)
                return n

        node.body = [R().visit(s) for s in node.body]
        return node


def rename_locals(tree: ast.Module) -> ast.Module:
    return _RenameLocals().visit(tree)


class _AssertToIf(ast.NodeTransformer):
    def visit_Assert(self, node: ast.Assert):
        exc = ast.Call(func=ast.Name(id="AssertionError", ctx=ast.Load()), args=[node.msg] if node.msg is not None else [], keywords=[])
        return ast.copy_location(ast.If(test=ast.UnaryOp(op=ast.Not(), operand=node.test), body=[ast.Raise(exc=exc, cause=None)], orelse=[]), node)


def assert_to_ifraise(tree: ast.Module) -> ast.Module:
    return _AssertToIf().visit(tree)


class _NotIn(ast.NodeTransformer):
    NEG = {ast.In: ast.NotIn, ast.Eq: ast.NotEq, ast.Is: ast.IsNot}

    def visit_UnaryOp(self, node: ast.UnaryOp):
        node = self.generic_visit(node)
        if isinstance(node.op, ast.Not) and isinstance(node.operand, ast.Compare) and len(node.operand.ops) == 1 and type(node.operand.ops[0]) in self.NEG:
            c = node.operand
            return ast.copy_location(ast.Compare(left=c.left, ops=[self.NEG[type(c.ops[0])]()], comparators=c.comparators), node)
        return node


def not_in(tree: ast.Module) -> ast.Module:
    return _NotIn().visit(tree)


class _ReturnTemp(ast.NodeTransformer):
    def visit_FunctionDef(self, node: ast.FunctionDef):
        self.generic_visit(node)
        return node

    def _block(self, stmts):
        out = []
        for s in stmts:
            if isinstance(s, ast.Return) and s.value is not None and not isinstance(s.value, (ast.Name, ast.Constant)):
                tmp = ast.Name(id="result_tmp", ctx=ast.Store())
                out.append(ast.copy_location(ast.Assign(targets=[tmp], value=s.value), s))
                out.append(ast.copy_location(ast.Return(value=ast.Name(id="result_tmp", ctx=ast.Load())), s))
            else:
                out.append(s)
        return out

    def generic_visit(self, node):
        super().generic_visit(node)
        for fld in ("body", "orelse", "finalbody"):
            v = getattr(node, fld, None)
            if isinstance(v, list) and v and all(isinstance(x, ast.stmt) for x in v):
                setattr(node, fld, self._block(v))
        return node


def return_temporaries(tree: ast.Module) -> ast.Module:
    return _ReturnTemp().visit(tree)


class _NumpyAlias(ast.NodeTransformer):
    """`import numpy as np` <-> `import numpy` (whichever the module does not use)."""

    def __init__(self):
        self.map: Dict[str, str] = {}

    def visit_Import(self, node: ast.Import):
        for a in node.names:
            if a.name == "numpy":
                if a.asname == "np":
                    self.map["np"] = "numpy"
                    a.asname = None
                elif a.asname is None:
                    self.map["numpy"] = "np"
                    a.asname = "np"
        return node

    def visit_Name(self, node: ast.Name):
        if node.id in self.map:
            return ast.copy_location(ast.Name(id=self.map[node.id], ctx=node.ctx), node)
        return node


def numpy_alias(tree: ast.Module) -> ast.Module:
    t = _NumpyAlias()
    # imports first, then uses
    for s in tree.body:
        if isinstance(s, ast.Import):
            t.visit_Import(s)
    if not t.map:
        return tree

    class U(ast.NodeTransformer):
        def visit_Name(self, node):
            if node.id in t.map:
                return ast.copy_location(ast.Name(id=t.map[node.id], ctx=node.ctx), node)
            return node

    return U().visit(tree)


class _DocAndPass(ast.NodeTransformer):
    def visit_FunctionDef(self, node: ast.FunctionDef):
        self.generic_visit(node)
        has_doc = node.body and isinstance(node.body[0], ast.Expr) and isinstance(node.body[0].value, ast.Constant) and isinstance(node.body[0].value.value, str)
        note = ast.Expr(value=ast.Constant(value="note: reviewed"))
        node.body = (node.body[:1] if has_doc else []) + [note] + (node.body[1:] if has_doc else node.body)
        if not has_doc:
            node.body.insert(0, ast.Expr(value=ast.Constant(value="Added docstring.")))
        for a in node.args.args + node.args.kwonlyargs:
            if a.annotation is None and a.arg not in ("self", "cls"):
                a.annotation = ast.Constant(value="object")
        return node


def docstrings_and_hints(tree: ast.Module) -> ast.Module:
    return _DocAndPass().visit(tree)


OPERATORS: Dict[str, Callable[[ast.Module], ast.Module]] = {
    "reformat": reformat,
    "rename_locals": rename_locals,
    "assert_to_ifraise": assert_to_ifraise,
    "not_in": not_in,
    "return_temporaries": return_temporaries,
    "numpy_alias": numpy_alias,
    "docstrings_and_hints": docstrings_and_hints,
}


def apply(name: str, root: str) -> bool:
    op = OPERATORS[name]
    _rewrite(root, op)
    return True
