"""Self-validation battery (thorough tier): analyse *variants* of the current tree, statically.

must-fire      : patches that are known to break the property (the reverse of every `fix:` commit, and the
                 confirmed seeded changes under /verif/seeded).  Each must add at least one REFUTED obligation
                 of the expected rule family relative to the unpatched tree.
must-stay-silent: behaviour-preserving refactorings (corpus/benign/*.diff and AST-computed edits).  Each must
                 produce exactly the verdicts of the unpatched tree (no new REFUTED, no INCONCLUSIVE).

Variants are materialised as scratch copies under $TMPDIR/verif-sa-XXXX (outside /repo and /verif), analysed
with the same rule code, and deleted immediately.  Nothing is imported or executed from a variant.
A patch that no longer applies to the current tree is skipped and counted.
"""
from __future__ import annotations

import glob
import importlib
import json
import multiprocessing
import os
import shutil
import subprocess
import tempfile
from typing import Any, Dict, List, Optional, Tuple

HERE = os.path.dirname(os.path.abspath(__file__))
VERIF = os.path.dirname(os.path.dirname(HERE))


def _refuted_keys(prop: str, root: str) -> Tuple[Dict[str, str], List[str]]:
    from sa.main import Ctx

    ctx = Ctx(prop, "quick", root)
    mod = importlib.import_module(f"sa.rules.{prop.lower()}")
    try:
        mod.run(ctx)
    except Exception as e:  # the same treatment as sa.main.run_property: an anchor of the wiring vanished
        from sa.model import AnalysisInconclusive

        if not isinstance(e, AnalysisInconclusive):
            raise
        ctx.rep.inconclusive(e.rule, e.where, e.why + " (the remaining rules of this property were not run)")
    ref = {r.key: r.rule for r in ctx.rep.results if r.status == "REFUTED"}
    inc = [r.key for r in ctx.rep.results if r.status == "INCONCLUSIVE"]
    return ref, inc


def _variant(args) -> Dict[str, Any]:
    prop, root, kind, vid, patch, expect = args
    d = tempfile.mkdtemp(prefix="verif-sa-")
    try:
        shutil.copytree(os.path.join(root, "robotools"), os.path.join(d, "robotools"), ignore=shutil.ignore_patterns("__pycache__", "*.pyc"))
        if patch.endswith(".diff"):
            p = subprocess.run(["patch", "-p1", "-s", "--no-backup-if-mismatch", "-f", "-i", patch], cwd=d, capture_output=True, text=True)
            if p.returncode != 0:
                return {"id": vid, "kind": kind, "status": "skipped", "why": "patch does not apply to the current tree"}
        else:  # AST-computed edit: patch = "module:function" name of an edit operator
            from sa.selfcheck import edits

            if not edits.apply(patch, d):
                return {"id": vid, "kind": kind, "status": "skipped", "why": "edit operator not applicable"}
        try:
            ref, inc = _refuted_keys(prop, d)
        except SyntaxError as e:
            return {"id": vid, "kind": kind, "status": "skipped", "why": f"variant does not parse: {e}"}
        except Exception as e:  # the analysis itself must not crash on a variant
            return {"id": vid, "kind": kind, "status": "error", "why": f"{type(e).__name__}: {e}"}
        return {"id": vid, "kind": kind, "status": "analysed", "refuted": ref, "inconclusive": inc, "expect": expect}
    finally:
        shutil.rmtree(d, ignore_errors=True)


def corpus_for(prop: str) -> List[Tuple[str, str, str, Optional[str]]]:
    """[(kind, id, patch path, expected rule prefix)]"""
    out: List[Tuple[str, str, str, Optional[str]]] = []
    known = json.load(open(os.path.join(VERIF, "known_findings.json")))["findings"]
    for k in known:
        if k.get("status") == "fixed" and k.get("property") == prop:
            p = os.path.join(HERE, "corpus", "prefix", f"{k['commit']}.diff")
            if os.path.exists(p) and os.path.getsize(p) > 0:
                out.append(("must-fire", f"prefix-{k['commit']}", p, k.get("rule")))
    for meta in sorted(glob.glob(os.path.join(VERIF, "seeded", "*", "meta.json"))):
        m = json.load(open(meta))
        own = m.get("property") or str(m.get("id", ""))[:3]
        if own == prop and m.get("detected_by_own_property_check", prop in m.get("detected_by", [])):
            # a change aimed at this property that this check reported when it was filed: it has to stay reported
            out.append(("must-fire", f"seeded-{m['id']}", os.path.join(os.path.dirname(meta), "patch.diff"), None))
        elif own == prop:
            # filed as a miss of this check (see SEEDED.md): analysed and listed, not yet an obligation
            out.append(("may-fire", f"seeded-{m['id']}", os.path.join(os.path.dirname(meta), "patch.diff"), None))
        elif prop in m.get("detected_by", []):
            # aimed at another property, reported here as well when it was filed: informative, not an obligation
            out.append(("may-fire", f"seeded-{m['id']}", os.path.join(os.path.dirname(meta), "patch.diff"), None))
    for p in sorted(glob.glob(os.path.join(HERE, "corpus", "benign", "*.diff"))):
        out.append(("must-stay-silent", "benign-" + os.path.basename(p)[:-5], p, None))
    try:
        from sa.selfcheck import edits

        for name in edits.OPERATORS:
            out.append(("must-stay-silent", "edit-" + name, name, None))
    except ImportError:
        pass
    return out


def run_for(prop: str, root: str) -> Dict[str, Any]:
    base_ref, base_inc = _refuted_keys(prop, root)
    jobs = [(prop, root, kind, vid, patch, expect) for kind, vid, patch, expect in corpus_for(prop)]
    if not jobs:
        return {"variants": 0, "failed": []}
    with multiprocessing.Pool(min(16, max(1, len(jobs)))) as pool:
        results = pool.map(_variant, jobs)
    failed: List[Dict[str, str]] = []
    fired = silent = skipped = 0
    details = []
    for r in results:
        if r["status"] == "skipped":
            skipped += 1
            details.append({"id": r["id"], "result": "skipped", "why": r["why"]})
            continue
        if r["status"] == "error":
            failed.append({"id": r["id"], "why": f"analysis crashed on the variant: {r['why']}"})
            continue
        new = {k: v for k, v in r["refuted"].items() if k not in base_ref}
        if r["kind"] == "must-fire":
            ok = bool(new) and (r["expect"] is None or any(r["expect"] in v for v in new.values()))
            if ok:
                fired += 1
                details.append({"id": r["id"], "result": "fired", "rules": sorted(set(new.values()))[:4]})
            else:
                failed.append({"id": r["id"], "why": f"must-fire variant is not reported (new refuted rules: {sorted(set(new.values()))}, expected {r['expect']})"})
        elif r["kind"] == "may-fire":
            details.append({"id": r["id"], "result": "fired (not an obligation: cross-property or filed as a miss)" if new else "not reported by this property's rules (aimed at another property, or an open miss listed in SEEDED.md)",
                            "rules": sorted(set(new.values()))[:4]})
        else:
            new_inc = [k for k in r["inconclusive"] if k not in base_inc]
            if new or new_inc:
                failed.append({"id": r["id"], "why": f"behaviour-preserving variant changes the verdict: new REFUTED {sorted(new)[:3]}, new INCONCLUSIVE {new_inc[:3]}"})
            else:
                silent += 1
                details.append({"id": r["id"], "result": "silent"})
    return {"variants": len(jobs), "must_fire_fired": fired, "must_stay_silent_ok": silent, "skipped": skipped, "failed": failed, "details": details}
