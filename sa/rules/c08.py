"""C08 - well numbering is column-major, 1-based, and device-specific for troughs."""
from __future__ import annotations

import ast
from typing import Dict, List, Optional, Tuple

from ..canon import Cmp, Poly, to_cmp, to_poly
from ..defuse import is_sym, key, norm_chains, show, strip_norm
from ..engine import return_exprs, Hole, own_walk, template_parts
from ..model import AnalysisInconclusive
from .common import attr_of_name, call_fname, is_name, stmt_key

EXPLANATION = (
    "C08: the return expressions of both get_well_position functions and the value expressions of the _positions "
    "comprehensions are brought into polynomial normal form per guard path and compared with the formulas of the "
    "property (EVO/Fluent plate 1 + c*n_rows + r, EVO trough 1 + c*virtual_rows + r, Fluent trough 1 + c); r/c must be "
    "the .index() of the row/column part of the ID in row_ids/column_ids; all well-ID templates in the package are "
    "{row}{column:02d} over the 26-letter alphabet and 1-based columns, rows nested outside columns; the ID regexes of "
    "both devices are parsed and compared; unknown IDs reach a raising lookup before any emission."
)
ASSUMPTIONS = ["tuple.index()/list.index() return the 0-based position or raise ValueError", "bijectivity follows from the formula with 0 <= r < rows"]

ALPHABET = "ABCDEFGHIJKLMNOPQRSTUVWXYZ"


def run(ctx) -> None:
    from . import objmodel as _om

    ctx.guard("C08.device-hook", _om.protocol_methods, "C08.device-hook", ("BaseWorklist",), ("__init_subclass__", "__new__", "__getattr__", "__getattribute__", "__setattr__"),
              "the numbering a worklist class uses is decided when the class is created / looked up dynamically, not by the `_get_well_position` written in its body (a subclass gets whatever the hook installs)")
    ctx.guard("C08.formula", formulas)
    ctx.guard("C08.formula", positions_attr)
    ctx.guard("C08.device-private", device_private)
    ctx.guard("C08.trough-predicate", trough_predicate)
    # each device class is wired to its own numbering, and the EVO script commands are built for the labware's own grid
    from . import c01, c13
    from .common import concrete_devices

    for dev in concrete_devices(ctx):
        ctx.reuse("C08.device-hook", c01.numbering_hook, dev)
    for name, track in (("evo_aspirate", "remove"), ("evo_dispense", "add")):
        ctx.reuse("C08.evo-grid", c13.same_args, name, track)
    # every geometry of the quantifier exists (26 rows / 26 virtual rows are accepted)
    from . import c20

    ctx.reuse("C08.formula", c20.guard_table)
    from . import c19

    ctx.reuse("C08.helpers", c19.check)
    from . import objmodel

    ctx.guard("C08.id-template", objmodel.labware_model, "C08.id-template")
    ctx.guard("C08.unknown-well", plain_tables)
    # the well ranges of a reagent distribution are positions of the same numbering (whole source column, first..last destination)
    ctx.reuse("C08.device-hook", c01.pair_distribute, "C01.pair-distribute")
    ctx.guard("C08.regex", regex_agreement)
    ctx.guard("C08.id-template", id_templates)
    ctx.guard("C08.id-template", grid_construction)
    ctx.guard("C08.id-template", id_width)
    from .common import memo_rule

    ctx.guard("C08.no-cache", memo_rule, "C08.no-cache", ("transform.py", "liquidhandling/labware.py", "evotools/utils.py", "fluenttools/utils.py"))
    # the well IDs of a labware are what its numbering is read from: the transforms, which are routinely handed `labware.wells`
    # (or a slice of it), leave the array they were given as it is - an in-place write through asarray / ravel lands in the labware
    from .common import arg_mutation_rule

    ctx.guard("C08.ids-readonly", arg_mutation_rule, "C08.ids-readonly", ("WellShifter.shift", "WellShifter.unshift", "WellRotator.rotate_cw", "WellRotator.rotate_ccw", "WellRandomizer.randomize_wells", "WellRandomizer.derandomize_wells"),
              "the caller's ID array (e.g. `labware.wells`) is overwritten with the mapped IDs: the labware's wells no longer agree with its index map")
    ctx.guard("C08.unknown-well", unknown_well)


def _sym(name: str) -> Poly:
    return Poly.symbol(ast.Name(id=name, ctx=ast.Load()))


def _classify(labname: str):
    """opaque-mapper turning r / c lookups and dimensions into named symbols."""

    def opaque(e: ast.AST) -> Optional[Poly]:
        if isinstance(e, ast.Call) and isinstance(e.func, ast.Attribute) and e.func.attr == "index" and len(e.args) == 1:
            recv = e.func.value
            if attr_of_name(recv, labname, "row_ids"):
                return _sym("r[" + _part(e.args[0]) + "]")
            if attr_of_name(recv, labname, "column_ids"):
                return _sym("c[" + _part(e.args[0]) + "]")
            # "".join(labware.row_ids).index(row): a *substring* search in the joined row letters
            if isinstance(recv, ast.Call) and call_fname(recv) == "join" and len(recv.args) == 1 and attr_of_name(recv.args[0], labname, "row_ids"):
                return _sym("r[" + _part(e.args[0]) + " as substring of the joined row letters]")
        if attr_of_name(e, labname, "n_rows"):
            return _sym("n_rows")
        if attr_of_name(e, labname, "n_columns"):
            return _sym("n_columns")
        if attr_of_name(e, labname, "virtual_rows"):
            return _sym("virtual_rows")
        return None

    return opaque


def _part(e: ast.AST) -> str:
    """Which part of the well ID an expression denotes: 'row', 'col' or '?'."""
    t = e
    if isinstance(t, ast.Call) and call_fname(t) == "int" and t.args:
        inner = _part(t.args[0])
        return "col" if inner == "colstr" else "?"
    if isinstance(t, ast.Call) and isinstance(t.func, ast.Attribute) and t.func.attr == "group" and t.args and isinstance(t.args[0], ast.Constant):
        return {1: "row", 2: "colstr"}.get(t.args[0].value, f"group({t.args[0].value}) of the ID pattern")
    # row, digits = m.groups()
    if is_sym(t, "unpack") and isinstance(t.args[0], ast.Call) and isinstance(t.args[0].func, ast.Attribute) and t.args[0].func.attr == "groups" and not t.args[0].args \
            and isinstance(t.args[1], ast.Constant):
        return {0: "row", 1: "colstr"}.get(t.args[1].value, f"group({t.args[1].value + 1}) of the ID pattern")
    if isinstance(t, ast.Subscript) and isinstance(t.value, ast.Call) and isinstance(t.value.func, ast.Attribute) and t.value.func.attr == "groups" and isinstance(t.slice, ast.Constant):
        return {0: "row", 1: "colstr"}.get(t.slice.value, f"group({t.slice.value + 1}) of the ID pattern")
    if isinstance(t, ast.Subscript) and is_name(t.value, "well") and isinstance(t.slice, ast.Constant) and t.slice.value == 0:
        return "row[first letter only]"
    if isinstance(t, ast.Call) and isinstance(t.func, ast.Attribute) and t.func.attr in ("upper", "lower", "casefold", "title", "capitalize", "swapcase", "strip", "lstrip", "rstrip") and not t.args:
        inner = _part(t.func.value)
        if inner.startswith("row"):
            return f"row[changed by .{t.func.attr}()]"
    return "?"


def _trough_of(atoms, labname: str):
    """Is a set of canonical atoms on the trough path (True), the plate path (False) or undetermined (None)?"""
    val = None
    for r, pol in atoms:
        if isinstance(r, ast.Compare) and len(r.ops) == 1 and attr_of_name(r.left, labname, "virtual_rows") and isinstance(r.comparators[0], ast.Constant) and r.comparators[0].value is None:
            # canonical atoms use `is` / `==` with a polarity
            val = not pol
        elif attr_of_name(r, labname, "is_trough"):
            val = pol
        elif isinstance(r, ast.Call) and call_fname(r) == "isinstance" and r.args and is_name(r.args[0], labname):
            return ("isinstance", show(r))
    return val


EXPECTED = {
    ("evotools", True): ("1 + c*virtual_rows + r", lambda: Poly.const(1) + _sym("c[col]") * _sym("virtual_rows") + _sym("r[row]")),
    ("evotools", False): ("1 + c*n_rows + r", lambda: Poly.const(1) + _sym("c[col]") * _sym("n_rows") + _sym("r[row]")),
    ("fluenttools", True): ("1 + c", lambda: Poly.const(1) + _sym("c[col]")),
    ("fluenttools", False): ("1 + c*n_rows + r", lambda: Poly.const(1) + _sym("c[col]") * _sym("n_rows") + _sym("r[row]")),
}


def _n_rows_counts_letters(ctx) -> bool:
    """Labware.n_rows is len(self.row_ids), and row_ids holds rows (plates) / virtual_rows (troughs) letters."""
    lab = ctx.prog.require_class("Labware", "C08.formula")
    f = lab.methods.get("n_rows")
    if f is None:
        return False
    rets = [r for r in return_exprs(f)]
    if len(rets) != 1 or not (isinstance(rets[0], ast.Call) and call_fname(rets[0]) == "len" and rets[0].args and attr_of_name(rets[0].args[0], f.params[0], "row_ids")):
        return False
    from . import init_model

    for (rows, columns, vr), got in init_model.tables(ctx):
        w_ = got.get("_wells")
        if not isinstance(w_, list) or len(w_) != (rows if vr is None else vr):
            return False
    return True


def formulas(ctx, rule: str = "C08.formula") -> None:
    n = 0
    for pkg in ("evotools", "fluenttools"):
        f = ctx.prog.func(f"robotools.{pkg}.utils:get_well_position")
        if f is None:
            ctx.rep.inconclusive(rule, f"{pkg}.get_well_position", "function not found")
            continue
        fv = ctx.fv(f)
        lab = f.params[0]
        opaque = _classify(lab)
        seen = set()
        for node in fv.return_nodes():
          base_atoms = [(r, p) for r, p, br in fv.atoms_at(node.id)]
          for conds, val in fv.alternatives(node.ast.value, node.id):
            trough = _trough_of(base_atoms + list(conds), lab)
            c = f"{f.qualname}/return[{'trough' if trough is True else 'plate' if trough is False else '?'}]"
            w = f.where(node.ast)
            if isinstance(trough, tuple):
                n += 1
                seen |= {True, False}
                ctx.rep.refuted(rule, f"{f.qualname}/trough-test", f"the numbering branches on `{trough[1]}`: whether a labware is a trough is defined by its virtual rows "
                                "(Labware(..., virtual_rows=n) is a trough too), not by its class", where=w)
                continue
            if trough is None:
                # one formula for plates and troughs: on the EVO that is 1 + c*n_rows + r, because n_rows counts the row letters -
                # the virtual rows of a trough included (Labware.n_rows is len(row_ids); row_ids are the first rows / virtual_rows
                # letters: checked on the geometry table of init_model)
                p0 = to_poly(val, opaque)
                if any("substring" in p0.names.get(s_, "") for s_ in p0.symbols()):
                    n += 1
                    ctx.rep.refuted(rule, c, f"{pkg} position `{p0.pretty()[:110]}` looks the row up by substring search in the joined row letters: an ID whose row is a run of "
                                    "consecutive letters ('AB01', 'BCD02') that does not exist in the labware is numbered like its first letter instead of being rejected", where=w, canon=p0.pretty())
                    seen |= {True, False}
                    continue
                if pkg == "evotools" and p0 == EXPECTED[("evotools", False)][1]() and _n_rows_counts_letters(ctx):
                    n += 2
                    seen |= {True, False}
                    ctx.rep.holds(rule, c, f"canonical form {p0.pretty()} for plates and troughs alike (n_rows = number of row letters, virtual rows included)", where=w, canon=p0.pretty())
                    continue
                ctx.rep.inconclusive(rule, c, "return is not guarded by the trough test (virtual_rows is not None / is_trough)", where=w)
                continue
            n += 1
            seen.add(trough)
            p = to_poly(val, opaque)
            text, mk = EXPECTED[(pkg, trough)]
            want = mk()
            unknown = [s_ for s_ in p.symbols() if not any(s_ == k for k in want.symbols())]
            if p == want:
                ctx.rep.holds(rule, c, f"canonical form {p.pretty()} == {text}", where=w, canon=p.pretty())
            elif any("first letter only" in p.names.get(s_, "") for s_ in unknown):
                ctx.rep.refuted(rule, c, f"{pkg} {'trough' if trough else 'plate'} position `{p.pretty()[:100]}` looks the row up by the first character of the ID (`well[0]`) instead of its "
                                "whole letter part: an ID with a multi-letter row that does not exist in the labware (e.g. 'AB01') is numbered like row A instead of being rejected", where=w, canon=p.pretty(), expected=text)
            elif any("changed by" in p.names.get(s_, "") for s_ in unknown):
                how = next(p.names.get(s_, "") for s_ in unknown if "changed by" in p.names.get(s_, ""))
                ctx.rep.refuted(rule, c, f"{pkg} {'trough' if trough else 'plate'} position `{p.pretty()[:100]}` looks the row up after altering the letters of the ID ({how}): an ID that does not exist in "
                                "the labware (e.g. 'a01') is numbered like an existing well instead of being rejected - and the other device still rejects it", where=w, canon=p.pretty(), expected=text)
            elif any("§" in p.names.get(s_, "") or "[?]" in p.names.get(s_, "") for s_ in unknown) and (not _poly_shape_known(p) or any("[?]" in p.names.get(s_, "") for s_ in unknown)):
                ctx.rep.inconclusive(rule, c, f"position `{p.pretty()[:120]}` is outside the fragment (table lookup or unknown ID part)", where=w)
            else:
                ctx.rep.refuted(rule, c, f"{pkg} {'trough' if trough else 'plate'} position is `{p.pretty()[:140]}`; the property requires `{text}` "
                                "(r, c = 0-based row/column index of the named well)", where=w, canon=p.pretty(), expected=text)
        if seen != {True, False}:
            ctx.rep.inconclusive(rule, f"{f.qualname}/paths", f"expected one trough and one plate return path, found {sorted(seen)}")
    ctx.rep.floor(rule, "guarded return paths", n, 4)


def trough_predicate(ctx, rule: str = "C08.trough-predicate") -> None:
    """`Labware.is_trough` - the predicate the Fluent numbering and the partitioning decision branch on - means
    "virtual rows were given", whatever their number."""
    lab = ctx.prog.require_class("Labware", rule)
    f = lab.methods.get("is_trough")
    if f is None:
        ca = lab.class_assigns.get("is_trough")
        if ca is not None:
            ctx.rep.refuted(rule, "Labware.is_trough", f"is_trough is the class attribute `{show(ca)[:30]}`: it follows the class of the object, not whether virtual rows were given "
                            "(Labware(..., virtual_rows=n) is a trough too)", where=f"{lab.module.relpath}:{ca.lineno}")
        else:
            ctx.rep.inconclusive(rule, "Labware.is_trough", "property not found")
        return
    fv = ctx.fv(f)
    selfn = f.params[0]
    rets = fv.returns()
    if not rets:
        ctx.rep.inconclusive(rule, f.qualname, "no return")
        return
    from ..engine import canonical_atom

    for rn, val in rets:
        raw, at = fv.def_expr(rn.ast.value, rn.id)
        atom, pol = canonical_atom(fv.res.resolve(raw, at), True)
        c = f"{f.qualname}/return"
        w = f.where(rn.ast)
        is_vr = isinstance(atom, ast.Compare) and len(atom.ops) == 1 and isinstance(atom.ops[0], (ast.Is, ast.Eq)) and attr_of_name(atom.left, selfn, "virtual_rows") \
            and isinstance(atom.comparators[0], ast.Constant) and atom.comparators[0].value is None
        if is_vr and not pol:
            ctx.rep.holds(rule, c, "is_trough == (virtual_rows is not None)", where=w)
        elif any(isinstance(x, ast.Attribute) and x.attr in ("virtual_rows", "n_rows", "shape", "_volumes", "row_ids", "wells", "_wells") for x in ast.walk(atom)) or isinstance(atom, ast.Constant):
            ctx.rep.refuted(rule, c, f"is_trough is `{show(raw)[:60]}`: a labware counts as a trough exactly when virtual rows were given (also a single one); with this definition "
                            "a trough with virtual_rows=1 is numbered and partitioned like a plate", where=w)
        elif any(isinstance(x, ast.Call) and call_fname(x) in ("isinstance", "issubclass", "type") for x in ast.walk(atom)) or any(isinstance(x, ast.Attribute) and x.attr == "__class__" for x in ast.walk(atom)):
            ctx.rep.refuted(rule, c, f"is_trough is `{show(raw)[:60]}`: it follows the class of the object, not whether virtual rows were given - Labware(..., rows=1, virtual_rows=n) is a trough too "
                            "and would be numbered (Fluent) and partitioned like a plate", where=w)
        else:
            ctx.rep.inconclusive(rule, c, f"cannot relate `{show(raw)[:60]}` to `virtual_rows is not None`", where=w)


def device_private(ctx, rule: str = "C08.device-private") -> None:
    """The two numberings differ for troughs, so nothing one of them stores on the labware may be read by the other."""
    MUT = {"append", "extend", "insert", "pop", "clear", "update", "setdefault", "__setitem__", "add"}
    info = {}
    for pkg in ("evotools", "fluenttools"):
        f = ctx.prog.func(f"robotools.{pkg}.utils:get_well_position")
        if f is None:
            ctx.rep.inconclusive(rule, f"{pkg}.get_well_position", "function not found")
            return
        ctx.rep.touch(f)
        # what the device package exports under that name is its own numbering
        pm = ctx.prog.modules.get(f"robotools.{pkg}")
        if pm is not None and ("get_well_position" in pm.imports or "get_well_position" in pm.functions):
            exp = ctx.prog.resolve_name(pm, "get_well_position")
            ctx.rep.check(exp is f, rule, f"robotools.{pkg}/export", f"robotools.{pkg}.get_well_position is the {pkg} numbering",
                          f"robotools.{pkg} exports `get_well_position` from `{getattr(getattr(exp, 'module', None), 'name', exp)}`: users of the {pkg} package number trough wells by the other device's rule",
                          where=f"robotools/{pkg}/__init__.py")
        lab = f.params[0]
        writes, reads = {}, set()
        for sub in own_walk(f.node):
            if isinstance(sub, ast.Attribute) and is_name(sub.value, lab):
                if isinstance(sub.ctx, ast.Load):
                    reads.add(sub.attr)
                else:
                    writes.setdefault(sub.attr, sub)
            if isinstance(sub, ast.Subscript) and isinstance(sub.ctx, (ast.Store, ast.Del)):
                root = sub.value
                while isinstance(root, ast.Subscript):
                    root = root.value
                if isinstance(root, ast.Attribute) and is_name(root.value, lab):
                    writes.setdefault(root.attr, sub)
            if isinstance(sub, ast.Call) and isinstance(sub.func, ast.Attribute) and sub.func.attr in MUT:
                root = sub.func.value
                while isinstance(root, ast.Subscript):
                    root = root.value
                if isinstance(root, ast.Attribute) and is_name(root.value, lab):
                    writes.setdefault(root.attr, sub)
        info[pkg] = (f, writes, reads)
    n = 0
    for a, b in (("evotools", "fluenttools"), ("fluenttools", "evotools")):
        fa, wa, _ = info[a]
        fb, _, rb = info[b]
        shared = sorted(set(wa) & rb)
        for attr in shared:
            n += 1
            ctx.rep.refuted(rule, f"{fa.qualname}/labware.{attr}", f"the {a} numbering stores into `labware.{attr}` and the {b} numbering reads it: the number computed for one device is handed to the other, "
                            "although the two count trough wells differently", where=fa.where(wa[attr]))
    if n == 0:
        ctx.rep.holds(rule, "get_well_position(evotools|fluenttools)", "neither numbering reads labware state written by the other "
                      f"(writes: {sorted(info['evotools'][1])} / {sorted(info['fluenttools'][1])})")


def _poly_shape_known(p: Poly) -> bool:
    return all(all(s for s in m) for m in p.terms)


def positions_attr(ctx, rule: str = "C08.formula") -> None:
    f = ctx.prog.require_func("Labware.__init__", rule)
    fv = ctx.fv(f)
    n = 0
    direct = [x for x in fv.cfg.nodes if x.kind == "stmt" and isinstance(x.ast, ast.Assign) and isinstance(x.ast.targets[0], ast.Attribute) and x.ast.targets[0].attr == "_positions"]
    if len(direct) < 2 or not all(isinstance(x.ast.value, ast.DictComp) for x in direct):
        # not the two comprehensions (plate / trough): evaluate the constructor's tables for a table of geometries
        from . import init_model

        ctx.rep.touch(f)
        for attr, what in (("_positions", "1 + c*rows + r (plates) / 1 + c*virtual_rows + r (troughs)"), ("_wells", "the ID grid, one row per (virtual) row letter")):
            v, detail = init_model.verdict(ctx, attr)
            c = f"{f.qualname}/{attr}[evaluated]"
            if v == "holds":
                ctx.rep.holds(rule, c, detail + ": " + what, where=f.where())
            elif v == "refuted":
                ctx.rep.refuted(rule, c, detail, where=f.where())
            else:
                ctx.rep.inconclusive(rule, c, detail, where=f.where())
        return
    for node in fv.cfg.nodes:
        if node.kind != "stmt" or not isinstance(node.ast, ast.Assign):
            continue
        t = node.ast.targets[0]
        if not (isinstance(t, ast.Attribute) and t.attr == "_positions"):
            continue
        n += 1
        v = node.ast.value
        w = f.where(node.ast)
        if not isinstance(v, ast.DictComp):
            ctx.rep.inconclusive(rule, f"{f.qualname}/_positions", "not a dict comprehension", where=w)
            continue
        trough = None
        for r, pol, raw in fv.rfacts_at(node.id):
            if isinstance(r, ast.Compare) and len(r.ops) == 1 and is_name(r.left, "virtual_rows") and isinstance(r.comparators[0], ast.Constant) and r.comparators[0].value is None:
                trough = (isinstance(r.ops[0], (ast.IsNot, ast.NotEq))) == pol
        counters: Dict[str, str] = {}
        for g in v.generators:
            if isinstance(g.iter, ast.Call) and call_fname(g.iter) == "enumerate" and g.iter.args and isinstance(g.target, ast.Tuple) and isinstance(g.target.elts[0], ast.Name):
                src = g.iter.args[0]
                counters[g.target.elts[0].id] = src.attr if isinstance(src, ast.Attribute) else getattr(src, "id", "?")

        def opaque(e):
            if isinstance(e, ast.Name) and e.id in counters:
                return _sym({"row_ids": "r", "column_ids": "c"}.get(counters[e.id], "?" + counters[e.id]))
            if isinstance(e, ast.Name) and e.id in ("rows", "virtual_rows", "columns"):
                return _sym(e.id)
            return None

        p = to_poly(v.value, opaque)
        if trough is None:
            ctx.rep.inconclusive(rule, f"{f.qualname}/_positions", "cannot tell plate from trough branch", where=w)
            continue
        want = Poly.const(1) + _sym("c") * _sym("virtual_rows" if trough else "rows") + _sym("r")
        ctx.rep.check(p == want, rule, f"{f.qualname}/_positions[{'trough' if trough else 'plate'}]", f"{p.pretty()}",
                      f"`positions` entries are `{p.pretty()}`; expected `{want.pretty()}`", where=w)
    ctx.rep.floor(rule, "_positions constructions", n, 2)


# ------------------------------------------------------------------------------ regex
def _regex_shape(pattern: str):
    import re._parser as sp  # stdlib regex parser: the pattern is parsed, never executed

    try:
        tree = sp.parse(pattern)
    except Exception as e:  # pragma: no cover
        return None, f"unparsable: {e}"
    items = list(tree)
    anchors = [it for it in items if it[0] == sp.AT]
    groups = [it for it in items if it[0] == sp.SUBPATTERN]
    other = [it for it in items if it[0] not in (sp.AT, sp.SUBPATTERN)]
    if other or len(groups) != 2 or len(anchors) != 2:
        return None, f"not `^(<letters>)(<digits>)$` ({pattern!r})"

    def rep(g):
        body = list(g[1][3])
        if len(body) == 1 and body[0][0] in (sp.MIN_REPEAT, sp.MAX_REPEAT):
            lo, hi, inner = body[0][1]
            return lo, hi, list(inner)
        if len(body) == 1:
            return 1, 1, body
        return None

    r1, r2 = rep(groups[0]), rep(groups[1])
    if r1 is None or r2 is None:
        return None, "groups are not simple repeats"

    def covers(inner, lo_c, hi_c):
        if len(inner) != 1 or inner[0][0] != sp.IN:
            return False
        s = set()
        for kind, val in inner[0][1]:
            if kind == sp.RANGE:
                s |= set(range(val[0], val[1] + 1))
            elif kind == sp.LITERAL:
                s.add(val)
            elif kind == sp.CATEGORY and val == sp.CATEGORY_DIGIT:
                s |= set(range(ord("0"), ord("9") + 1))
        return all(c in s for c in range(ord(lo_c), ord(hi_c) + 1))

    ok_letters = covers(r1[2], "A", "Z") and r1[0] == 1
    ok_digits = covers(r2[2], "0", "9") and r2[0] <= 2 and (r2[1] >= 3)
    return (ok_letters, ok_digits, r1[:2], r2[:2]), ""


def _pattern_used_by(ctx, f, depth: int = 0):
    """(name, pattern text, compile call) of the compiled regex that `f` - or a new helper it calls - matches well IDs with."""
    if depth > 3:
        return None
    fv = ctx.fv(f)
    for sub in own_walk(f.node):
        if isinstance(sub, ast.Call) and isinstance(sub.func, ast.Attribute) and sub.func.attr in ("match", "fullmatch", "search") and isinstance(sub.func.value, ast.Name):
            r = ctx.prog.resolve_name(f.module, sub.func.value.id)
            if isinstance(r, tuple) and r[0] == "value":
                v = r[1].assigns.get(r[2])
                if isinstance(v, ast.Call) and call_fname(v) == "compile" and v.args and isinstance(v.args[0], ast.Constant) and isinstance(v.args[0].value, str):
                    return (r[2], v.args[0].value, v)
    for cs in fv.calls():
        hv = fv._helper_view(cs.call)
        if hv is not None:
            got = _pattern_used_by(ctx, hv[0], depth + 1)
            if got is not None:
                return got
    return None


def regex_agreement(ctx, rule: str = "C08.regex") -> None:
    pats = {}
    for pkg in ("evotools", "fluenttools"):
        m = ctx.prog.modules.get(f"robotools.{pkg}.utils")
        if m is None:
            ctx.rep.inconclusive(rule, pkg, "module not found")
            return
        f = m.functions.get("get_well_position")
        found = _pattern_used_by(ctx, f) if f is not None else None
        if found is None:
            for name, v in m.assigns.items():
                if isinstance(v, ast.Call) and call_fname(v) == "compile" and v.args and isinstance(v.args[0], ast.Constant) and isinstance(v.args[0].value, str):
                    found = (name, v.args[0].value, v)
        if found is None or f is None:
            ctx.rep.inconclusive(rule, pkg, "well-ID regex not found")
            return
        ctx.rep.touch(f)
        pats[pkg] = found
        shape, why = _regex_shape(found[1])
        c = f"robotools.{pkg}.utils:{found[0]}"
        if shape is None:
            ctx.rep.inconclusive(rule, c, why, where=f"{m.relpath}:{found[2].lineno}")
            continue
        okl, okd, r1, r2 = shape
        ctx.rep.check(okl and okd, rule, c, f"`{found[1]}` = one or more letters followed by the digits of the column number",
                      f"well-ID pattern `{found[1]}` (row repeat {r1}, column repeat {r2}) does not accept every ID <letters><column number>: columns with three digits (>= 100) or valid rows are rejected / mis-split",
                      where=f"{m.relpath}:{found[2].lineno}")
        # a non-matching ID raises ValueError
        fv = ctx.fv(f)
        ok_raise = False
        for n, test, pol, r in fv.raising_guards():
            rt = fv.res.resolve(test, n.id)
            if isinstance(rt, ast.Compare) and isinstance(rt.ops[0], ast.Is) and isinstance(rt.comparators[0], ast.Constant) and rt.comparators[0].value is None and pol:
                from .common import raise_class

                ok_raise = raise_class(fv, r)[0] == "ValueError"
        if not ok_raise:
            from ..guards import raising_terms

            for term, n_, cls in raising_terms(fv, None):
                if cls == "ValueError" and any(a.kind == "none" and getattr(a, "is_none", False) for a in term):
                    ok_raise = True
        ctx.rep.check(ok_raise, rule, c + "/no-match", "a non-matching ID raises ValueError", "an ID that does not match the pattern is not rejected with ValueError", where=f.where())
    if len(pats) == 2:
        a, b = pats["evotools"][1], pats["fluenttools"][1]
        ctx.rep.check(a == b, rule, "evotools~fluenttools/pattern", "both devices parse well IDs with the same pattern",
                      f"EVO parses well IDs with `{a}` but Fluent with `{b}`: the same ID is accepted on one device and rejected (or split differently) on the other")


# ------------------------------------------------------------------------ ID templates
def _well_id_templates(ctx):
    """All f-strings of the shape {row}{column:0Nd} (optionally with a constant row letter) in the package."""
    out = []
    for f in ctx.prog.all_functions():
        for sub in own_walk(f.node):
            if isinstance(sub, ast.JoinedStr):
                parts = template_parts(sub)
                holes = [p for p in parts if isinstance(p, Hole)]
                consts = [p for p in parts if isinstance(p, str)]
                if len(holes) == 2 and not consts and holes[0].spec is None and holes[1].spec and holes[1].spec.endswith("d"):
                    out.append((f, sub, None, holes[0], holes[1]))
                elif len(holes) == 1 and len(consts) == 1 and isinstance(parts[0], str) and len(parts[0]) == 1 and parts[0].isalpha() and holes[0].spec and holes[0].spec.endswith("d"):
                    out.append((f, sub, parts[0], None, holes[0]))
    return out


def id_templates(ctx, rule: str = "C08.id-template") -> None:
    sites = _well_id_templates(ctx)
    for f, js, letter, rowh, colh in sites:
        ctx.rep.touch(f)
        c = f"{f.qualname}/{stmt_key(js)[:40]}"
        w = f.where(js)
        ctx.rep.check(colh.spec == "02d", rule, c + "/pad", "column is zero-padded to two digits", f"well ID template `{stmt_key(js)}` pads the column with `:{colh.spec}`; every ID in the package (and the labware's index map) uses :02d", where=w)
        if letter is not None:
            ctx.rep.check(letter == "A", rule, c + "/row", "row-A key", f"constant row letter `{letter}`", where=w)
    ctx.rep.floor(rule, "well-ID templates", len(sites), 3)  # 8 today; shared helpers legitimately reduce the number of sites
    # alphabet literals
    n_alpha = 0
    for m in ctx.prog.modules.values():
        for sub in ast.walk(m.tree):
            if isinstance(sub, ast.Constant) and isinstance(sub.value, str) and len(sub.value) >= 20 and sub.value.isalpha() and sub.value.isupper():
                n_alpha += 1
                ctx.rep.check(sub.value == ALPHABET, rule, f"{m.name}/alphabet@{n_alpha}", "row alphabet is A..Z in order",
                              f"row alphabet literal `{sub.value}` is not the 26 letters A..Z in order", where=f"{m.relpath}:{sub.lineno}")
    ctx.rep.floor(rule, "row alphabet literals", n_alpha, 1)


_FIXED_STR_DTYPE = __import__("re").compile(r"^[<>|=]?[USa](\d+)$")


def _fixed_width_dtypes(tree: ast.AST):
    """(call, width) for every array construction with a fixed-width string dtype literal ('<U3', 'S4', ...)."""
    out = []
    for sub in ast.walk(tree):
        if not isinstance(sub, ast.Call):
            continue
        cands = [k.value for k in sub.keywords if k.arg == "dtype"]
        if call_fname(sub) in ("empty", "zeros", "full", "array", "asarray", "empty_like", "zeros_like", "full_like", "astype", "dtype", "chararray"):
            cands += list(sub.args[1:]) if call_fname(sub) not in ("astype", "dtype") else list(sub.args[:1])
        for c in cands:
            if isinstance(c, ast.Constant) and isinstance(c.value, str):
                m = _FIXED_STR_DTYPE.match(c.value)
                if m:
                    out.append((sub, int(m.group(1))))
    return out


def id_width(ctx, rule: str = "C08.id-template") -> None:
    """Well IDs have no maximum length (A100 for the 100th column): no array that holds them has a fixed-width string dtype."""
    n = 0
    for f in ctx.prog.all_functions():
        for call, width in _fixed_width_dtypes(f.node):
            n += 1
            ctx.rep.touch(f)
            ctx.rep.refuted(rule, f"{f.qualname}/dtype[{width}]", f"`{show(call)[:60]}` creates a string array whose elements are cut to {width} characters: well IDs of columns >= 100 "
                            "(A100 -> A10) collide with other wells, so the array disagrees with the labware's wells/indices", where=f.where(call))
    # positive fixture: the rule expects zero sites on the real tree
    fx = ast.parse("import numpy\ndef fx(R, C):\n    return numpy.empty((R, C), dtype='<U3')\n")
    if not _fixed_width_dtypes(fx):
        ctx.rep.inconclusive(rule, "fixture/fixed-width-dtype", "embedded positive fixture was not detected: rule is broken")
    elif n == 0:
        ctx.rep.holds(rule, "package/no-fixed-width-string-arrays", "no array is created with a fixed-width string dtype literal (fixture with dtype='<U3' is detected)")


def plain_tables(ctx) -> None:
    """The ID tables of a labware are plain dicts: looking up an ID that is not a well of the labware raises KeyError. A dict
    subclass with `__missing__` / `__getitem__` / `get` / `__contains__` of its own answers such lookups."""
    rule = "C08.unknown-well"
    f = ctx.prog.require_func("Labware.__init__", rule)
    hits = []
    n = 0
    for st in own_walk(f.node):
        if isinstance(st, (ast.Assign, ast.AnnAssign)) and getattr(st, "value", None) is not None:
            tgts = st.targets if isinstance(st, ast.Assign) else [st.target]
            if any(isinstance(t, ast.Attribute) and t.attr in ("_indices", "_positions") for t in tgts):
                n += 1
                v = st.value
                if isinstance(v, ast.Call) and isinstance(v.func, ast.Name):
                    cls = ctx.prog.class_by_name(v.func.id)
                    if cls is not None:
                        own = sorted(set(cls.methods) & {"__missing__", "__getitem__", "get", "__contains__", "setdefault"})
                        if own:
                            hits.append((st, cls, own))
    for st, cls, own in hits:
        ctx.rep.refuted(rule, f"{f.qualname}/table-type[{cls.name}]", f"the ID table is a `{cls.name}`, which defines {own}: an ID that is not a well of the labware is answered instead of failing with "
                        "KeyError - operations on a non-existent well emit records", where=f.where(st))
    if not hits:
        ctx.rep.holds(rule, f"{f.qualname}/table-type", f"{n} table binding(s), none through a mapping class with a lookup of its own", where=f.where())


def _ids_evaluated(ctx, rule: str, f, node, what: str) -> bool:
    """Another spelling of the row / column ids: decided on the evaluated well-ID table and index map of the constructor (13
    geometries, rules/init_model.py). -> True when the evaluation gave HOLDS (reported); False to let the caller report."""
    from . import init_model

    verdicts = [init_model.verdict(ctx, a_) for a_ in ("_wells", "_indices")]
    if all(v_[0] == "holds" for v_ in verdicts):
        ctx.rep.holds(rule, f"{f.qualname}/{what}[evaluated]", f"{what} written differently; " + verdicts[0][1], where=f.where(node.ast))
        return True
    return False


def grid_construction(ctx, rule: str = "C08.id-template") -> None:
    """rows nested outside columns; columns 1-based; row ids = alphabet prefix of the (virtual) row count."""
    f = ctx.prog.require_func("Labware.__init__", rule)
    fv = ctx.fv(f)
    w = f.where()
    found = {"_wells": False, "row_ids": False, "column_ids": False}
    for node in fv.cfg.nodes:
        if node.kind != "stmt" or not isinstance(node.ast, ast.Assign) or not isinstance(node.ast.targets[0], ast.Attribute):
            continue
        name = node.ast.targets[0].attr
        v = node.ast.value
        if name == "column_ids":
            found[name] = True
            inner = v.args[0] if isinstance(v, ast.Call) and call_fname(v) in ("list", "tuple") and v.args else v
            ok = isinstance(inner, ast.Call) and call_fname(inner) == "range" and len(inner.args) == 2 and isinstance(inner.args[0], ast.Constant) and inner.args[0].value == 1 \
                and to_poly(inner.args[1]) == Poly.symbol(ast.Name(id="columns", ctx=ast.Load())) + Poly.const(1)
            if not ok and _ids_evaluated(ctx, rule, f, node, "column_ids"):
                continue
            ctx.rep.check(ok, rule, f"{f.qualname}/column_ids", "column ids are 1..columns", f"column ids are `{show(v)}`; expected range(1, columns + 1)", where=f.where(node.ast))
        elif name == "row_ids":
            found[name] = True
            inner = v.args[0] if isinstance(v, ast.Call) and call_fname(v) in ("list", "tuple") and v.args else v
            inner = fv.def_expr(inner, node.id)[0] if isinstance(inner, ast.Name) else inner
            alpha = fv.res.resolve(inner.value, node.id) if isinstance(inner, ast.Subscript) else None
            ok = isinstance(inner, ast.Subscript) and isinstance(alpha, ast.Constant) and alpha.value == ALPHABET and isinstance(inner.slice, ast.Slice) and inner.slice.lower is None and inner.slice.step is None
            bound_ok = False
            if ok and inner.slice.upper is not None:
                # rows for plates, virtual_rows for troughs: every alternative of the bound, with the condition it is chosen under
                alts = fv.alternatives(inner.slice.upper, node.id)
                seen_b = set()
                bound_ok = True
                for conds, val in alts:
                    virt = None  # is `virtual_rows` given on this alternative?
                    for r, pol in conds:
                        if is_name(r, "virtual_rows"):
                            virt = pol
                        elif isinstance(r, ast.Compare) and len(r.ops) == 1 and is_name(r.left, "virtual_rows") and isinstance(r.ops[0], ast.Is) \
                                and isinstance(r.comparators[0], ast.Constant) and r.comparators[0].value is None:
                            virt = not pol
                    if is_name(val, "virtual_rows") and virt is True:
                        seen_b.add("virtual_rows")
                    elif is_name(val, "rows") and virt is False:
                        seen_b.add("rows")
                    else:
                        bound_ok = False
                bound_ok = bound_ok and seen_b == {"rows", "virtual_rows"}
            if not (ok and bound_ok) and _ids_evaluated(ctx, rule, f, node, "row_ids"):
                continue
            ctx.rep.check(ok and bound_ok, rule, f"{f.qualname}/row_ids", "row ids = first `rows` (plates) / `virtual_rows` (troughs) letters",
                          f"row ids are `{show(v)[:80]}`; expected the alphabet prefix of length rows (plate) / virtual_rows (trough)", where=f.where(node.ast))
            # more rows than letters must be rejected before (literal-slice rule; owned by C20, referenced here)
        elif name == "_wells":
            found[name] = True
            arr = v.args[0] if isinstance(v, ast.Call) and call_fname(v) == "array" and v.args else v
            ok = isinstance(arr, ast.ListComp) and isinstance(arr.elt, ast.ListComp)
            if ok:
                outer_it, inner_it = arr.generators[0].iter, arr.elt.generators[0].iter
                ok = attr_of_name(outer_it, f.params[0], "row_ids") and attr_of_name(inner_it, f.params[0], "column_ids") and len(arr.generators) == 1 and len(arr.elt.generators) == 1 \
                    and not arr.generators[0].ifs and not arr.elt.generators[0].ifs
            if not ok:
                # another spelling (a helper that takes the row / column ids, a loop, ...): decide on the evaluated table
                from . import init_model

                ev_, det_ = init_model.verdict(ctx, "_wells")
                if ev_ == "holds":
                    ctx.rep.holds(rule, f"{f.qualname}/_wells[evaluated]", det_, where=f.where(node.ast))
                    continue
                if ev_ == "unknown":
                    ctx.rep.inconclusive(rule, f"{f.qualname}/_wells", det_, where=f.where(node.ast))
                    continue
                ctx.rep.refuted(rule, f"{f.qualname}/_wells[evaluated]", det_, where=f.where(node.ast))
                continue
            ctx.rep.check(ok, rule, f"{f.qualname}/_wells", "wells[r, c]: rows nested outside columns, every row x column",
                          "the well-ID array is not built as [[id(row, column) for column in column_ids] for row in row_ids]", where=f.where(node.ast))
    for k, v in found.items():
        if not v and k == "_wells":
            # bound together with the other tables (a helper that returns all three, a tuple assignment): decide on the evaluated table
            from . import init_model

            ev_, det_ = init_model.verdict(ctx, "_wells")
            if ev_ == "holds":
                ctx.rep.holds(rule, f"{f.qualname}/_wells[evaluated]", det_, where=w)
            elif ev_ == "refuted":
                ctx.rep.refuted(rule, f"{f.qualname}/_wells[evaluated]", det_, where=w)
            else:
                ctx.rep.inconclusive(rule, f"{f.qualname}/_wells", "assignment not found; " + det_, where=w)
        elif not v:
            ctx.rep.inconclusive(rule, f"{f.qualname}/{k}", "assignment not found")
    # helpers in transform.py
    for name in ("make_well_array", "make_well_index_dict"):
        g = ctx.prog.func(name)
        if g is None:
            ctx.rep.inconclusive(rule, name, "helper not found")
            continue
        ctx.rep.touch(g)
        gv = ctx.fv(g)
        shape = _grid_shape(gv, name)
        if shape is None:
            from . import init_model

            ev_, det_ = init_model.grid_helpers_verdict(ctx, name)
            if ev_ == "holds":
                ctx.rep.holds(rule, f"{g.qualname}/grid[evaluated]", det_, where=g.where())
                continue
            if ev_ == "refuted":
                ctx.rep.refuted(rule, f"{g.qualname}/grid[evaluated]", det_, where=g.where())
                continue
            ctx.rep.inconclusive(rule, f"{g.qualname}/grid", f"cannot extract (row iteration, column iteration, ID template, index) from {name}; {det_}", where=g.where())
            continue
        outer, inner, idx_ok, at = shape
        outer_r = gv.res.resolve(outer.value, at) if isinstance(outer, ast.Subscript) else outer
        alpha_ok = isinstance(outer, ast.Subscript) and isinstance(outer_r, ast.Constant) and outer_r.value == ALPHABET and isinstance(outer.slice, ast.Slice) \
            and outer.slice.lower is None and outer.slice.step is None and is_name(outer.slice.upper, g.params[0])
        ok = alpha_ok and _one_based(inner, g.params[1]) and idx_ok
        ctx.rep.check(ok, rule, f"{g.qualname}/grid", "rows = alphabet[:R] (outer), columns = 1..C (inner), index (r, c)",
                      f"{name} does not enumerate rows alphabet[:R] x columns 1..C with index (r, c) (rows over `{show(outer)[:40]}`, columns over `{show(inner)[:30]}`)", where=g.where())


def _unenum(it: ast.AST):
    """enumerate(X) -> (X, True);  X -> (X, False)"""
    if isinstance(it, ast.Call) and call_fname(it) == "enumerate" and it.args and len(it.args) == 1 and not it.keywords:
        return it.args[0], True
    return it, False


def _grid_shape(gv, name: str):
    """(row iterable, column iterable, index-tuple-is-(r, c), node) of the nested comprehension / nested loop that builds the grid."""
    rets = gv.return_nodes()
    if len(rets) != 1:
        return None
    rn = rets[0]
    v, at = gv.def_expr(rn.ast.value, rn.id)
    if name == "make_well_array":
        arr = v.args[0] if isinstance(v, ast.Call) and call_fname(v) == "array" and v.args else v
        arr, at = gv.def_expr(arr, at) if isinstance(arr, ast.Name) else (arr, at)
        if isinstance(arr, ast.ListComp) and isinstance(arr.elt, ast.ListComp) and len(arr.generators) == 1 and len(arr.elt.generators) == 1:
            return arr.generators[0].iter, arr.elt.generators[0].iter, True, at
        # rows = []; for row in OUT: rows.append([... for column in IN])
        lname = None
        root = v.args[0] if isinstance(v, ast.Call) and call_fname(v) == "array" and v.args else v
        if isinstance(root, ast.Name):
            lname = root.id
        apps = [cs for cs in gv.calls() if isinstance(cs.call.func, ast.Attribute) and cs.call.func.attr == "append" and is_name(cs.call.func.value, lname)]
        if lname and len(apps) == 1 and len(apps[0].call.args) == 1:
            loops = [h for h in gv.cfg.enclosing_loops(apps[0].node) if gv.cfg.nodes[h].kind == "for"]
            row = gv.def_expr(apps[0].call.args[0], apps[0].node)[0]
            if len(loops) == 1 and isinstance(row, ast.ListComp) and len(row.generators) == 1 and not gv.controlling(apps[0].node, within=gv.cfg.loop_body[loops[0]]):
                return gv.cfg.nodes[loops[0]].ast.iter, row.generators[0].iter, True, loops[0]
            # the row list is itself filled by an inner loop:  row = []; for column in IN: row.append(<id>)
            if len(loops) == 1 and isinstance(apps[0].call.args[0], ast.Name) and not gv.controlling(apps[0].node, within=gv.cfg.loop_body[loops[0]]):
                rname = apps[0].call.args[0].id
                inner_apps = [cs for cs in gv.calls() if isinstance(cs.call.func, ast.Attribute) and cs.call.func.attr == "append" and is_name(cs.call.func.value, rname)]
                if len(inner_apps) == 1:
                    il = [h for h in gv.cfg.enclosing_loops(inner_apps[0].node) if gv.cfg.nodes[h].kind == "for"]
                    if len(il) == 2 and il[0] == loops[0] and not gv.controlling(inner_apps[0].node, within=gv.cfg.loop_body[il[0]]):
                        return gv.cfg.nodes[loops[0]].ast.iter, gv.cfg.nodes[il[1]].ast.iter, True, loops[0]
        return None
    # make_well_index_dict
    if isinstance(v, ast.DictComp) and len(v.generators) == 2 and isinstance(v.value, ast.Tuple) and len(v.value.elts) == 2:
        g0, g1 = v.generators
        (e0, en0), (e1, en1) = _unenum(g0.iter), _unenum(g1.iter)
        if en0 and en1 and isinstance(g0.target, ast.Tuple) and isinstance(g1.target, ast.Tuple):
            idx_ok = [getattr(x, "id", None) for x in v.value.elts] == [g0.target.elts[0].id, g1.target.elts[0].id]
            return e0, e1, idx_ok, at
        return None
    if isinstance(v, ast.Name) or isinstance(rn.ast.value, ast.Name):
        dname = rn.ast.value.id if isinstance(rn.ast.value, ast.Name) else None
        stores = [n for n in gv.cfg.nodes if n.kind == "stmt" and isinstance(n.ast, ast.Assign) and isinstance(n.ast.targets[0], ast.Subscript) and is_name(n.ast.targets[0].value, dname)]
        if dname and len(stores) == 1:
            st = stores[0]
            loops = [h for h in gv.cfg.enclosing_loops(st.id) if gv.cfg.nodes[h].kind == "for"]
            if len(loops) == 2 and not gv.controlling(st.id, within=gv.cfg.loop_body[loops[0]]):
                l0, l1 = gv.cfg.nodes[loops[0]].ast, gv.cfg.nodes[loops[1]].ast
                (e0, en0), (e1, en1) = _unenum(l0.iter), _unenum(l1.iter)
                val = gv.def_expr(st.ast.value, st.id)[0]
                if en0 and en1 and isinstance(l0.target, ast.Tuple) and isinstance(l1.target, ast.Tuple) and isinstance(val, ast.Tuple) and len(val.elts) == 2:
                    idx_ok = [getattr(x, "id", None) for x in val.elts] == [l0.target.elts[0].id, l1.target.elts[0].id]
                    return e0, e1, idx_ok, loops[0]
    return None


def _alpha_prefix(it: ast.AST, rname: str) -> bool:
    return isinstance(it, ast.Subscript) and isinstance(it.value, ast.Constant) and it.value.value == ALPHABET and isinstance(it.slice, ast.Slice) and it.slice.lower is None and is_name(it.slice.upper, rname)


def _one_based(it: ast.AST, cname: str) -> bool:
    return isinstance(it, ast.Call) and call_fname(it) == "range" and len(it.args) == 2 and isinstance(it.args[0], ast.Constant) and it.args[0].value == 1 \
        and to_poly(it.args[1]) == Poly.symbol(ast.Name(id=cname, ctx=ast.Load())) + Poly.const(1)


def unknown_well(ctx, rule: str = "C08.unknown-well") -> None:
    """Unknown IDs raise before a record is emitted: the tracking lookup indices[well] precedes every emission and
    receives the well IDs uncoerced."""
    from . import c03

    ctx.reuse(rule, c03.check_before_emit)
    # ... and the lookup sees every named well: aspirate/dispense hand the full, unfiltered well list to the tracking call
    from . import c01
    from .common import concrete_devices

    for dev in concrete_devices(ctx):
        for meth, track, kind_ in (("aspirate", "remove", "A"), ("dispense", "add", "D")):
            ctx.reuse(rule, c01.pair_ad, dev, meth, track, kind_)
    from . import c13

    ctx.reuse(rule, c13.selection_array)
    from .common import class_state_rule

    # every well number the numbering functions can produce is accepted by the record emitters
    from . import c09

    ctx.reuse("C08.unknown-well", c09.accepts_valid)
    ctx.guard("C08.instance-state", class_state_rule, "C08.instance-state", ("Labware", "Trough"), "its wells / indices / positions tables")
    for kind in ("add", "remove"):
        f = ctx.prog.require_func(f"Labware.{kind}", rule)
        fv = ctx.fv(f)
        from . import labware_loop as LL

        stores = [s for s in LL.analyse_stores(ctx, fv) if s.well_elem is not None]
        if not stores:
            ctx.rep.inconclusive(rule, f"{f.qualname}/lookup", "index lookup not found")
            continue
        seq = stores[0].well_elem[1]
        coerced = []
        for ch in norm_chains(seq):
            for nm, call in ch:
                for kw in call.keywords:
                    if kw.arg == "dtype":
                        coerced.append(show(call)[:70])
                if nm == "astype":
                    coerced.append(show(call)[:70])
        ctx.rep.check(not coerced, rule, f"{f.qualname}/lookup", "well IDs reach the index lookup uncoerced (unknown IDs raise KeyError)",
                      f"well IDs are coerced before the lookup ({coerced}): over-long or foreign IDs can be truncated into an existing well instead of raising", where=f.where())
