"""C17 - saving writes exactly the records, one per line, replacing earlier content."""
from __future__ import annotations

import ast
from typing import Optional

from ..defuse import is_sym, key, show
from ..engine import own_walk, return_exprs
from ..model import AnalysisInconclusive
from .common import attr_of_name, call_fname, concrete_devices, is_name, kwarg, raise_class, stmt_key

EXPLANATION = (
    "C17: abstract evaluation of the file configuration of save(): exactly one open() and one write(); mode truncates "
    "('w' / 'wb'); effective record separator (join separator translated by the newline= argument) is CRLF; encoding "
    "is Latin-1; the written value is exactly <sep>.join(self) with nothing concatenated; the extension guard tests "
    "the suffix and dominates the open(); __enter__ clears and returns self; __exit__ saves unconditionally (shared "
    "with C03.exit); __repr__/__str__ join the records with a line break."
)
ASSUMPTIONS = ["text-mode open(newline='\\r\\n') translates every '\\n' written to '\\r\\n'; newline='' writes verbatim"]

LATIN1 = {"latin_1", "latin-1", "latin1", "iso-8859-1", "iso8859-1", "iso8859_1", "8859", "cp819", "l1", "iso_8859_1"}


def run(ctx) -> None:
    ctx.guard("C17.open-config", open_config)
    ctx.guard("C17.extension", extension)
    ctx.guard("C17.context", context)
    ctx.guard("C17.str", strings)
    ctx.guard("C17.accepts-valid", accepts_valid)
    # the device classes take the file path exactly like the base class (auto-save works for every worklist type)
    from . import c16

    ctx.reuse("C17.open-config", c16.override_set)
    from .common import finally_jump_rule

    from .common import empty_partial_rule

    ctx.guard("C17.context", empty_partial_rule, "C17.context", ("BaseWorklist.__enter__", "BaseWorklist.__exit__", "BaseWorklist.save", "BaseWorklist.__repr__", "BaseWorklist.__str__"),
              "the empty worklist is a record list like any other: its file must be written (replacing an older, longer file) and its text shown")
    ctx.guard("C17.context", ctor_path_only)
    from . import objmodel

    ctx.guard("C17.str", objmodel.worklist_model, "C17.str")
    ctx.guard("C17.str", format_evaluated)
    from . import c09 as _c09

    ctx.reuse("C17.context", _c09.list_overrides)
    ctx.guard("C17.context", finally_jump_rule, "C17.context", ("BaseWorklist.__exit__", "BaseWorklist.save"),
              "a refusal of save() (wrong extension, unwritable target) never reaches the caller, the with-block ends as if the file had been written")


def _save(ctx, rule):
    base = ctx.prog.require_class("BaseWorklist", rule)
    f = base.methods.get("save")
    if f is None:
        raise AnalysisInconclusive(rule, "BaseWorklist.save", "not found")
    for dev in concrete_devices(ctx):
        if "save" in dev.methods:
            ctx.rep.refuted(rule, f"{dev.name}.save", f"{dev.name} overrides save(): files differ between devices", where=dev.methods["save"].where())
    return base, f, ctx.fv(f, base)


def _const(t) -> Optional[object]:
    return t.value if isinstance(t, ast.Constant) else None


def open_config(ctx) -> None:
    rule = "C17.open-config"
    base, f, fv = _save(ctx, rule)
    selfn = f.params[0]
    opens = [cs for cs in fv.calls() if (isinstance(cs.call.func, ast.Name) and cs.call.func.id == "open") or (isinstance(cs.call.func, ast.Attribute) and cs.call.func.attr in ("open", "write_text", "write_bytes"))]
    writes = [cs for cs in fv.calls() if isinstance(cs.call.func, ast.Attribute) and cs.call.func.attr in ("write", "writelines")]
    c = f"{f.qualname}"
    if len(opens) != 1 or len(writes) != 1 or call_fname(opens[0].call) != "open" or call_fname(writes[0].call) != "write":
        ctx.rep.check(None if not opens else False, rule, c + "/one-open-one-write", "", f"expected exactly one open() and one write() in save(), found {len(opens)} / {len(writes)} ({[call_fname(x.call) for x in opens + writes]})", where=f.where())
        return
    op, wr = opens[0], writes[0]
    w = f.where(op.call)
    in_loop = fv.cfg.enclosing_loops(wr.node)
    ctx.rep.check(not in_loop and fv.cfg.postdominates(wr.node, op.node), rule, c + "/single-write", "one write on every path after open", "write() is conditional or inside a loop", where=f.where(wr.call))
    # every call of save() that returns normally has (re)written the file: no return before the open()
    early = [n for n in fv.cfg.nodes if n.kind == "stmt" and isinstance(n.ast, ast.Return) and not fv.cfg.dominates(op.node, n.id)]
    implicit_ok = fv.cfg.dominates(op.node, fv.cfg.exit) if not early else False
    ctx.rep.check(not early and implicit_ok, rule, c + "/always-writes", "save() writes the file on every path that returns",
                  f"`{stmt_key(early[0].ast)[:40] if early else 'a path'}` leaves save() without writing: the file keeps whatever a previous run left in it "
                  "(stale records / other line breaks) although save() reported success", where=f.where(early[0].ast) if early else w)
    # mode
    mode_e = op.call.args[1] if len(op.call.args) > 1 else kwarg(op.call, "mode")
    mode_t = fv.res.resolve(mode_e, op.node) if mode_e is not None else ast.Constant(value="r")
    mode = _const(mode_t)
    if mode is None:
        ctx.rep.check(False, rule, c + "/mode", "", f"open mode `{show(mode_t)}` is not the constant 'w': an existing longer file may keep its tail (or the call fails)", where=w)
        binary = False
    else:
        binary = "b" in mode
        ctx.rep.check(set(mode) - {"b", "t"} == {"w"}, rule, c + "/mode", "mode 'w' truncates", f"open mode {mode!r} does not truncate/replace the file: residue of a previous, longer file survives (or existing files are refused)", where=w)
    # target path
    path_t = fv.res.resolve(op.call.args[0], op.node) if op.call.args else None
    base_path = path_t
    while isinstance(base_path, ast.Call) and call_fname(base_path) in ("Path", "str", "fspath") and base_path.args:
        base_path = base_path.args[0]
    ctx.rep.check(base_path is not None and is_name(base_path, "filepath"), rule, c + "/path", "writes to the given path", f"writes to `{show(path_t) if path_t is not None else None}` instead of the given filepath", where=w)
    # written value
    val = fv.res.resolve(wr.call.args[0], wr.node) if wr.call.args else None
    enc_in_value = None
    if isinstance(val, ast.Call) and isinstance(val.func, ast.Attribute) and val.func.attr == "encode":
        enc_in_value = _const(val.args[0]) if val.args else "utf-8"
        val = val.func.value
    sep = None
    ok_join = False
    if isinstance(val, ast.Call) and isinstance(val.func, ast.Attribute) and val.func.attr == "join" and len(val.args) == 1:
        sep = _const(val.func.value)
        ok_join = is_name(val.args[0], selfn)
    ctx.rep.check(ok_join, rule, c + "/content", "content is exactly <separator>.join(self)",
                  f"the written content is `{show(val)[:80] if val is not None else None}`: not exactly the records of the worklist joined by one separator (prefix/suffix/terminator or different iteration)", where=f.where(wr.call))
    # newline translation / encoding
    newline = kwarg(op.call, "newline")
    enc = kwarg(op.call, "encoding")
    nl = _const(fv.res.resolve(newline, op.node)) if newline is not None else "<platform default>"
    if binary:
        eff = sep
        encoding = enc_in_value
    else:
        eff = None
        if sep == "\n" and nl == "\r\n":
            eff = "\r\n"
        elif sep == "\r\n" and nl in ("", "\n"):
            eff = "\r\n"
        elif sep is not None and nl == "\r\n":
            eff = sep.replace("\n", "\r\n")
        elif sep is not None and nl in ("", "\n"):
            eff = sep
        encoding = _const(fv.res.resolve(enc, op.node)) if enc is not None else "<locale default>"
        et = fv.res.resolve(enc, op.node) if enc is not None else None
        if isinstance(et, ast.Name) and et.id in f.params[1:]:
            # the encoding is an (optional) parameter of save: what the documented calls - save(path) and the with-block - write
            # is decided by its default, provided no call inside the package passes another one
            d = f.param_default(et.id)
            passing = []
            for g in ctx.prog.all_functions(include_inlined=True):
                for x in own_walk(g.node):
                    if isinstance(x, ast.Call) and isinstance(x.func, ast.Attribute) and x.func.attr == "save" and (
                            any(k.arg == et.id or k.arg is None for k in x.keywords) or len(x.args) > 1 or any(isinstance(a, ast.Starred) for a in x.args)):
                        passing.append(g.qualname)
            if d is not None and not passing:
                encoding = _const(d)
    ctx.rep.check(eff == "\r\n", rule, c + "/separator", "effective record separator is CRLF",
                  f"records are joined by {sep!r} and written with newline={nl!r}: the effective separator is {eff!r}, not CRLF", where=w)
    ok_enc = isinstance(encoding, str) and encoding.lower() in LATIN1
    ctx.rep.check(ok_enc, rule, c + "/encoding", "Latin-1 encoding", f"the file is written with encoding {encoding!r}; the worklist format is Latin-1 ('µ' must be one byte)", where=w)
    # a stale file must not survive: either 'w' (checked) - unlink is optional; but nothing may be written before/after
    others = [cs for cs in fv.calls() if isinstance(cs.call.func, ast.Attribute) and cs.call.func.attr in ("writelines", "write_text", "write_bytes", "seek", "truncate")]
    ctx.rep.check(not others, rule, c + "/no-extra-io", "no additional file manipulation", f"additional file manipulation `{call_fname(others[0].call) if others else ''}` in save()", where=f.where())


def extension(ctx) -> None:
    rule = "C17.extension"
    base, f, fv = _save(ctx, rule)
    opens = [cs for cs in fv.calls() if call_fname(cs.call) == "open"]
    if not opens:
        ctx.rep.inconclusive(rule, f.qualname, "open() not found")
        return
    op = opens[0]
    verdict = None
    detail = "no guard on the file extension dominates open()"
    for core, p, br in fv.atoms_at(op.node):
        txt = show(core).replace(" ", "")
        if ".gwl" not in txt:
            continue
        # suffix equality / endswith (case-folded)
        if isinstance(core, ast.Compare) and len(core.ops) == 1 and isinstance(core.ops[0], ast.Eq) and p:
            sides = [core.left, core.comparators[0]]
            other = [s for s in sides if not (isinstance(s, ast.Constant) and s.value == ".gwl")]
            if len(other) == 1 and "suffix" in show(other[0]):
                verdict = True
        elif isinstance(core, ast.Call) and call_fname(core) == "endswith" and p and core.args and isinstance(core.args[0], ast.Constant) and core.args[0].value == ".gwl":
            verdict = True
        elif isinstance(core, ast.Compare) and len(core.ops) == 1 and isinstance(core.ops[0], ast.In) and p:
            verdict = False
            detail = f"`{show(core)}` only tests that '.gwl' occurs somewhere in the name: 'x.gwl.txt' is accepted"
    ok_raises = any(fv.cfg.dominates(n.id, op.node) and ".gwl" in show(fv.res.resolve(test, n.id)) for n, test, pol, r in fv.raising_guards())
    ctx.rep.check(verdict is True and ok_raises, rule, f"{f.qualname}/gwl", "file names whose extension is not .gwl are refused before the file is touched", detail, where=f.where())
    # nothing touches the file system before the guard
    early = [cs for cs in fv.calls() if call_fname(cs.call) in ("unlink", "remove", "open", "touch") and not any(fv.cfg.dominates(n.id, cs.node) and ".gwl" in show(fv.res.resolve(test, n.id)) for n, test, pol, r in fv.raising_guards())]
    ctx.rep.check(not early, rule, f"{f.qualname}/guard-first", "the extension guard precedes every file operation", f"`{call_fname(early[0].call) if early else ''}` happens before the extension guard", where=f.where())


def context(ctx) -> None:
    rule = "C17.context"
    base = ctx.prog.require_class("BaseWorklist", rule)
    for dev in [base] + concrete_devices(ctx):
        f = ctx.prog.find_method(dev, "__enter__")
        if f is None:
            ctx.rep.refuted(rule, f"{dev.name}.__enter__", "no __enter__")
            continue
        fv = ctx.fv(f, dev)
        selfn = f.params[0]
        clears = [cs for cs in fv.calls() if isinstance(cs.call.func, ast.Attribute) and cs.call.func.attr == "clear" and is_name(cs.call.func.value, selfn)]
        ok_clear = len(clears) == 1 and fv.cfg.postdominates(clears[0].node, fv.cfg.entry)
        rets = [t for n, t in fv.returns()]
        ok_ret = bool(rets) and all(is_name(r, selfn) for r in rets)
        ctx.rep.check(ok_clear, rule, f"{dev.name}.__enter__/clear", "entering the with-block starts from an empty worklist", "__enter__ does not unconditionally clear the worklist", where=f.where())
        ctx.rep.check(ok_ret, rule, f"{dev.name}.__enter__/return", "__enter__ returns the worklist itself", "__enter__ does not return self", where=f.where())
    from . import c03

    ctx.reuse("C17.context", c03.exit_saves, "C03.exit")
    # filepath is stored as given
    init = base.methods.get("__init__")
    if init is not None:
        fv = ctx.fv(init, base)
        stores = [n for n in fv.cfg.nodes if n.kind == "stmt" and isinstance(n.ast, (ast.Assign, ast.AnnAssign)) and attr_of_name(n.ast.targets[0] if isinstance(n.ast, ast.Assign) else n.ast.target, init.params[0], "_filepath")]
        vals = [fv.res.resolve(n.ast.value, n.id) for n in stores if n.ast.value is not None]
        # `None if filepath is None else Path(filepath)`: both arms
        vals = [a_ for v in vals for a_ in ([v.body, v.orelse] if isinstance(v, ast.IfExp) else list(v.args) if is_sym(v, "alt") else [v])]
        ok = any(isinstance(v, ast.Call) and call_fname(v) == "Path" and v.args and is_name(v.args[0], "filepath") for v in vals) or any(is_name(v, "filepath") for v in vals)
        ctx.rep.check(ok, rule, f"{init.qualname}/filepath", "the configured path is stored", "the configured file path is not stored as given", where=init.where())
        # `if self._filepath:` in __exit__ means "a path was configured" only while the stored value is None or a Path object
        # (always true); a path kept as the caller's str makes "" look like "no path": nothing is written, nothing is refused
        raw_str = any(is_name(v, "filepath") or (is_sym(v, "phi") and any(is_name(a_, "filepath") for a_ in v.args)) for v in vals)
        for dev in [base] + concrete_devices(ctx):
            ex = ctx.prog.find_method(dev, "__exit__")
            if ex is None:
                continue
            ev = ctx.fv(ex, dev)
            for cs in ev.calls():
                if cs.callee.kind == "func" and cs.callee.func.name == "save":
                    for d, pol in ev.controlling(cs.node):
                        t = ev.cfg.nodes[d].ast
                        truthy = attr_of_name(t, ex.params[0], "_filepath")
                        ctx.rep.check(not (truthy and raw_str), rule, f"{dev.name}.__exit__/configured-test", "'a path is configured' is decided by `is not None` or on a Path object",
                                      "the path is stored as the caller's str and __exit__ tests its truth value: a worklist created with filepath='' leaves the with-block without writing "
                                      "a file and without the refusal that save('') gives", where=ex.where(cs.call))


def format_evaluated(ctx) -> None:
    """`format(worklist)` / f"{worklist}" show the same records as str(): a `__format__` of the worklist classes is interpreted
    (rules/init_model.py; nothing of the repository is executed) for the empty format spec and record lists of 0, 1 and many
    records; the result has to be the records joined by line breaks."""
    from . import init_model

    rule = "C17.str"
    base = ctx.prog.require_class("BaseWorklist", rule)
    n = 0
    for dev in [base] + concrete_devices(ctx):
        f = dev.methods.get("__format__")
        if f is None or len(f.params) != 2:
            continue
        n += 1
        ctx.rep.touch(f)
        bad = unknown = None
        for recs in ([], ["A;a;;;1;;10.00;;;;"], list(SAMPLE_RECORDS)):
            kind, val = init_model.run_function(f, {f.params[0]: list(recs), f.params[1]: ""}, ctx.prog)
            if kind == "return" and isinstance(val, str):
                if val != "\n".join(recs) and bad is None:
                    bad = (recs, val)
            else:
                unknown = unknown or recs
        if bad is not None:
            ctx.rep.refuted(rule, f"{f.qualname}/empty-spec", f"format() of a worklist with {len(bad[0])} record(s) and no format spec gives {len(bad[1].splitlines())} line(s): "
                            "f-strings and format() do not show the records that str() shows", where=f.where())
        elif unknown is not None:
            ctx.rep.inconclusive(rule, f"{f.qualname}/empty-spec", "__format__ could not be evaluated (construct outside the interpreter's fragment)", where=f.where())
        else:
            ctx.rep.holds(rule, f"{f.qualname}/empty-spec", "format() without a spec shows the records like str() (evaluation table)", where=f.where())
    if n == 0:
        ctx.rep.holds(rule, "worklists/no-__format__", "the worklist classes do not define __format__: format() without a spec is str()")


def ctor_path_only(ctx) -> None:
    """Constructing a worklist with a file path only *remembers* the path: the parameter is compared with None and handed to
    Path(); nothing else is computed from it and the file system is not touched (a bare file name has no directory part,
    a relative path is resolved when the file is written)."""
    rule = "C17.context"
    base = ctx.prog.require_class("BaseWorklist", rule)
    n = 0
    for dev in [base] + concrete_devices(ctx):
        init = dev.methods.get("__init__")
        if init is None or "filepath" not in init.params:
            continue
        n += 1
        ctx.rep.touch(init)
        parents = {}
        for p_ in ast.walk(init.node):
            for ch in ast.iter_child_nodes(p_):
                parents[id(ch)] = p_
        bad = []
        for x in own_walk(init.node):
            if not (isinstance(x, ast.Name) and x.id == "filepath" and isinstance(x.ctx, ast.Load)):
                continue
            par = parents.get(id(x))
            if isinstance(par, ast.Compare) and all(isinstance(o, (ast.Is, ast.IsNot)) for o in par.ops):
                continue
            if isinstance(par, ast.Call) and call_fname(par) == "Path" and par.args == [x] and not par.keywords:
                continue
            if isinstance(par, (ast.Assign, ast.AnnAssign)) and par.value is x:
                continue
            if isinstance(par, ast.keyword) or (isinstance(par, ast.Call) and call_fname(par) == "__init__") or (isinstance(par, ast.Starred)):
                continue  # handed on to the base constructor (checked by the override rule)
            if isinstance(par, ast.Call) and isinstance(par.func, ast.Attribute) and par.func.attr == "__init__":
                continue
            if isinstance(par, ast.Call) and isinstance(par.func, ast.Attribute) and par.func.attr in ("debug", "info", "warning", "error", "log") and x in par.args[1:]:
                continue  # a lazily formatted argument of a log call
            bad.append(par if par is not None else x)
        ctx.rep.check(not bad, rule, f"{init.qualname}/path-only", "the constructor only remembers the path (None test, Path(filepath))",
                      f"the constructor computes `{show(bad[0])[:60] if bad else ''}` from the path before any file is written: a path that save() accepts (a bare file name, a not yet "
                      "existing folder) can be refused or acted on at construction, and the with-block then writes nothing", where=init.where())
    ctx.rep.floor(rule, "worklist constructors that take a file path", n, 1)


def strings(ctx) -> None:
    rule = "C17.str"
    base = ctx.prog.require_class("BaseWorklist", rule)
    rp = base.methods.get("__repr__")
    st = base.methods.get("__str__")
    if rp is None or st is None:
        ctx.rep.inconclusive(rule, "BaseWorklist.__repr__/__str__", "not found")
        return
    ctx.rep.touch(rp)
    ctx.rep.touch(st)

    def is_join(e, selfn):
        return isinstance(e, ast.Call) and isinstance(e.func, ast.Attribute) and e.func.attr == "join" and isinstance(e.func.value, ast.Constant) and e.func.value.value == "\n" and len(e.args) == 1 and is_name(e.args[0], selfn)

    r1 = [t for n, t in ctx.fv(rp, base).returns()]
    ok1 = len(r1) == 1 and is_join(r1[0], rp.params[0])
    ctx.rep.check(ok1, rule, f"{rp.qualname}", "repr = records joined by a line break", f"__repr__ returns `{show(r1[0])[:60] if r1 else None}`: not the records joined by one line break each", where=rp.where())
    r2 = [t for n, t in ctx.fv(st, base).returns()]
    ok2 = len(r2) == 1 and (is_join(r2[0], st.params[0]) or (isinstance(r2[0], ast.Call) and isinstance(r2[0].func, ast.Attribute) and r2[0].func.attr == "__repr__" and is_name(r2[0].func.value, st.params[0]))
                            or (isinstance(r2[0], ast.Call) and is_name(r2[0].func, "repr") and r2[0].args and is_name(r2[0].args[0], st.params[0])))
    ctx.rep.check(ok2, rule, f"{st.qualname}", "str shows the same records", f"__str__ returns `{show(r2[0])[:60] if r2 else None}`", where=st.where())
    for dev in concrete_devices(ctx):
        for nm in ("__repr__", "__str__"):
            if nm in dev.methods:
                ctx.rep.refuted(rule, f"{dev.name}.{nm}", f"{dev.name} overrides {nm}", where=dev.methods[nm].where())


SAMPLE_RECORDS = (
    "A;Plate;;;1;;10.00;;;;", "D;Plate;;96 Well;12;;950.00;Water;;128;", "A;T;R1;Trough;0;tube;0.00;;;;", "W;", "W1;", "W2;", "W3;", "W4;", "WD;", "F;", "B;", "S;1", "S;4",
    "C;", "C;comment with \u00b5l and ; inside", "R;S;;;1;8;D;;;1;96;100;LC;1;1;0", "R;S;;;1;8;D;;;1;96;100.5;LC;2;3;1;3;5",
    'B;Aspirate(255,"Water","10","10","10","10","10","10","10","10",0,0,0,0,22,0,1,"0C08¯1000000",0,0);', 'B;Dispense(1,"LC","2.5",0,0,0,0,0,0,0,0,0,0,0,22,0,1,"0C0810000000",0,0);',
    'B;Wash(255,1,1,1,0,"2.0",500,"1.0",500,10,70,30,0,0,1000,0);',
)


def accepts_valid(ctx) -> None:
    """save() writes every worklist: it is interpreted (rules/init_model.py - our own interpreter, nothing of the repository is
    executed, nothing is written) with `self` bound to lists of records of every type the package emits - and to the empty
    list - and a .gwl path; it must not reach a raise through a guard that can be evaluated (e.g. a record filter)."""
    from . import init_model

    rule = "C17.accepts-valid"
    base, f, fv = _save(ctx, rule)
    ctx.rep.touch(f)
    selfn, pathn = f.params[0], f.params[1]
    bad = None
    lists = [[], list(SAMPLE_RECORDS)] + [[r] for r in SAMPLE_RECORDS]
    n = 0
    for recs in lists:
        for path in ("out.gwl", "dir/Out.GWL"):
            kind, _ = init_model.run_function(f, {selfn: list(recs), pathn: path}, ctx.prog)
            n += 1
            if kind == "raise" and bad is None and len(recs) <= 1:
                bad = (recs, path)
            elif kind == "raise" and bad is None:
                bad = (["<all sample records>"], path)
    if bad and bad[0] == ["<all sample records>"]:
        # name the record
        for recs in lists[2:]:
            if init_model.run_function(f, {selfn: list(recs), pathn: "out.gwl"}, ctx.prog)[0] == "raise":
                bad = (recs, "out.gwl")
                break
    ctx.rep.check(bad is None, rule, f"{f.qualname}/valid-worklists", f"none of the {n} (record list, path) pairs of the evaluation table is refused",
                  f"save() refuses the worklist {bad[0] if bad else ''} (path {bad[1] if bad else ''}): a guard that rejects it was reached, no file with these records is written", where=f.where())
