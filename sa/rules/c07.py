"""C07 - transfers move each requested volume between the paired wells, one tip at a time."""
from __future__ import annotations

import ast
from dataclasses import dataclass
from typing import List, Optional

from ..canon import Cmp, Poly, to_cmp, to_poly
from ..defuse import is_sym, key, show, strip_norm
from ..engine import own_walk
from ..model import AnalysisInconclusive
from .common import attr_of_name, call_fname, concrete_devices, elem_parts, is_name, raise_class, same_seq, stmt_key

EXPLANATION = (
    "C07: shape of the step block in both transfer copies. Inside the innermost loop the only effectful sequence is "
    "aspirate(source, s, v) -> dispense(destination, d, v) -> counter -> tip action, both calls with label=None and the "
    "same unmodified **kwargs; the tip action dispatch is total and exact (flush => F;, reuse => nothing, else "
    "wash(scheme=wash_scheme)), wash() validates the scheme / emits W; in DiTi mode; a break follows every split "
    "column group; unequal lengths and negative (or NaN) volumes are rejected before the first step; only singletons "
    "are broadcast. Aggregated numeric flows follow from C18/C06 clauses and are not recomputed."
)
ASSUMPTIONS = ["the triples reach the step block intact (C18) and every list element is visited once (C06.iteration-space)"]


@dataclass
class TStruct:
    fv: object
    f: object
    G: int  # loop over column groups
    P: int  # loop over partitions
    Z: int  # loop over rows (zip)
    A: object
    D: object


def transfer_structure(ctx, dev, rule: str) -> TStruct:
    f = ctx.prog.find_method(dev, "transfer")
    if f is None:
        raise AnalysisInconclusive(rule, f"{dev.name}.transfer", "not found")
    fv = ctx.fv(f, dev)
    from .c01 import find_step_calls

    asp, dis = find_step_calls(ctx, fv, dev)
    if len(asp) != 1 or len(dis) != 1:
        raise AnalysisInconclusive(rule, f"{dev.name}.transfer", f"step calls not found ({len(asp)} aspirate / {len(dis)} dispense)")
    A, D = asp[0], dis[0]
    loops = [h for h in fv.cfg.enclosing_loops(A.node) if fv.cfg.nodes[h].kind == "for"]
    loops.sort(key=lambda h: len(fv.cfg.loop_body[h]), reverse=True)
    if len(loops) != 3:
        raise AnalysisInconclusive(rule, f"{dev.name}.transfer", f"expected the step inside 3 nested loops (groups, partitions, rows), found {len(loops)}")
    return TStruct(fv, f, loops[0], loops[1], loops[2], A, D)


def run(ctx) -> None:
    for dev in concrete_devices(ctx):
        ctx.guard("C07.step-block", step_block, dev)
        ctx.guard("C07.tip-action", tip_action, dev)
        ctx.guard("C07.break", breaks, dev)
        ctx.guard("C07.reject", reject, dev)
        from . import c01, c04

        ctx.reuse("C07.pairing", c01.pair_transfer, dev)
        ctx.reuse("C07.record-pair", c01.numbering_hook, dev)
        # both records of a pair are produced by the same filter / kwargs discipline in aspirate and dispense
        for meth, track, kind in (("aspirate", "remove", "A"), ("dispense", "add", "D")):
            ctx.reuse("C07.record-pair", c01.pair_ad, dev, meth, track, kind)
    ctx.guard("C07.tip-action", wash_method)
    # a transfer that is refused raises to the caller: leaving the `with` block must not swallow the exception (a truthy
    # __exit__ result drops the rejection silently and the rest of the block with it)
    from . import c03 as _c03x

    ctx.reuse("C07.reject", _c03x.exit_saves, "C03.exit")
    # the DiTi switch (and the limit) the user configured reaches every worklist class unchanged
    from . import c16

    ctx.reuse("C07.tip-action", c16.override_set)
    from . import c06 as _c06

    ctx.guard("C07.tip-action", _c06.ctor_stores, "C07.tip-action", ("diti_mode",), 1)
    from . import objmodel

    ctx.guard("C07.tip-action", objmodel.worklist_model, "C07.tip-action")
    for meth in ("aspirate", "dispense"):
        ctx.guard("C07.step-block", step_records_only, meth)
    from . import c04, c18

    ctx.reuse("C07.broadcast", c04.pairing_family)
    ctx.reuse("C07.partition", c18.grouping)
    ctx.reuse("C07.partition", c18.sorting)
    ctx.reuse("C07.partition", c18.optimize)
    # split volumes add up to the requested volume, and every partition of every row is visited
    from . import c06

    ctx.reuse("C07.split-sum", c06.partition_volume)
    # ... and every step of the split is accepted by the record validator (it compares the step itself with the limit)
    from . import c03

    ctx.reuse("C07.split-sum", c03.step_guard_validator)
    # which well number a step addresses on the Fluent (and which side is partitioned by) depends on what counts as a trough
    from . import c08

    ctx.reuse("C07.record-pair", c08.trough_predicate)
    for dev in concrete_devices(ctx):
        ctx.reuse("C07.split-sum", c06.iteration_space, dev)


def step_records_only(ctx, meth: str) -> None:
    """aspirate() / dispense() write their A / D records and - when the caller gave a label - the label comment in front of
    them, nothing else: transfer() calls them back to back, so any further record of one of them lands between an A record and
    its D record (or between a D record and the wash of the same step)."""
    rule = "C07.step-block"
    f = ctx.prog.require_func(f"BaseWorklist.{meth}", rule)
    fv = ctx.fv(f, f.cls)
    selfn = f.params[0]
    n = 0
    bad = []
    for node in fv.cfg.nodes:
        effs = [e for e in ctx.E.node_effects(fv, node) if e.kind == "EMIT"]
        if not effs:
            continue
        n += 1
        kinds = {e.arg for e in effs}
        calls = [x for x in own_walk(node.ast) if isinstance(x, ast.Call)] if node.ast is not None else []
        label_comment = any(isinstance(c.func, ast.Attribute) and c.func.attr == "comment" and is_name(c.func.value, selfn) and len(c.args) == 1 and is_name(fv.alias_root(c.args[0], node.id), "label") for c in calls)
        step = kinds <= {"A", "D"} and any(isinstance(c.func, ast.Attribute) and c.func.attr in (f"{meth}_well",) for c in calls)
        if not (label_comment or step):
            bad.append((node, kinds))
    for node, kinds in bad:
        ctx.rep.refuted(rule, f"{f.qualname}/extra-record[{stmt_key(node.ast)[:40]}]", f"`{stmt_key(node.ast)[:70]}` writes a {sorted(kinds)} record besides the {meth} records and the label comment: inside transfer() "
                        "it lands between an A record and its D record", where=f.where(node.ast))
    if not bad:
        ctx.rep.holds(rule, f"{f.qualname}/records-only", f"{n} emitting statement(s): the label comment and the per-well records", where=f.where())
    ctx.rep.floor(rule, f"emitting statements of BaseWorklist.{meth}", n, 2)


def step_block(ctx, dev) -> None:
    rule = "C07.step-block"
    t = transfer_structure(ctx, dev, rule)
    fv, f = t.fv, t.f
    cb = f"{dev.name}.transfer"
    w = f.where(t.A.call)
    zbody = fv.cfg.loop_body[t.Z]
    # aspirate strictly before dispense, nothing effectful in between
    ok_order = fv.cfg.dominates(t.A.node, t.D.node)
    mid = fv.cfg.between(t.A.node, t.D.node, {t.Z})
    noisy = [m for m in mid if any(e.kind in ("EMIT", "VOLWRITE", "COMPWRITE") for e in ctx.E.node_effects(fv, fv.cfg.nodes[m]))]
    ctx.rep.check(ok_order and not noisy, rule, cb + "/A-then-D", "every aspirate is immediately followed by its dispense",
                  "the dispense does not immediately follow the aspirate of the same step" + (f" (`{stmt_key(fv.cfg.nodes[noisy[0]].ast)[:50]}` in between)" if noisy else ""), where=w)
    # the dispense happens whenever the aspirate happened: same controlling conditions
    from ..defuse import key as _key

    ca = {(_key(r), pol) for r, pol, br in fv.atoms_at(t.A.node, within=zbody, skip_raising=True)}
    cd = {(_key(r), pol) for r, pol, br in fv.atoms_at(t.D.node, within=zbody, skip_raising=True)}
    ctx.rep.check(ca == cd, rule, cb + "/paired", "aspirate and dispense are executed under the same conditions",
                  "aspirate and dispense of a step are executed under different conditions: a record pair can be torn", where=w)
    # kwargs: forwarded by both, never modified
    kw = f.node.args.kwarg.arg if f.node.args.kwarg else None
    for cs, nm in ((t.A, "aspirate"), (t.D, "dispense")):
        fwd = kw is not None and any(k.arg is None and is_name(k.value, kw) for k in cs.call.keywords)
        ctx.rep.check(fwd, rule, f"{cb}/{nm}-kwargs", f"{nm} receives **{kw} unchanged", f"{nm} does not receive the caller's **kwargs unchanged: liquid class / tip mask / rack ids differ between the two records of a pair", where=f.where(cs.call))
    mutated = []
    if kw:
        for s in own_walk(f.node):
            if isinstance(s, (ast.Assign, ast.AugAssign, ast.Delete)):
                tg = s.targets if isinstance(s, (ast.Assign, ast.Delete)) else [s.target]
                for x in tg:
                    base = x
                    while isinstance(base, (ast.Subscript, ast.Attribute)):
                        base = base.value
                    if is_name(base, kw):
                        mutated.append(s)
            if isinstance(s, ast.Call) and isinstance(s.func, ast.Attribute) and is_name(s.func.value, kw) and s.func.attr in ("update", "pop", "setdefault", "clear", "popitem", "__setitem__"):
                mutated.append(s)
    ctx.rep.check(not mutated, rule, cb + "/kwargs-immutable", "the pass-through keyword arguments are not modified",
                  f"`{stmt_key(mutated[0])[:60] if mutated else ''}` modifies the pass-through keyword arguments inside transfer: later records (or the dispense of a pair) see different values", where=f.where(mutated[0]) if mutated else w)
    # emission filter: only v > 0
    v = fv.res.resolve((fv.bind_args(t.A) or {})["volumes"], t.A.node)
    compounds = fv.compound_conditions_at(t.A.node, within=zbody, skip_raising=True)
    ok_f = not compounds
    detail = show(compounds[0][0])[:60] if compounds else ""
    n_v = 0
    for r, pol, br in fv.atoms_at(t.A.node, within=zbody, skip_raising=True):
        cm = to_cmp(r, pol)
        if cm is not None and cm == Cmp(Poly.symbol(v), ">"):
            n_v += 1
            continue
        # the bounds check len(vs) > p is part of the iteration space (C06)
        if isinstance(r, ast.Compare) and any(call_fname(x) == "len" for x in [r.left] + r.comparators):
            continue
        ok_f = False
        detail = ("" if pol else "not ") + show(r)[:60]
    ctx.rep.check(ok_f and n_v == 1, rule, cb + "/filter", "a step is skipped only when its volume is not > 0",
                  f"steps are filtered by `{detail}`" if detail else "steps are not filtered by exactly `v > 0`", where=w)


def tip_action(ctx, dev) -> None:
    rule = "C07.tip-action"
    t = transfer_structure(ctx, dev, rule)
    fv, f = t.fv, t.f
    cb = f"{dev.name}.transfer"
    zbody = fv.cfg.loop_body[t.Z]
    from ..defuse import key as _key

    base_atoms = {(_key(r), pol) for r, pol, br in fv.atoms_at(t.D.node, within=zbody)}
    ws = "wash_scheme"

    def is_ws(x) -> bool:
        # the deprecated `wash_scheme is None` block re-binds the name on one path: §phi(wash_scheme, <constant>)
        return is_name(x, ws) or (is_sym(x, "phi") and any(is_name(a, ws) for a in x.args))

    def atom(r) -> Optional[str]:
        if isinstance(r, ast.Compare) and len(r.ops) == 1 and isinstance(r.ops[0], ast.Eq) and is_ws(r.left) and isinstance(r.comparators[0], ast.Constant):
            return r.comparators[0].value
        if isinstance(r, ast.Compare) and len(r.ops) == 1 and isinstance(r.ops[0], ast.Eq) and is_ws(r.comparators[0]) and isinstance(r.left, ast.Constant):
            return r.left.value
        return None

    actions = []
    for n in fv.cfg.nodes:
        if n.id not in zbody or n.id in (t.A.node, t.D.node):
            continue
        kinds = {e.arg for e in ctx.E.node_effects(fv, n) if e.kind == "EMIT"}
        if not kinds:
            continue
        conds = {}
        unknown = bool([c for c in fv.compound_conditions_at(n.id, within=zbody) if True and (_key(c[0]), c[1]) not in base_atoms and not any(b[2] == c[2] for b in fv.compound_conditions_at(t.D.node, within=zbody))])
        for r, pol, br in fv.atoms_at(n.id, within=zbody):
            if (_key(r), pol) in base_atoms:
                continue
            a_ = atom(r)
            if a_ is None:
                unknown = True
            else:
                conds[a_] = pol
        actions.append((n, kinds, conds, unknown))
    want = {"F": {"flush": True}, "W": {"flush": False, "reuse": False}}
    seen = set()
    for n, kinds, conds, unknown in actions:
        c = f"{cb}/{'+'.join(sorted(kinds))}"
        w = f.where(n.ast)
        if unknown or len(kinds) != 1 or next(iter(kinds)) not in want:
            ctx.rep.refuted(rule, c, f"`{stmt_key(n.ast)[:60]}` emits {sorted(kinds)} records in the step block under conditions that are not the wash_scheme dispatch", where=w)
            continue
        k = next(iter(kinds))
        seen.add(k)
        ctx.rep.check(conds == want[k], rule, c, f"{k} is emitted exactly under {want[k]}",
                      f"`{stmt_key(n.ast)[:50]}` is executed under {conds}; the requested tip action requires {want[k]} (flush => F;, reuse => nothing, otherwise the wash scheme)", where=w)
        if k == "W":
            cs = [x for x in fv.calls() if x.node == n.id and x.callee.kind == "func" and x.callee.func.name == "wash"]
            arg = (fv.bind_args(cs[0]) or {}).get("scheme") if cs else None
            ok_arg = arg is not None and is_name(arg, ws)
            # the only re-assignment of wash_scheme allowed is the deprecated-None block
            for an in fv.cfg.nodes:
                if an.kind == "stmt" and isinstance(an.ast, (ast.Assign, ast.AugAssign)) and any(is_name(x, ws) for x in (an.ast.targets if isinstance(an.ast, ast.Assign) else [an.ast.target])):
                    ctrl = fv.controlling(an.id)
                    dep = any(isinstance(fv.cfg.nodes[d].ast, ast.Compare) and is_name(fv.cfg.nodes[d].ast.left, ws) and isinstance(fv.cfg.nodes[d].ast.ops[0], ast.Is) and pol for d, pol in ctrl)
                    ok_arg = ok_arg and dep
            ctx.rep.check(ok_arg, rule, c + "/scheme", "wash receives the requested scheme",
                          f"wash is called with scheme=`{show(arg) if arg is not None else 'default'}` instead of the requested wash_scheme", where=w)
        # after the dispense of the same step
        ctx.rep.check(fv.cfg.dominates(t.D.node, n.id), rule, c + "/after-dispense", "tip action follows the dispense", "the tip action is not placed after the dispense of the step", where=w)
    ctx.rep.check(seen == {"F", "W"}, rule, cb + "/total", "dispatch covers flush and wash", f"the step block emits only {sorted(seen)} tip actions; flush and wash must both be reachable", where=f.where())


def wash_method(ctx) -> None:
    rule = "C07.tip-action"
    base = ctx.prog.require_class("BaseWorklist", rule)
    f = base.methods.get("wash")
    if f is None:
        raise AnalysisInconclusive(rule, "BaseWorklist.wash", "not found")
    fv = ctx.fv(f, base)
    selfn = f.params[0]
    apps = [cs for cs in fv.calls() if isinstance(cs.call.func, ast.Attribute) and cs.call.func.attr == "append" and is_name(cs.call.func.value, selfn)]
    diti_ok = False
    scheme_ok = False
    arms = []
    for cs in apps:
        for tmpl, at in (fv.template_arms(cs.call.args[0], cs.node) or []):
            arms.append((tmpl, at))
    for arg, at in arms:
        facts = fv.rfacts_at(at)
        diti = None
        for r, pol, raw in facts:
            if attr_of_name(r, selfn, "diti_mode"):
                diti = pol
        if diti is True:
            diti_ok = isinstance(arg, ast.Constant) and arg.value == "W;"
        elif diti is False:
            # W{scheme}; guarded by membership in {1,2,3,4}
            member = False
            for r, pol in [(x[0], x[1]) for x in fv.atoms_at(at)]:
                core, p = r, pol
                if isinstance(core, ast.Compare) and len(core.ops) == 1 and is_name(core.left, "scheme") and isinstance(core.comparators[0], (ast.Set, ast.Tuple, ast.List)):
                    vals = {e.value for e in core.comparators[0].elts if isinstance(e, ast.Constant)}
                    if vals == {1, 2, 3, 4} and isinstance(core.ops[0], ast.In) and p:
                        member = True
            from ..engine import template_parts, Hole

            parts = template_parts(arg) or []
            holes = [x for x in parts if isinstance(x, Hole)]
            shape = len(parts) == 3 and parts[0] == "W" and parts[2] == ";" and len(holes) == 1
            scheme_ok = member and shape and any(is_name(s, "scheme") for s in ast.walk(holes[0].expr)) if shape else False
    ctx.rep.check(diti_ok, rule, f"{f.qualname}/diti", "DiTi mode emits `W;`", "in DiTi mode wash() does not emit exactly `W;`", where=f.where())
    ctx.rep.check(scheme_ok, rule, f"{f.qualname}/scheme", "fixed tips: scheme in {1,2,3,4} is enforced and emitted as W<scheme>;", "wash() does not enforce scheme in {1,2,3,4} before emitting W<scheme>;", where=f.where())


def breaks(ctx, dev) -> None:
    rule = "C07.break"
    t = transfer_structure(ctx, dev, rule)
    fv, f = t.fv, t.f
    cb = f"{dev.name}.transfer"
    gbody, pbody = fv.cfg.loop_body[t.G], fv.cfg.loop_body[t.P]
    # npartitions symbol: the range bound of the partition loop
    pit = fv.cfg.nodes[t.P].ast.iter
    if not (isinstance(pit, ast.Call) and call_fname(pit) == "range" and len(pit.args) == 1):
        raise AnalysisInconclusive(rule, cb, "partition loop is not range(n)")
    nraw = pit.args[0]
    commits = [cs for cs in fv.calls() if cs.callee.kind == "func" and cs.callee.func.name == "commit" and cs.node in gbody]
    closing = [cs for cs in commits if cs.node not in pbody]
    ok = False
    detail = f"{len(closing)} break(s) after the partition loop of a column group"
    if len(closing) == 1:
        cs = closing[0]
        ctrl = fv.controlling(cs.node, within=gbody, skip_raising=True)
        if len(ctrl) == 1:
            d, pol = ctrl[0]
            tst = fv.cfg.nodes[d].ast
            if isinstance(tst, ast.Name):
                tst = fv.def_expr(tst, d)[0]  # the test held in a single-definition local (`is_split = npartitions > 1`)
            cm = to_cmp(tst, pol)
            np_ = Poly.symbol(nraw)
            ok = cm is not None and (cm == Cmp(np_ - Poly.const(1), ">") or cm == Cmp(np_ - Poly.const(2), ">="))
            detail = f"the closing break is emitted under `{stmt_key(tst)}`"
            ok = ok and (t.P in fv.cfg.completed_loops_at(cs.node))
    ctx.rep.check(ok, rule, cb + "/group-close", "a break record closes every column group whose volumes were split (npartitions > 1)",
                  detail + "; expected exactly one commit() after the partition loop under `npartitions > 1`", where=f.where(closing[0].call) if closing else f.where())


def reject(ctx, dev) -> None:
    rule = "C07.reject"
    t = transfer_structure(ctx, dev, rule)
    fv, f = t.fv, t.f
    cb = f"{dev.name}.transfer"
    at = t.G
    w = f.where(fv.cfg.nodes[t.G].ast)
    # lengths
    ok_len = False
    for r, pol, raw in fv.rfacts_at(at):
        core, p = r, pol
        while isinstance(core, ast.UnaryOp) and isinstance(core.op, ast.Not):
            core, p = core.operand, not p
        if isinstance(core, ast.Compare) and len(core.ops) == 1 and isinstance(core.comparators[0], ast.Constant) and core.comparators[0].value == 1:
            eq = (isinstance(core.ops[0], ast.Eq) and p) or (isinstance(core.ops[0], ast.NotEq) and not p)
            lhs = core.left
            if eq and call_fname(lhs) == "len" and lhs.args and call_fname(lhs.args[0]) == "set" and lhs.args[0].args:
                tup = lhs.args[0].args[0]
                if isinstance(tup, (ast.Tuple, ast.List)) and len(tup.elts) == 3 and all(call_fname(e) == "len" and e.args for e in tup.elts):
                    bases = sorted(getattr(strip_norm(e.args[0]), "id", "?") for e in tup.elts)
                    ok_len = bases == ["destination_wells", "source_wells", "volumes"]
    # the facts are written over sequences that pass through a comprehension the model could not expand: unknown, not missing
    opaque = any(is_sym(x_, "comp") for r_, _p, _raw in fv.rfacts_at(at) for x_ in ast.walk(r_))
    if not ok_len and opaque:
        ok_len = None
    ctx.rep.check(ok_len, rule, cb + "/lengths", "unequal numbers of sources/destinations/volumes are rejected before the first step",
                  "no guard establishes that source_wells, destination_wells and volumes have one common length (after singleton broadcast) before the pipetting loops: surplus entries are silently dropped by zip", where=w)
    # singleton broadcast: the common length is the longest of all three arguments
    reps = []
    for cs in fv.calls():
        if isinstance(cs.call.func, ast.Attribute) and cs.call.func.attr == "repeat" and len(cs.call.args) == 2 and fv.cfg.reaches(cs.node, at):
            base = strip_norm(fv.res.resolve(cs.call.args[0], cs.node))
            if isinstance(base, ast.Name) and base.id in ("source_wells", "destination_wells", "volumes"):
                reps.append((cs, base.id, fv.res.resolve(cs.call.args[1], cs.node)))
    for cs, what, cnt in reps:
        names = None
        if isinstance(cnt, ast.Call) and call_fname(cnt) == "max" and not cnt.keywords:
            args_ = list(cnt.args[0].elts) if len(cnt.args) == 1 and isinstance(cnt.args[0], (ast.Tuple, ast.List)) else list(cnt.args)
            if args_ and all(call_fname(a_) == "len" and a_.args for a_ in args_):
                names = sorted(getattr(strip_norm(a_.args[0]), "id", "?") for a_ in args_)
        if names is None:
            continue  # another spelling of the count: not judged here
        missing = sorted({"destination_wells", "source_wells", "volumes"} - set(names) - {what})  # (the repeated one has length 1 here)
        ctx.rep.check(not missing, rule, cb + f"/broadcast[{what}]", "a singleton is repeated to the longest of the three arguments",
                      f"a single {what} entry is repeated max({', '.join('len(' + x + ')' for x in names)}) times: the length of {', '.join(missing)} is not taken into account, so one "
                      f"{what} entry with several {' / '.join(missing)} entries is rejected instead of broadcast", where=f.where(cs.call))
    # ... and every one of the three arguments can be given as a singleton: its normalisation on the way to the loops contains a
    # repetition (numpy.repeat / tile / broadcast_to / full / resize) on some path
    from ..defuse import norm_chains

    for what in ("source_wells", "destination_wells", "volumes"):
        term = fv.res.resolve(ast.Name(id=what, ctx=ast.Load()), at)
        base = strip_norm(term)
        if not (isinstance(base, ast.Name) and base.id == what):
            continue  # re-bound to something else: judged by the pairing rules
        steps = {nm for ch in norm_chains(term) for nm, _c in ch}
        ctx.rep.check(bool(steps & {"repeat", "tile", "broadcast_to", "full", "resize", "broadcast_arrays"}) or not steps, rule, cb + f"/singleton[{what}]", f"a single {what} entry is broadcast to the common length",
                      f"`{what}` reaches the pipetting loops without a singleton broadcast (normalisation steps: {sorted(steps)}): one {what} entry with several entries in the other "
                      "arguments is rejected by the length check instead of being repeated", where=w)
    # negative / NaN volumes
    ok_neg = False
    weak = ""
    for r, pol, raw in fv.rfacts_at(at):
        core, p = r, pol
        while isinstance(core, ast.UnaryOp) and isinstance(core.op, ast.Not):
            core, p = core.operand, not p
        fn = call_fname(core)
        if fn in ("all", "any") and isinstance(core, ast.Call):
            inner = core.args[0] if core.args else (core.func.value if isinstance(core.func, ast.Attribute) else None)
            if isinstance(inner, ast.Compare) and len(inner.ops) == 1 and is_name(strip_norm(inner.left), "volumes") and isinstance(inner.comparators[0], ast.Constant) and inner.comparators[0].value == 0:
                if fn == "all" and p and isinstance(inner.ops[0], ast.GtE):
                    ok_neg = True
                elif fn == "any" and not p and isinstance(inner.ops[0], ast.Lt):
                    weak = "only the NaN-transparent form `not any(volumes < 0)` is checked"
    if not ok_neg and not weak and opaque:
        ok_neg = None
    ctx.rep.check(ok_neg, rule, cb + "/negative", "negative (and NaN) volumes are rejected before the first step",
                  (weak or "no guard rejects negative volumes before the pipetting loops") + ": such entries are silently skipped by the `v > 0` filter instead of being rejected", where=w)
