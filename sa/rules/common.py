"""Helpers shared by the rule modules."""
from __future__ import annotations

import ast
from typing import Callable, Dict, Iterable, List, Optional, Sequence, Set, Tuple

from ..canon import Cmp, Poly, to_cmp, to_poly
from ..defuse import is_sym, key, norm_ops, show, strip_norm
from ..engine import FV, CallSite, Effect, own_walk
from ..model import AnalysisInconclusive, ClassInfo, FunctionInfo

NUMPY = ("numpy", "np")


# ------------------------------------------------------------------ term matchers
def is_name(t: ast.AST, name: Optional[str] = None) -> bool:
    return isinstance(t, ast.Name) and (name is None or t.id == name)


def attr_of_name(t: ast.AST, base: str, attr: str) -> bool:
    return isinstance(t, ast.Attribute) and t.attr == attr and is_name(t.value, base)


def call_fname(t: ast.AST) -> str:
    """Last component of the called name: numpy.array(..) -> 'array', x.flatten(..) -> 'flatten', len(..) -> 'len'."""
    if not isinstance(t, ast.Call):
        return ""
    fn = t.func
    if isinstance(fn, ast.Attribute):
        return fn.attr
    if isinstance(fn, ast.Name):
        return fn.id
    return ""


def call_dotted(t: ast.AST) -> str:
    if not isinstance(t, ast.Call):
        return ""
    try:
        return ast.unparse(t.func)
    except Exception:
        return ""


def elem_parts(t: ast.AST) -> Optional[Tuple[str, ast.AST]]:
    """§elem(loop, seq) -> (loop id, seq term)."""
    if is_sym(t, "elem") and len(t.args) == 2 and isinstance(t.args[0], ast.Constant):
        return str(t.args[0].value), t.args[1]
    return None


def has_unknown(t: ast.AST) -> bool:
    """Does an origin term contain symbols the resolver could not see through?"""
    for s in ast.walk(t):
        if is_sym(s) and s.func.id in ("§phi", "§def", "§rec", "§deep"):
            return True
    return False


def same(a: ast.AST, b: ast.AST) -> bool:
    return key(a) == key(b)


def same_seq(a: ast.AST, b: ast.AST) -> bool:
    """Same sequence modulo the repo's normalisation idiom (array/flatten/repeat/list)."""
    return key(strip_norm(a)) == key(strip_norm(b))


def subterms(t: ast.AST) -> Iterable[ast.AST]:
    return ast.walk(t)


def contains_key(t: ast.AST, k: str) -> bool:
    return any(key(s) == k for s in ast.walk(t))


def flatten_orders(t: ast.AST) -> List[Tuple[str, Optional[str], ast.Call]]:
    """For every flatten/ravel in the normalisation chain of a resolved sequence term: (method, order or None)."""
    out = []
    for name, call in norm_ops(t):
        if name in ("flatten", "ravel"):
            order = None
            if call.args and isinstance(call.args[0], ast.Constant):
                order = call.args[0].value
            for kw in call.keywords:
                if kw.arg == "order" and isinstance(kw.value, ast.Constant):
                    order = kw.value.value
            out.append((name, order, call))
    return out


DEDUP_FUNCS = {"set", "frozenset", "unique", "fromkeys", "sorted", "reversed", "dict"}


def seq_transformers(t: ast.AST) -> List[str]:
    """Names of calls wrapped around a sequence term that are *not* the neutral normalisation idiom."""
    from ..defuse import _norm_step

    out = []
    cur = t
    while True:
        if is_sym(cur, "norm"):
            cur = cur.args[0]
            continue
        st = _norm_step(cur)
        if st is not None:
            cur = st[2]
            continue
        if isinstance(cur, ast.Call) and not is_sym(cur):
            out.append(call_fname(cur))
            if cur.args:
                cur = cur.args[-1] if call_fname(cur) == "fromkeys" else cur.args[0]
                continue
            if isinstance(cur.func, ast.Attribute):
                cur = cur.func.value
                continue
        if isinstance(cur, ast.Subscript):
            out.append("subscript")
            cur = cur.value
            continue
        break
    return out


# --------------------------------------------------------------------- exceptions
def raise_class(fv: FV, r: ast.AST) -> Tuple[str, List[str]]:
    """(class name, MRO names) of a raise statement / assert."""
    if isinstance(r, ast.Assert):
        return "AssertionError", ["AssertionError", "Exception", "BaseException"]
    e = r.exc if isinstance(r, ast.Raise) else None
    if e is None:
        return "reraise", []
    if isinstance(e, ast.Call):
        e = e.func
    resolved = fv.prog.resolve_expr_static(fv.f.module, e)
    if isinstance(resolved, ClassInfo):
        return resolved.name, fv.prog.mro_names(resolved)
    name = e.attr if isinstance(e, ast.Attribute) else getattr(e, "id", "?")
    from ..model import EXC_PARENTS

    mro = [name]
    cur = name
    while cur in EXC_PARENTS and EXC_PARENTS[cur]:
        cur = EXC_PARENTS[cur][0]
        mro.append(cur)
    return name, mro


def guard_raises(fv: FV, branch_node: int, polarity_of_fact: bool) -> Optional[Tuple[ast.AST, str, List[str]]]:
    """If the *other* outcome of the branch raises: (raise stmt, class, mro)."""
    for n, test, pol_raise, r in fv.raising_guards():
        if n.id == branch_node and pol_raise != polarity_of_fact:
            name, mro = raise_class(fv, r)
            return r, name, mro
    return None


def find_cmp_fact(fv: FV, at: int, expected: Cmp, opaque=None):
    """A must-hold fact at `at` whose canonical comparison equals `expected` -> (raw atom, polarity, branch node)."""
    for atom, pol, branch in fv.facts_at(at):
        r = fv.res.resolve(atom, branch)
        c = to_cmp(r, pol, opaque)
        if c is not None and c == expected:
            return atom, pol, branch
    return None


def cmp_facts(fv: FV, at: int, opaque=None) -> List[Tuple[Cmp, ast.AST, bool, int]]:
    out = []
    for atom, pol, branch in fv.facts_at(at):
        if not (isinstance(atom, ast.Compare) and len(atom.ops) == 1):
            continue
        r = fv.res.resolve(atom, branch)
        c = to_cmp(r, pol, opaque)
        if c is not None:
            out.append((c, atom, pol, branch))
    return out


def require(cond: bool, rule: str, where: str, why: str) -> None:
    if not cond:
        raise AnalysisInconclusive(rule, where, why)


def stmt_key(s: ast.AST) -> str:
    """Normalised statement text (no positions) for finding keys."""
    try:
        return " ".join(ast.unparse(s).split())[:160]
    except Exception:
        return type(s).__name__


def device_classes(ctx) -> List[ClassInfo]:
    base = ctx.prog.require_class("BaseWorklist", "anchors")
    subs = [c for c in ctx.prog.subclasses(base)]
    if not subs:
        raise AnalysisInconclusive("anchors", "BaseWorklist", "no device subclasses found")
    return sorted(subs, key=lambda c: c.qualname)


def concrete_devices(ctx) -> List[ClassInfo]:
    """Device classes that define their own well numbering (EvoWorklist, FluentWorklist) - not deprecated aliases."""
    out = [c for c in device_classes(ctx) if "_get_well_position" in c.methods]
    if len(out) < 2:
        raise AnalysisInconclusive("anchors", "BaseWorklist", f"expected two device classes overriding _get_well_position, found {len(out)}")
    return out


def kwarg(call: ast.Call, name: str) -> Optional[ast.AST]:
    for kw in call.keywords:
        if kw.arg == name:
            return kw.value
    return None


def const_value(t: ast.AST):
    return t.value if isinstance(t, ast.Constant) else None


def with_helpers(ctx, fv, depth: int = 2) -> List[FV]:
    """The function view plus the views of the *new* helper functions it calls (not in the frozen anchor list)."""
    out = [fv]
    seen = {fv.f.qualname}
    frontier = [fv]
    for _ in range(depth):
        nxt = []
        for v in frontier:
            for cs in v.calls():
                hv = v._helper_view(cs.call)
                if hv is None:
                    continue
                g, conc = hv
                if g.qualname in seen:
                    continue
                seen.add(g.qualname)
                gv = ctx.fv(g, conc)
                out.append(gv)
                nxt.append(gv)
        frontier = nxt
    return out


# ------------------------------------------------------------------ memoisation
CACHE_DECORATORS = {"lru_cache", "cache", "cached", "memoize", "memoized", "cached_property"}
_MEMO_FIXTURE = '''
import functools
_CODES = {}
@functools.lru_cache(maxsize=None)
def wells_of(n):
    return [str(i) for i in range(n)]
@functools.lru_cache(maxsize=None)
def grid(rows):
    if not isinstance(rows, int):
        raise ValueError(rows)
    return rows * 2
def code(rows, cols, selected):
    k = bytes(selected)
    if k in _CODES:
        return _CODES[k]
    r = str(rows) + str(cols)
    _CODES[k] = r
    return r
'''


def _decorator_name(d: ast.AST) -> str:
    if isinstance(d, ast.Call):
        d = d.func
    return d.attr if isinstance(d, ast.Attribute) else getattr(d, "id", "")


def _mutable_value(e: ast.AST) -> Optional[bool]:
    """True: a list/dict/set/ndarray is built; False: clearly immutable; None: unknown."""
    if isinstance(e, (ast.List, ast.Dict, ast.Set, ast.ListComp, ast.DictComp, ast.SetComp)):
        return True
    if isinstance(e, (ast.Constant, ast.JoinedStr, ast.Tuple, ast.Compare, ast.BoolOp)):
        return False if not isinstance(e, ast.Tuple) or all(_mutable_value(x) is False for x in e.elts) else None
    if isinstance(e, ast.Call):
        fn = call_fname(e)
        if fn in ("list", "dict", "set", "array", "asarray", "zeros", "ones", "full", "empty", "zeros_like", "copy", "tolist", "flatten", "ravel", "reshape", "sorted", "repeat", "defaultdict", "deepcopy"):
            return True
        if fn in ("str", "int", "float", "bool", "tuple", "frozenset", "len", "format", "join", "round"):
            return False
        return None
    if isinstance(e, ast.BinOp):
        a, b = _mutable_value(e.left), _mutable_value(e.right)
        if a is True or b is True:
            return True
        return None
    if isinstance(e, ast.Subscript) and isinstance(e.slice, ast.Slice):
        return _mutable_value(e.value)
    return None


def memo_findings(tree_functions) -> List[Tuple[object, ast.AST, str, Optional[bool]]]:
    """(function, node, message, verdict False=refuted / None=inconclusive) for caching that changes behaviour:
    a cache decorator on a function that builds a mutable result (every caller gets the same object), and a hand-written
    memo table whose key leaves out a parameter of the function."""
    out = []
    for f, fdef in tree_functions:
        for d in fdef.decorator_list:
            if _decorator_name(d) in CACHE_DECORATORS:
                rets = [s.value for s in own_walk(fdef) if isinstance(s, ast.Return) and s.value is not None]
                # follow plain local names to their (single) definition
                defs: Dict[str, List[ast.AST]] = {}
                for s in own_walk(fdef):
                    if isinstance(s, ast.Assign) and len(s.targets) == 1 and isinstance(s.targets[0], ast.Name):
                        defs.setdefault(s.targets[0].id, []).append(s.value)
                verdicts = []
                for r in rets:
                    if isinstance(r, ast.Name) and r.id in defs:
                        vs = [_mutable_value(v) for v in defs[r.id]]
                        verdicts.append(True if any(v is True for v in vs) else (False if all(v is False for v in vs) else None))
                    else:
                        verdicts.append(_mutable_value(r))
                # the cache looks its key up by == / hash: 2.0 finds the entry of 2, True the entry of 1 - a type test on a
                # parameter that guards a raise is skipped for every argument that equals one already seen (typed=True keeps them apart)
                typed = isinstance(d, ast.Call) and any(k.arg == "typed" and isinstance(k.value, ast.Constant) and k.value.value is True for k in d.keywords)
                fparams = {a.arg for a in fdef.args.posonlyargs + fdef.args.args + fdef.args.kwonlyargs}
                if not typed:
                    for s_ in own_walk(fdef):
                        if isinstance(s_, ast.If) and any(isinstance(b, ast.Raise) for b in s_.body):
                            tt = [c for c in ast.walk(s_.test) if isinstance(c, ast.Call) and call_fname(c) in ("isinstance", "type") and c.args
                                  and isinstance(c.args[0], ast.Name) and c.args[0].id in fparams]
                            if tt:
                                out.append((f, d, f"`@{_decorator_name(d)}` on a function that refuses arguments by their type (`{ast.unparse(tt[0])[:40]}`): the cache finds its entries "
                                            f"by == / hash, so once `{tt[0].args[0].id}` = 2 was accepted, 2.0 (or True for 1) returns the stored result and the type check never runs", False))
                                break
                if any(v is True for v in verdicts):
                    out.append((f, d, f"`@{_decorator_name(d)}` on a function that builds a list/dict/array: every call with equal arguments hands out the *same* mutable object, "
                                "so a caller that edits its result changes what all later callers get", False))
                elif not all(v is False for v in verdicts):
                    out.append((f, d, f"`@{_decorator_name(d)}`: cannot tell whether the cached result is mutable", None))
        # hand-written memo:  if k in TABLE: return TABLE[k]   ...   TABLE[k] = value
        params = [a.arg for a in fdef.args.posonlyargs + fdef.args.args + fdef.args.kwonlyargs if a.arg not in ("self", "cls")]
        stores = {}
        for s in own_walk(fdef):
            if isinstance(s, ast.Assign) and len(s.targets) == 1 and isinstance(s.targets[0], ast.Subscript) and isinstance(s.targets[0].value, (ast.Name, ast.Attribute)):
                stores.setdefault(ast.unparse(s.targets[0].value), []).append(s.targets[0])
        for table, tgts in stores.items():
            reads = [s for s in own_walk(fdef) if isinstance(s, ast.Return) and s.value is not None and any(
                (isinstance(x, ast.Subscript) and ast.unparse(x.value) == table and isinstance(x.ctx, ast.Load)) or
                (isinstance(x, ast.Call) and isinstance(x.func, ast.Attribute) and x.func.attr == "get" and ast.unparse(x.func.value) == table) for x in ast.walk(s.value))]
            reads += [s for s in own_walk(fdef) if isinstance(s, ast.Assign) and isinstance(s.value, ast.Call) and isinstance(s.value.func, ast.Attribute) and s.value.func.attr == "get"
                      and ast.unparse(s.value.func.value) == table]
            if not reads:
                continue
            local_defs: Dict[str, ast.AST] = {}
            for s in own_walk(fdef):
                if isinstance(s, ast.Assign) and len(s.targets) == 1 and isinstance(s.targets[0], ast.Name):
                    local_defs.setdefault(s.targets[0].id, s.value)
            kexpr = tgts[0].slice
            seen_names: Set[str] = set()
            work = [kexpr]
            depth = 0
            while work and depth < 50:
                depth += 1
                e = work.pop()
                for x in ast.walk(e):
                    if isinstance(x, ast.Name) and x.id not in seen_names:
                        seen_names.add(x.id)
                        if x.id in local_defs and x.id not in params:
                            work.append(local_defs[x.id])
            # parameters that influence the result: all of them, unless they are only used to build the key
            missing = [p for p in params if p not in seen_names]
            # a parameter that enters the key only through some of its attributes (source.name) while the function reads
            # other attributes of it (source.is_trough): equal keys do not mean equal results
            key_exprs = [kexpr] + [local_defs[nm] for nm in seen_names if nm in local_defs and nm not in params]
            key_ids = {id(x) for ke in key_exprs for x in ast.walk(ke)}
            for p_ in params:
                in_key = [x for ke in key_exprs for x in ast.walk(ke) if isinstance(x, ast.Name) and x.id == p_]
                if not in_key:
                    continue
                key_attrs = {x.attr for ke in key_exprs for x in ast.walk(ke) if isinstance(x, ast.Attribute) and isinstance(x.value, ast.Name) and x.value.id == p_}
                bare_in_key = any(not any(isinstance(par, ast.Attribute) and par.value is x for ke in key_exprs for par in ast.walk(ke)) for x in in_key)
                body_attrs = {x.attr for x in own_walk(fdef) if isinstance(x, ast.Attribute) and isinstance(x.value, ast.Name) and x.value.id == p_ and id(x) not in key_ids}
                if key_attrs and not bare_in_key and body_attrs - key_attrs:
                    out.append((f, tgts[0], f"results are memoised in `{table}` under a key that identifies `{p_}` by {sorted(key_attrs)} only, while the result depends on "
                                f"`{p_}.{sorted(body_attrs - key_attrs)[0]}`: another object with the same {sorted(key_attrs)[0]} gets the result computed for the first one", False))
            if missing:
                out.append((f, tgts[0], f"results are memoised in `{table}` under the key `{ast.unparse(kexpr)[:50]}`, which does not contain the parameter(s) {missing}: "
                            "a call that differs only in those gets the result computed for another call", False))
    return out


def memo_rule(ctx, rule: str, module_suffixes: Sequence[str]) -> None:
    """No behaviour-changing caching in the modules a property is anchored in (see memo_findings)."""
    funcs = [(f, f.node) for f in ctx.prog.all_functions(include_inlined=True) if f.module.relpath.endswith(tuple(module_suffixes))]
    n = 0
    for f, node, msg, verdict in memo_findings(funcs):
        n += 1
        ctx.rep.touch(f)
        tag = "key" if "identifies" in msg else "params" if "does not contain" in msg else "typecheck" if "by their type" in msg else "object"
        arg = msg.split("identifies `")[1].split("`")[0] if "identifies `" in msg else ""
        if verdict is False:
            ctx.rep.refuted(rule, f"{f.qualname}/cache[{tag}{':' + arg if arg else ''}]", msg, where=f.where(node))
        else:
            ctx.rep.inconclusive(rule, f"{f.qualname}/cache[{tag}]", msg, where=f.where(node))
    fx = ast.parse(_MEMO_FIXTURE)
    fx_funcs = [(None, s) for s in fx.body if isinstance(s, ast.FunctionDef)]
    hits = memo_findings(fx_funcs)
    if len([h for h in hits if h[3] is False]) != 3:
        ctx.rep.inconclusive(rule, "fixture/memo", "embedded positive fixture (cached mutable result + incomplete memo key) was not detected: rule is broken")
    elif n == 0:
        ctx.rep.holds(rule, "no-behaviour-changing-cache", f"{len(funcs)} functions in {list(module_suffixes)}: no cache decorator on a builder of mutable results, no memo table with an incomplete key (fixture detected)")


# ------------------------------------------------------------------ one-shot iterators consumed twice
_ONE_SHOT = ("zip", "map", "filter", "iter", "enumerate", "reversed")
_CONSUMERS = ("list", "tuple", "set", "dict", "sorted", "sum", "max", "min", "any", "all", "next", "array", "fromiter", "join", "Counter", "frozenset")


def one_shot_iterator_rule(ctx, rule: str, func_names: Sequence[str]) -> int:
    """A local bound to `zip(..)` / `map(..)` / a generator expression can be walked once.  When it is consumed at one site
    (a `for`, a comprehension, `sum(1 for _ in it)`, `list(it)` ..) and another consuming site can be reached afterwards, the
    second one finds nothing - the elements are silently lost.  Returns the number of such locals examined."""
    n_seen = 0
    for name in func_names:
        f = ctx.prog.func(name)
        if f is None:
            continue
        fv = ctx.fv(f)
        binds = {}
        for nd in fv.cfg.nodes:
            if nd.kind == "stmt" and isinstance(nd.ast, ast.Assign) and len(nd.ast.targets) == 1 and isinstance(nd.ast.targets[0], ast.Name):
                v = nd.ast.value
                if isinstance(v, ast.GeneratorExp) or (isinstance(v, ast.Call) and isinstance(v.func, ast.Name) and v.func.id in _ONE_SHOT):
                    binds.setdefault(nd.ast.targets[0].id, []).append(nd)
        for var, defs_ in binds.items():
            # every definition of the name is a one-shot iterator (otherwise it may be a list on some path: not decided here)
            all_defs = [nd for nd in fv.cfg.nodes if nd.kind in ("stmt", "for") and any(isinstance(x, ast.Name) and x.id == var and isinstance(x.ctx, ast.Store) for x in ast.walk(nd.ast.target if nd.kind == "for" else nd.ast))]
            if len(all_defs) != len(defs_):
                continue
            n_seen += 1
            sites = []
            for nd in fv.cfg.nodes:
                if nd.ast is None:
                    continue
                if nd.kind == "for" and is_name(nd.ast.iter, var):
                    sites.append((nd, "for"))
                    continue
                tree = nd.ast if nd.kind == "stmt" else getattr(nd.ast, "test", None) if nd.kind in ("if", "while") else None
                if tree is None:
                    continue
                for x in ast.walk(tree):
                    if isinstance(x, ast.comprehension) and is_name(x.iter, var):
                        sites.append((nd, "comprehension"))
                    elif isinstance(x, ast.Call) and call_fname(x) in _CONSUMERS and any(is_name(a_, var) for a_ in x.args):
                        sites.append((nd, call_fname(x)))
                    elif isinstance(x, ast.Starred) and is_name(x.value, var):
                        sites.append((nd, "*"))
            hit = None
            for a_, ka in sites:
                for b_, kb in sites:
                    if a_ is not b_ and not any(d.id == b_.id for d in defs_) and fv.cfg.reaches(a_.id, b_.id) \
                            and not any(fv.cfg.reaches(a_.id, d.id) and fv.cfg.reaches(d.id, b_.id) for d in defs_):
                        hit = hit or (a_, ka, b_, kb)
            ctx.rep.touch(f)
            ctx.rep.check(hit is None, rule, f"{f.qualname}/one-shot[{var}]", f"the iterator `{var}` is walked at one site only on every path",
                          (f"`{var}` is a one-shot iterator ({ast.unparse(defs_[0].ast.value)[:40]}); it is consumed at line {hit[0].ast.lineno} ({hit[1]}) and walked again at line "
                           f"{hit[2].ast.lineno} ({hit[3]}) on a path that does not rebuild it: the second walk finds it exhausted and the elements are lost") if hit else "",
                          where=f.where(hit[2].ast) if hit else f.where())
    return n_seen


# ------------------------------------------------------------------ negative computed slice bounds
def negative_slice_rule(ctx, rule: str, module_suffixes: Sequence[str]) -> int:
    """`x[a:-n]` is the empty slice for n == 0 (not "everything from a"): every slice bound of the form -<expression> needs
    a fact n >= 1 at that point, or the idiom `-n or None`.  Returns the number of such bounds examined."""
    n_sites = 0
    for f in ctx.prog.all_functions():
        if not f.module.relpath.endswith(tuple(module_suffixes)):
            continue
        fv = None
        for node_ast in own_walk(f.node):
            if not (isinstance(node_ast, ast.Subscript) and isinstance(node_ast.ctx, ast.Load)):
                continue
            slices = [node_ast.slice] if isinstance(node_ast.slice, ast.Slice) else [e for e in getattr(node_ast.slice, "elts", []) if isinstance(e, ast.Slice)]
            for sl in slices:
                for bound in (sl.lower, sl.upper):
                    if isinstance(bound, ast.UnaryOp) and isinstance(bound.op, ast.USub) and not isinstance(bound.operand, ast.Constant):
                        n_sites += 1
                        fv = fv or ctx.fv(f)
                        at = fv.node_of(node_ast)
                        x = fv.res.resolve(bound.operand, at)
                        px = to_poly(x)
                        ok = False
                        for cmpf, atom, pol, br in cmp_facts(fv, at):
                            if cmpf == Cmp(px - Poly.const(1), ">=") or cmpf == Cmp(px, ">") or cmpf == Cmp(px, "!="):
                                ok = True
                        ctx.rep.touch(f)
                        ctx.rep.check(ok, rule, f"{f.qualname}/[{ast.unparse(sl)[:30]}]", f"slice bound -{show(bound.operand)[:20]} is used only where it is >= 1",
                                      f"`{ast.unparse(node_ast)[:60]}`: when `{show(bound.operand)[:30]}` is 0 the bound -0 selects nothing (instead of everything up to the end), "
                                      "and nothing here establishes that it is at least 1 (use `-n or None`)", where=f.where(node_ast))
    return n_sites


# ------------------------------------------------------------------ class-level mutable state
def class_state_rule(ctx, rule: str, class_names: Sequence[str], what: str) -> None:
    """No mutable container declared on the class (shared by all instances) is filled by the methods of the class:
    results computed for one object (its `what`) would be returned for another."""
    MUT = {"append", "extend", "insert", "pop", "clear", "update", "setdefault", "__setitem__", "add"}
    n = 0
    for cname in class_names:
        cls = ctx.prog.class_by_name(cname)
        if cls is None:
            ctx.rep.inconclusive(rule, cname, "class not found")
            continue
        n += 1
        shared = {}
        for k in ctx.prog.mro(cls):
            if not isinstance(k, ClassInfo):
                continue
            for name_, v in k.class_assigns.items():
                if isinstance(v, (ast.Dict, ast.List, ast.Set, ast.DictComp, ast.ListComp, ast.SetComp)) or (isinstance(v, ast.Call) and call_fname(v) in ("dict", "list", "set", "defaultdict", "OrderedDict")):
                    shared.setdefault(name_, (k, v))
        hits = []
        for m in cls.methods.values():
            ctx.rep.touch(m)
            selfn = m.params[0] if m.params else None
            for sub in own_walk(m.node):
                root = None
                if isinstance(sub, ast.Subscript) and isinstance(sub.ctx, (ast.Store, ast.Del)):
                    root = sub.value
                elif isinstance(sub, ast.Call) and isinstance(sub.func, ast.Attribute) and sub.func.attr in MUT:
                    root = sub.func.value
                while isinstance(root, ast.Subscript):
                    root = root.value
                if isinstance(root, ast.Attribute) and root.attr in shared and (is_name(root.value, selfn) or is_name(root.value, cname) or is_name(root.value, "cls")
                                                                             or (isinstance(root.value, ast.Call) and call_fname(root.value) == "type")):
                    # an instance attribute of the same name assigned in a constructor shadows the class attribute
                    shadow = False
                    for k in ctx.prog.mro(cls):
                        init = k.methods.get("__init__") if isinstance(k, ClassInfo) else None
                        if init is None:
                            continue
                        iv = ctx.fv(init)
                        for nd in iv.cfg.nodes:
                            if nd.kind == "stmt" and isinstance(nd.ast, (ast.Assign, ast.AnnAssign)) and getattr(nd.ast, "value", None) is not None:
                                tg = nd.ast.targets[0] if isinstance(nd.ast, ast.Assign) else nd.ast.target
                                if isinstance(tg, ast.Attribute) and tg.attr == root.attr and is_name(tg.value, init.params[0]):
                                    # the instance attribute must exist on every path: it is bound before the constructor returns
                                    # (and, for a mutation inside the constructor, before that mutation)
                                    if iv.cfg.dominates(nd.id, iv.cfg.exit) and (m is not init or iv.cfg.dominates(nd.id, iv.node_of(sub))):
                                        shadow = True
                    if not shadow:
                        hits.append((m, sub, root.attr))
        for m, sub, attr in hits:
            ctx.rep.refuted(rule, f"{m.qualname}/{attr}", f"`{shared[attr][0].name}.{attr}` is a container declared on the class and filled by {m.name}: it is shared by all {cname} objects, so what was "
                            f"computed for one object ({what}) is returned for another", where=m.where(sub))
        if not hits:
            ctx.rep.holds(rule, cname, f"no class-level container is mutated by the methods of {cname} ({len(shared)} class-level containers)")
    ctx.rep.floor(rule, "classes examined for shared state", n, len(class_names))


# ------------------------------------------------------------------ "same labware" tests compare identity
def identity_eq_rule(ctx, rule: str, base: str = "Labware") -> None:
    """`destination == source` decides whether one labware takes part in an operation or two (one log entry / one condense
    per participant): objects of the labware classes must compare by identity. A `__eq__`/`__ne__` of a labware class that
    compares anything else makes two different labwares "the same" at every such test."""
    root = ctx.prog.class_by_name(base)
    if root is None:
        ctx.rep.inconclusive(rule, base, "class not found")
        return
    family = [root] + list(ctx.prog.subclasses(root))
    # the comparison sites between two labware-typed names
    sites = []
    is_sites = 0
    for f in ctx.prog.all_functions(include_inlined=True):
        types = None
        for sub in own_walk(f.node):
            if isinstance(sub, ast.Compare) and len(sub.ops) == 1 and isinstance(sub.ops[0], (ast.Eq, ast.NotEq)) and isinstance(sub.left, ast.Name) and isinstance(sub.comparators[0], ast.Name):
                if types is None:
                    types = ctx.prog.local_types(f)
                a, b = types.get(sub.left.id), types.get(sub.comparators[0].id)
                if a in family and b in family:
                    sites.append((f, sub))
            elif isinstance(sub, ast.Compare) and len(sub.ops) == 1 and isinstance(sub.ops[0], (ast.Is, ast.IsNot)) and isinstance(sub.left, ast.Name) and isinstance(sub.comparators[0], ast.Name):
                if types is None:
                    types = ctx.prog.local_types(f)
                if types.get(sub.left.id) in family and types.get(sub.comparators[0].id) in family:
                    is_sites += 1

    def identity(m) -> bool:
        body = [s for s in m.node.body if not (isinstance(s, ast.Expr) and isinstance(s.value, ast.Constant))]
        if len(body) != 1 or not isinstance(body[0], ast.Return) or body[0].value is None:
            return False
        v = body[0].value
        if isinstance(v, ast.Name) and v.id == "NotImplemented":
            return True
        if isinstance(v, ast.UnaryOp) and isinstance(v.op, ast.Not):
            v = v.operand
        if isinstance(v, ast.Compare) and len(v.ops) == 1 and isinstance(v.ops[0], (ast.Is, ast.IsNot)):
            return {ast.unparse(v.left), ast.unparse(v.comparators[0])} == set(m.params[:2])
        if isinstance(v, ast.Call) and call_dotted(v) in ("object.__eq__", "object.__ne__", "super.__eq__", "super().__eq__", "super().__ne__"):
            return True
        return False

    bad = []
    for c in family:
        for name_ in ("__eq__", "__ne__"):
            m = c.methods.get(name_)
            if m is not None:
                ctx.rep.touch(m)
                if not identity(m):
                    bad.append((c, m))
    if not sites:
        bad = []  # every same-labware test is written with `is`: what __eq__ does is irrelevant to them
    for c, m in bad:
        where_ = "; ".join(f"`{ast.unparse(sub)}` in {f.qualname}" for f, sub in sites[:4]) or "no site found"
        ctx.rep.refuted(rule, f"{m.qualname}", f"{c.name}.{m.name} does not compare identity: two different labwares that it calls equal are treated as one participant "
                        f"by the same-labware tests ({where_}) - one of them is logged/condensed and the other is not", where=m.where())
    if not bad:
        ctx.rep.holds(rule, base, f"the {len(family)} labware classes compare by identity (no __eq__/__ne__ override); {len(sites)} same-labware tests rely on it")
    ctx.rep.floor(rule, "same-labware comparison sites", len(sites) + is_sites, 3)


# ------------------------------------------------------------------ numpy buffers that take their dtype from the first value
def _value_kind(fv: FV, e: ast.AST, at: int, stringish: Sequence[str], depth: int = 0) -> Optional[str]:
    """'int' | 'float' | 'str' | None (unknown) for the value an expression produces; conditionally assigned names are
    followed through all their definitions ('int' wins: one integer path is enough to get an integer buffer)."""
    if depth > 6:
        return None
    if isinstance(e, ast.Constant):
        if isinstance(e.value, bool):
            return None
        return "int" if isinstance(e.value, int) else "float" if isinstance(e.value, float) else "str" if isinstance(e.value, str) else None
    if isinstance(e, ast.JoinedStr):
        return "str"
    if isinstance(e, ast.Call):
        fn = call_fname(e)
        if fn in ("ceil", "floor", "trunc") and isinstance(e.func, ast.Attribute) and isinstance(e.func.value, ast.Name) and e.func.value.id == "math":
            return "int"
        if fn in ("int", "len", "round") and isinstance(e.func, ast.Name) and (fn != "round" or len(e.args) == 1):
            return "int"
        if fn == "float":
            return "float"
        if fn in ("str", "format", "join"):
            return "str"
        if fn in ("min", "max") and e.args:
            kinds = [_value_kind(fv, a, at, stringish, depth + 1) for a in e.args]
            if "float" in kinds:
                return "float"  # min/max return one of their arguments: a float argument can be the result
            return kinds[0] if kinds and all(k == kinds[0] for k in kinds) else None
        return None
    if isinstance(e, ast.BinOp):
        if isinstance(e.op, ast.Div):
            return "float"
        a, b = _value_kind(fv, e.left, at, stringish, depth + 1), _value_kind(fv, e.right, at, stringish, depth + 1)
        if "str" in (a, b):
            return "str"
        if "float" in (a, b):
            return "float"
        return "int" if a == b == "int" else None
    if isinstance(e, ast.Subscript):
        base = e.value
        t = fv.res.resolve(base, at)
        if any(isinstance(x, ast.Name) and x.id in stringish for x in ast.walk(t)):
            return "str"
        return None
    if isinstance(e, ast.Name):
        if e.id in stringish:
            return "str"
        defs = sorted(fv.cfg.reaching()[at].get(e.id, ()))
        kinds = []
        for d in defs:
            dn = fv.cfg.nodes[d]
            if dn.kind == "stmt" and isinstance(dn.ast, ast.Assign) and len(dn.ast.targets) == 1 and isinstance(dn.ast.targets[0], ast.Name):
                kinds.append(_value_kind(fv, dn.ast.value, d, stringish, depth + 1))
            else:
                kinds.append(None)
        if "int" in kinds:
            return "int"
        if "str" in kinds:
            return "str"
        return kinds[0] if kinds and all(k == kinds[0] for k in kinds) else None
    return None


def buffer_dtype_rule(ctx, rule: str, funcs: Sequence[str], stringish: Sequence[str] = ()) -> int:
    """numpy.full(shape, v) / numpy.char.add(..) / numpy.repeat(v, n) create an array whose dtype is that of the first value:
    an integer or a fixed-width string array.  Storing other values into it afterwards silently truncates them (fractions
    are cut off, longer strings are cut to the width of the first one)."""
    n_sites = 0
    for short in funcs:
        f = ctx.prog.func(short)
        if f is None:
            continue
        fv = ctx.fv(f)
        for n in fv.cfg.nodes:
            if not (n.kind == "stmt" and isinstance(n.ast, ast.Assign) and len(n.ast.targets) == 1 and isinstance(n.ast.targets[0], ast.Name) and isinstance(n.ast.value, ast.Call)):
                continue
            call = n.ast.value
            fn = call_fname(call)
            dotted = call_dotted(call)
            explicit = any(k.arg == "dtype" for k in call.keywords)
            kind = None
            if fn == "full" and len(call.args) >= 2 and not explicit:
                kind = _value_kind(fv, call.args[1], n.id, stringish)
            elif fn == "repeat" and call.args and not explicit and dotted.split(".")[0] in NUMPY:
                kind = _value_kind(fv, call.args[0], n.id, stringish)
            elif ".char." in "." + dotted + "." or dotted.split(".")[-2:-1] == ["char"]:
                kind = "str"
            if kind not in ("int", "str"):
                continue
            buf = n.ast.targets[0].id
            stores = [m for m in fv.cfg.nodes if m.kind == "stmt" and isinstance(m.ast, (ast.Assign, ast.AugAssign)) and isinstance(m.ast.targets[0] if isinstance(m.ast, ast.Assign) else m.ast.target, ast.Subscript)
                      and is_name((m.ast.targets[0] if isinstance(m.ast, ast.Assign) else m.ast.target).value, buf) and fv.cfg.reaches(n.id, m.id)]
            for m in stores:
                vk = _value_kind(fv, m.ast.value, m.id, stringish)
                if kind == "int" and vk == "int":
                    continue
                n_sites += 1
                ctx.rep.touch(f)
                what = "an integer array: fractional values stored into it are cut off" if kind == "int" else "a fixed-width string array (as wide as the first value): longer strings stored into it are cut off"
                ctx.rep.refuted(rule, f"{f.qualname}/{buf}", f"`{stmt_key(n.ast)[:60]}` creates {what} - and `{stmt_key(m.ast)[:50]}` stores other values into it", where=f.where(m.ast))
    return n_sites


# ----------------------------------------------------------------------------- None-able parameter in `+` with text
def _stringy(fv, e: ast.AST, at: int, depth: int = 0) -> bool:
    if isinstance(e, ast.JoinedStr) or (isinstance(e, ast.Constant) and isinstance(e.value, str)):
        return True
    if isinstance(e, ast.BinOp) and isinstance(e.op, ast.Add):
        return _stringy(fv, e.left, at, depth + 1) or _stringy(fv, e.right, at, depth + 1)
    if isinstance(e, ast.Name) and depth < 4:
        raw, at2 = fv.def_expr(e, at)
        if raw is not e:
            return _stringy(fv, raw, at2, depth + 1)
    return False


def none_concat_rule(ctx, rule: str, shorts: Sequence[str], what: str) -> None:
    """`<text> + p` raises TypeError when `p` is None. For the listed entry points (with new helpers expanded into them):
    a parameter whose default is None (or that is annotated Optional) is never an operand of `+` with text unless a
    must-hold fact at that statement excludes None (`p is not None`, `p` truthy, isinstance(p, str))."""
    n_sites = 0
    for short in shorts:
        f = ctx.prog.func_by_short(short) if hasattr(ctx.prog, "func_by_short") else None
        if f is None:
            cands = [g for g in ctx.prog.all_functions() if g.short == short]
            f = cands[0] if cands else None
        if f is None:
            ctx.rep.inconclusive(rule, short, "function not found")
            continue
        fv = ctx.fv(f, f.cls)
        ctx.rep.touch(f)
        noneable = set()
        a = f.node.args
        for arg in a.posonlyargs + a.args + a.kwonlyargs:
            d = f.param_default(arg.arg)
            ann = ast.unparse(arg.annotation) if arg.annotation is not None else ""
            if (isinstance(d, ast.Constant) and d.value is None) or "Optional" in ann or "None" in ann:
                noneable.add(arg.arg)
        for node in fv.cfg.nodes:
            if node.kind not in ("stmt", "test") or node.ast is None:
                continue
            for sub in own_walk(node.ast):
                if not (isinstance(sub, ast.BinOp) and isinstance(sub.op, ast.Add)):
                    continue
                for me, other in ((sub.left, sub.right), (sub.right, sub.left)):
                    if not isinstance(me, ast.Name):
                        continue
                    root = fv.alias_root(me, node.id)
                    if not (isinstance(root, ast.Name) and root.id in noneable and root.id in f.params):
                        continue
                    # the name still denotes the caller's value here (no re-definition reaches this statement)
                    defs = fv.cfg.reaching()[node.id].get(root.id, frozenset())
                    if root is me and any(fv.cfg.nodes[d].kind != "entry" for d in defs):
                        continue
                    if not _stringy(fv, other, node.id):
                        continue
                    n_sites += 1
                    safe = False
                    for r, pol, raw in fv.rfacts_at(node.id):
                        core, p = r, pol
                        while isinstance(core, ast.UnaryOp) and isinstance(core.op, ast.Not):
                            core, p = core.operand, not p
                        if isinstance(core, ast.Compare) and len(core.ops) == 1 and is_name(core.left, root.id) and isinstance(core.comparators[0], ast.Constant) and core.comparators[0].value is None:
                            if (isinstance(core.ops[0], (ast.IsNot, ast.NotEq)) and p) or (isinstance(core.ops[0], (ast.Is, ast.Eq)) and not p):
                                safe = True
                        elif is_name(core, root.id) and p:
                            safe = True
                        elif isinstance(core, ast.Call) and call_fname(core) == "isinstance" and core.args and is_name(core.args[0], root.id) and p:
                            safe = True
                    ctx.rep.check(safe, rule, f"{f.qualname}/{stmt_key(sub)[:50]}", f"`{root.id}` cannot be None here",
                                  f"`{ast.unparse(sub)[:70]}` joins text with `{root.id}`, which is None by default: the call raises TypeError instead of {what}", where=f.where(node.ast))
    ctx.rep.holds(rule, "sites", f"{n_sites} `text + <None-able parameter>` site(s) examined")


# ----------------------------------------------------------------------------- return / break / continue inside `finally`
def finally_jump_rule(ctx, rule: str, shorts: Sequence[str], what: str) -> None:
    """A `return` (or a break/continue that leaves the block) inside `finally` discards whatever exception the try body
    raised - also the one that is supposed to reach the caller. For the listed functions (new helpers expanded into them)
    every finally block falls through; except-handlers that end without re-raising are reported the same way when the try
    body contains a call that is documented to refuse (`what`)."""
    from .c02 import _finally_jumps

    n = 0
    for short in shorts:
        cands = [g for g in ctx.prog.all_functions() if g.short == short]
        if not cands:
            ctx.rep.inconclusive(rule, short, "function not found")
            continue
        f = cands[0]
        ctx.rep.touch(f)
        n += 1
        tries = [s_ for s_ in own_walk(f.node) if isinstance(s_, ast.Try)]
        bad = False
        for t in tries:
            jumps = _finally_jumps(t.finalbody) if t.finalbody else []
            if jumps:
                bad = True
                ctx.rep.refuted(rule, f"{f.qualname}/finally:{type(jumps[0]).__name__.lower()}",
                                f"`{stmt_key(jumps[0])}` inside a finally block discards the exception in flight: {what}", where=f.where(jumps[0]))
            for h in t.handlers:
                names = []
                if h.type is not None:
                    names = [show(x) for x in (h.type.elts if isinstance(h.type, ast.Tuple) else [h.type])]
                broad = h.type is None or any(x.split(".")[-1] in ("Exception", "BaseException", "AssertionError", "ValueError", "OSError") for x in names)
                reraises = any(isinstance(x, ast.Raise) for x in ast.walk(ast.Module(body=h.body, type_ignores=[])))
                if broad and not reraises:
                    bad = True
                    ctx.rep.refuted(rule, f"{f.qualname}/except[{','.join(names) or 'bare'}]", f"the handler `except {', '.join(names)}` ends without re-raising: {what}", where=f.where(h))
        if not bad:
            ctx.rep.holds(rule, f"{f.qualname}/exceptions-propagate", f"{len(tries)} try statement(s); no finally block jumps, no broad handler swallows", where=f.where())
    ctx.rep.floor(rule, "functions examined for discarded exceptions", n, len(shorts))


# ----------------------------------------------------------------------------- in-place modification of a caller's argument
def _may_be_param(t: ast.AST, params: Sequence[str], depth: int = 0) -> Optional[str]:
    """the parameter a resolved term can be *identical* to (no copy in between), if any"""
    if depth > 6:
        return None
    if isinstance(t, ast.Name) and t.id in params:
        return t.id
    if is_sym(t, "phi") or is_sym(t, "norm") or is_sym(t, "alt"):
        for a in t.args:
            r = _may_be_param(a, params, depth + 1)
            if r:
                return r
    if isinstance(t, ast.IfExp):
        return _may_be_param(t.body, params, depth + 1) or _may_be_param(t.orelse, params, depth + 1)
    # numpy hands the same buffer on: asarray of an array of the requested dtype is the array itself, ravel / reshape / squeeze /
    # transpose / view give views of it whenever they can
    if isinstance(t, ast.Call) and not is_sym(t):
        fn = call_fname(t)
        if fn in ("asarray", "asanyarray", "atleast_1d", "atleast_2d") and t.args:
            return _may_be_param(t.args[0], params, depth + 1)
        if fn in ("ravel", "reshape", "squeeze", "transpose", "view", "swapaxes") and isinstance(t.func, ast.Attribute):
            return _may_be_param(t.func.value, params, depth + 1) or (_may_be_param(t.args[0], params, depth + 1) if t.args and isinstance(t.func.value, ast.Name) and t.func.value.id in ("numpy", "np") else None)
    if isinstance(t, ast.Attribute) and t.attr in ("T", "flat"):
        return _may_be_param(t.value, params, depth + 1)
    return None


MUTATING_METHODS = {"append", "extend", "insert", "pop", "remove", "clear", "sort", "reverse", "update", "setdefault", "popitem", "add", "discard", "resize", "fill", "put", "itemset"}


def arg_mutation_rule(ctx, rule: str, shorts: Sequence[str], what: str, allowed: Sequence[str] = ()) -> None:
    """The listed functions (new helpers expanded into them) do not modify the objects they were handed: no `x *= k`,
    `del x[i:]`, `x[i] = v`, `x.append(..)` ... on a name that can still be the caller's own object (a parameter, or a local
    that is bound to the parameter on some path without a copy). `allowed`: parameters that are documented to be modified."""
    n = 0
    for short in shorts:
        cands = [g for g in ctx.prog.all_functions() if g.short == short]
        if not cands:
            ctx.rep.inconclusive(rule, short, "function not found")
            continue
        f = cands[0]
        fv = ctx.fv(f, f.cls)
        ctx.rep.touch(f)
        params = [p for p in f.params if p not in allowed and not (f.cls is not None and p == f.params[0])]
        hits = []
        for node in fv.cfg.nodes:
            if node.kind != "stmt":
                continue
            a = node.ast
            targets = []
            if isinstance(a, ast.AugAssign) and isinstance(a.target, ast.Name):
                targets.append((a.target, f"`{stmt_key(a)[:40]}`"))
            elif isinstance(a, ast.AugAssign) and isinstance(a.target, ast.Subscript):
                targets.append((a.target.value, f"`{stmt_key(a)[:40]}`"))
            elif isinstance(a, ast.Assign):
                for t in a.targets:
                    if isinstance(t, ast.Subscript):
                        targets.append((t.value, f"`{stmt_key(a)[:40]}`"))
            elif isinstance(a, ast.Delete):
                for t in a.targets:
                    if isinstance(t, ast.Subscript):
                        targets.append((t.value, f"`{stmt_key(a)[:40]}`"))
            elif isinstance(a, ast.Expr) and isinstance(a.value, ast.Call) and isinstance(a.value.func, ast.Attribute) and a.value.func.attr in MUTATING_METHODS:
                targets.append((a.value.func.value, f"`{stmt_key(a)[:40]}`"))
            for base, txt in targets:
                while isinstance(base, ast.Subscript):
                    base = base.value
                if not isinstance(base, ast.Name):
                    continue
                n += 1
                # `x *= k` on an immutable value (int, str, tuple) re-binds; only lists / arrays are changed in place - the
                # aliasing question is the same either way, a re-bound number is never a parameter object that matters
                term = fv.res.resolve(ast.Name(id=base.id, ctx=ast.Load()), node.id)
                p = _may_be_param(term, params)
                if p is None and base.id in params and not any(fv.cfg.nodes[d].kind != "entry" for d in fv.cfg.reaching()[node.id].get(base.id, ())):
                    p = base.id
                if p is not None:
                    ann = f.param_annotation(p)
                    scalar = ann is not None and ast.unparse(ann) in ("int", "float", "str", "bool", "Optional[str]", "Optional[int]", "Optional[float]")
                    if not scalar:
                        hits.append((node, txt, p))
        for node, txt, p in hits:
            ctx.rep.refuted(rule, f"{f.qualname}/{txt}", f"{txt} modifies an object that can be the caller's own `{p}` (no copy on that path): {what}", where=f.where(node.ast))
        if not hits:
            ctx.rep.holds(rule, f"{f.qualname}/arguments-untouched", "no in-place modification of an object that can be a caller's argument", where=f.where())
    ctx.rep.holds(rule, "sites", f"{n} in-place modification site(s) examined")


# ----------------------------------------------------------------------------- truthiness tests of values where 0 / [] / arrays are legitimate
def truthiness_rule(ctx, rule: str, shorts: Sequence[str], params: Sequence[str], what: str) -> None:
    """`if not x` / `x or default` on a parameter that may legitimately be 0, an empty sequence or a numpy array treats all
    of these like "not given" (and raises "truth value of an array is ambiguous" for arrays with several elements)."""
    n = 0
    for short in shorts:
        cands = [g for g in ctx.prog.all_functions() if g.short == short]
        if not cands:
            ctx.rep.inconclusive(rule, short, "function not found")
            continue
        f = cands[0]
        fv = ctx.fv(f, f.cls)
        ctx.rep.touch(f)
        hits = []

        def bare(e, node_id):
            if isinstance(e, ast.Name) and e.id in params and e.id in f.params:
                defs = fv.cfg.reaching()[node_id].get(e.id, frozenset())
                return all(fv.cfg.nodes[d].kind == "entry" for d in defs)
            return False

        for node in fv.cfg.nodes:
            if node.ast is None:
                continue
            roots = [node.ast] if node.kind in ("test", "stmt") else []
            for r in roots:
                for sub in own_walk(r) if node.kind == "stmt" else ast.walk(r):
                    cands_ = []
                    if isinstance(sub, ast.UnaryOp) and isinstance(sub.op, ast.Not):
                        cands_.append(sub.operand)
                    elif isinstance(sub, ast.BoolOp):
                        cands_ += list(sub.values[:-1]) if isinstance(sub.op, ast.Or) else list(sub.values)
                    elif isinstance(sub, ast.IfExp):
                        cands_.append(sub.test)
                    if node.kind == "test" and sub is r:
                        cands_.append(sub)
                    for c_ in cands_:
                        if bare(c_, node.id):
                            hits.append((node, c_.id))
        n += 1
        seen = set()
        for node, p in hits:
            if (node.id, p) in seen:
                continue
            seen.add((node.id, p))
            ctx.rep.refuted(rule, f"{f.qualname}/truthiness[{p}]@{stmt_key(node.ast)[:30]}", f"`{stmt_key(node.ast)[:60]}` tests the truth value of `{p}`: {what}", where=f.where(node.ast))
        if not hits:
            ctx.rep.holds(rule, f"{f.qualname}/no-truthiness[{','.join(params)}]", "the parameter is only compared with None / type-tested", where=f.where())
    ctx.rep.floor(rule, "functions examined for truthiness tests", n, len(shorts))


def empty_partial_rule(ctx, rule: str, shorts: Sequence[str], what: str) -> None:
    """Operations that are undefined for an empty sequence - max() / min() without a default, next() without a default,
    functools.reduce() without an initial value, x[0] / x[-1] - applied to `self` (a worklist is a list and may be empty) or to
    something computed from it: for the empty worklist they raise before anything else happens."""
    n = 0
    for short in shorts:
        cands = [g for g in ctx.prog.all_functions() if g.short == short]
        if not cands:
            ctx.rep.inconclusive(rule, short, "function not found")
            continue
        f = cands[0]
        if not f.params:
            continue
        selfn = f.params[0]
        ctx.rep.touch(f)
        n += 1

        def from_self(e) -> bool:
            for x in ast.walk(e):
                if isinstance(x, ast.Name) and x.id == selfn:
                    par_attr = False
                    for y in ast.walk(e):
                        if isinstance(y, ast.Attribute) and y.value is x:
                            par_attr = True
                    if not par_attr:
                        return True
            return False

        hits = []
        for x in own_walk(f.node):
            if isinstance(x, ast.Call):
                fn = call_fname(x)
                kws = {k.arg for k in x.keywords}
                if fn in ("max", "min") and len(x.args) == 1 and "default" not in kws and from_self(x.args[0]):
                    hits.append((x, f"{fn}() of an empty sequence raises ValueError"))
                elif fn == "next" and len(x.args) == 1 and from_self(x.args[0]):
                    hits.append((x, "next() of an exhausted iterator raises StopIteration"))
                elif fn == "reduce" and len(x.args) == 2 and from_self(x.args[1]):
                    hits.append((x, "reduce() of an empty sequence without an initial value raises TypeError"))
            elif isinstance(x, ast.Subscript) and isinstance(x.ctx, ast.Load) and isinstance(x.value, ast.Name) and x.value.id == selfn:
                k = x.slice
                if isinstance(k, ast.UnaryOp) and isinstance(k.op, ast.USub):
                    k = k.operand
                if isinstance(k, ast.Constant) and isinstance(k.value, int):
                    hits.append((x, "indexing an empty worklist raises IndexError"))
        for x, why in hits:
            ctx.rep.refuted(rule, f"{f.qualname}/empty[{show(x)[:30]}]", f"`{show(x)[:60]}`: {why} - {what}", where=f.where(x))
        if not hits:
            ctx.rep.holds(rule, f"{f.qualname}/empty-safe", "nothing that is undefined for an empty worklist is applied to it", where=f.where())
    ctx.rep.floor(rule, "functions examined for operations undefined on an empty worklist", n, len(shorts))
