"""Helpers shared by the rule modules."""
from __future__ import annotations

import ast
from typing import Callable, Dict, Iterable, List, Optional, Sequence, Set, Tuple

from ..canon import Cmp, Poly, to_cmp, to_poly
from ..defuse import is_sym, key, norm_ops, show, strip_norm
from ..engine import FV, CallSite, Effect, own_walk
from ..model import AnalysisInconclusive, ClassInfo, FunctionInfo

NUMPY = ("numpy", "np")


# ------------------------------------------------------------------ term matchers
def is_name(t: ast.AST, name: Optional[str] = None) -> bool:
    return isinstance(t, ast.Name) and (name is None or t.id == name)


def attr_of_name(t: ast.AST, base: str, attr: str) -> bool:
    return isinstance(t, ast.Attribute) and t.attr == attr and is_name(t.value, base)


def call_fname(t: ast.AST) -> str:
    """Last component of the called name: numpy.array(..) -> 'array', x.flatten(..) -> 'flatten', len(..) -> 'len'."""
    if not isinstance(t, ast.Call):
        return ""
    fn = t.func
    if isinstance(fn, ast.Attribute):
        return fn.attr
    if isinstance(fn, ast.Name):
        return fn.id
    return ""


def call_dotted(t: ast.AST) -> str:
    if not isinstance(t, ast.Call):
        return ""
    try:
        return ast.unparse(t.func)
    except Exception:
        return ""


def elem_parts(t: ast.AST) -> Optional[Tuple[str, ast.AST]]:
    """§elem(loop, seq) -> (loop id, seq term)."""
    if is_sym(t, "elem") and len(t.args) == 2 and isinstance(t.args[0], ast.Constant):
        return str(t.args[0].value), t.args[1]
    return None


def has_unknown(t: ast.AST) -> bool:
    """Does an origin term contain symbols the resolver could not see through?"""
    for s in ast.walk(t):
        if is_sym(s) and s.func.id in ("§phi", "§def", "§rec", "§deep"):
            return True
    return False


def same(a: ast.AST, b: ast.AST) -> bool:
    return key(a) == key(b)


def same_seq(a: ast.AST, b: ast.AST) -> bool:
    """Same sequence modulo the repo's normalisation idiom (array/flatten/repeat/list)."""
    return key(strip_norm(a)) == key(strip_norm(b))


def subterms(t: ast.AST) -> Iterable[ast.AST]:
    return ast.walk(t)


def contains_key(t: ast.AST, k: str) -> bool:
    return any(key(s) == k for s in ast.walk(t))


def flatten_orders(t: ast.AST) -> List[Tuple[str, Optional[str], ast.Call]]:
    """For every flatten/ravel in the normalisation chain of a resolved sequence term: (method, order or None)."""
    out = []
    for name, call in norm_ops(t):
        if name in ("flatten", "ravel"):
            order = None
            if call.args and isinstance(call.args[0], ast.Constant):
                order = call.args[0].value
            for kw in call.keywords:
                if kw.arg == "order" and isinstance(kw.value, ast.Constant):
                    order = kw.value.value
            out.append((name, order, call))
    return out


DEDUP_FUNCS = {"set", "frozenset", "unique", "fromkeys", "sorted", "reversed", "dict"}


def seq_transformers(t: ast.AST) -> List[str]:
    """Names of calls wrapped around a sequence term that are *not* the neutral normalisation idiom."""
    from ..defuse import _norm_step

    out = []
    cur = t
    while True:
        if is_sym(cur, "norm"):
            cur = cur.args[0]
            continue
        st = _norm_step(cur)
        if st is not None:
            cur = st[2]
            continue
        if isinstance(cur, ast.Call) and not is_sym(cur):
            out.append(call_fname(cur))
            if cur.args:
                cur = cur.args[-1] if call_fname(cur) == "fromkeys" else cur.args[0]
                continue
            if isinstance(cur.func, ast.Attribute):
                cur = cur.func.value
                continue
        if isinstance(cur, ast.Subscript):
            out.append("subscript")
            cur = cur.value
            continue
        break
    return out


# --------------------------------------------------------------------- exceptions
def raise_class(fv: FV, r: ast.AST) -> Tuple[str, List[str]]:
    """(class name, MRO names) of a raise statement / assert."""
    if isinstance(r, ast.Assert):
        return "AssertionError", ["AssertionError", "Exception", "BaseException"]
    e = r.exc if isinstance(r, ast.Raise) else None
    if e is None:
        return "reraise", []
    if isinstance(e, ast.Call):
        e = e.func
    resolved = fv.prog.resolve_expr_static(fv.f.module, e)
    if isinstance(resolved, ClassInfo):
        return resolved.name, fv.prog.mro_names(resolved)
    name = e.attr if isinstance(e, ast.Attribute) else getattr(e, "id", "?")
    from ..model import EXC_PARENTS

    mro = [name]
    cur = name
    while cur in EXC_PARENTS and EXC_PARENTS[cur]:
        cur = EXC_PARENTS[cur][0]
        mro.append(cur)
    return name, mro


def guard_raises(fv: FV, branch_node: int, polarity_of_fact: bool) -> Optional[Tuple[ast.AST, str, List[str]]]:
    """If the *other* outcome of the branch raises: (raise stmt, class, mro)."""
    for n, test, pol_raise, r in fv.raising_guards():
        if n.id == branch_node and pol_raise != polarity_of_fact:
            name, mro = raise_class(fv, r)
            return r, name, mro
    return None


def find_cmp_fact(fv: FV, at: int, expected: Cmp, opaque=None):
    """A must-hold fact at `at` whose canonical comparison equals `expected` -> (raw atom, polarity, branch node)."""
    for atom, pol, branch in fv.facts_at(at):
        r = fv.res.resolve(atom, branch)
        c = to_cmp(r, pol, opaque)
        if c is not None and c == expected:
            return atom, pol, branch
    return None


def cmp_facts(fv: FV, at: int, opaque=None) -> List[Tuple[Cmp, ast.AST, bool, int]]:
    out = []
    for atom, pol, branch in fv.facts_at(at):
        if not (isinstance(atom, ast.Compare) and len(atom.ops) == 1):
            continue
        r = fv.res.resolve(atom, branch)
        c = to_cmp(r, pol, opaque)
        if c is not None:
            out.append((c, atom, pol, branch))
    return out


def require(cond: bool, rule: str, where: str, why: str) -> None:
    if not cond:
        raise AnalysisInconclusive(rule, where, why)


def stmt_key(s: ast.AST) -> str:
    """Normalised statement text (no positions) for finding keys."""
    try:
        return " ".join(ast.unparse(s).split())[:160]
    except Exception:
        return type(s).__name__


def device_classes(ctx) -> List[ClassInfo]:
    base = ctx.prog.require_class("BaseWorklist", "anchors")
    subs = [c for c in ctx.prog.subclasses(base)]
    if not subs:
        raise AnalysisInconclusive("anchors", "BaseWorklist", "no device subclasses found")
    return sorted(subs, key=lambda c: c.qualname)


def concrete_devices(ctx) -> List[ClassInfo]:
    """Device classes that define their own well numbering (EvoWorklist, FluentWorklist) - not deprecated aliases."""
    out = [c for c in device_classes(ctx) if "_get_well_position" in c.methods]
    if len(out) < 2:
        raise AnalysisInconclusive("anchors", "BaseWorklist", f"expected two device classes overriding _get_well_position, found {len(out)}")
    return out


def kwarg(call: ast.Call, name: str) -> Optional[ast.AST]:
    for kw in call.keywords:
        if kw.arg == name:
            return kw.value
    return None


def const_value(t: ast.AST):
    return t.value if isinstance(t, ast.Constant) else None


def with_helpers(ctx, fv, depth: int = 2) -> List[FV]:
    """The function view plus the views of the *new* helper functions it calls (not in the frozen anchor list)."""
    out = [fv]
    seen = {fv.f.qualname}
    frontier = [fv]
    for _ in range(depth):
        nxt = []
        for v in frontier:
            for cs in v.calls():
                hv = v._helper_view(cs.call)
                if hv is None:
                    continue
                g, conc = hv
                if g.qualname in seen:
                    continue
                seen.add(g.qualname)
                gv = ctx.fv(g, conc)
                out.append(gv)
                nxt.append(gv)
        frontier = nxt
    return out


# ------------------------------------------------------------------ memoisation
CACHE_DECORATORS = {"lru_cache", "cache", "cached", "memoize", "memoized", "cached_property"}
_MEMO_FIXTURE = '''
import functools
_CODES = {}
@functools.lru_cache(maxsize=None)
def wells_of(n):
    return [str(i) for i in range(n)]
def code(rows, cols, selected):
    k = bytes(selected)
    if k in _CODES:
        return _CODES[k]
    r = str(rows) + str(cols)
    _CODES[k] = r
    return r
'''


def _decorator_name(d: ast.AST) -> str:
    if isinstance(d, ast.Call):
        d = d.func
    return d.attr if isinstance(d, ast.Attribute) else getattr(d, "id", "")


def _mutable_value(e: ast.AST) -> Optional[bool]:
    """True: a list/dict/set/ndarray is built; False: clearly immutable; None: unknown."""
    if isinstance(e, (ast.List, ast.Dict, ast.Set, ast.ListComp, ast.DictComp, ast.SetComp)):
        return True
    if isinstance(e, (ast.Constant, ast.JoinedStr, ast.Tuple, ast.Compare, ast.BoolOp)):
        return False if not isinstance(e, ast.Tuple) or all(_mutable_value(x) is False for x in e.elts) else None
    if isinstance(e, ast.Call):
        fn = call_fname(e)
        if fn in ("list", "dict", "set", "array", "asarray", "zeros", "ones", "full", "empty", "zeros_like", "copy", "tolist", "flatten", "ravel", "reshape", "sorted", "repeat", "defaultdict", "deepcopy"):
            return True
        if fn in ("str", "int", "float", "bool", "tuple", "frozenset", "len", "format", "join", "round"):
            return False
        return None
    if isinstance(e, ast.BinOp):
        a, b = _mutable_value(e.left), _mutable_value(e.right)
        if a is True or b is True:
            return True
        return None
    if isinstance(e, ast.Subscript) and isinstance(e.slice, ast.Slice):
        return _mutable_value(e.value)
    return None


def memo_findings(tree_functions) -> List[Tuple[object, ast.AST, str, Optional[bool]]]:
    """(function, node, message, verdict False=refuted / None=inconclusive) for caching that changes behaviour:
    a cache decorator on a function that builds a mutable result (every caller gets the same object), and a hand-written
    memo table whose key leaves out a parameter of the function."""
    out = []
    for f, fdef in tree_functions:
        for d in fdef.decorator_list:
            if _decorator_name(d) in CACHE_DECORATORS:
                rets = [s.value for s in own_walk(fdef) if isinstance(s, ast.Return) and s.value is not None]
                # follow plain local names to their (single) definition
                defs: Dict[str, List[ast.AST]] = {}
                for s in own_walk(fdef):
                    if isinstance(s, ast.Assign) and len(s.targets) == 1 and isinstance(s.targets[0], ast.Name):
                        defs.setdefault(s.targets[0].id, []).append(s.value)
                verdicts = []
                for r in rets:
                    if isinstance(r, ast.Name) and r.id in defs:
                        vs = [_mutable_value(v) for v in defs[r.id]]
                        verdicts.append(True if any(v is True for v in vs) else (False if all(v is False for v in vs) else None))
                    else:
                        verdicts.append(_mutable_value(r))
                if any(v is True for v in verdicts):
                    out.append((f, d, f"`@{_decorator_name(d)}` on a function that builds a list/dict/array: every call with equal arguments hands out the *same* mutable object, "
                                "so a caller that edits its result changes what all later callers get", False))
                elif not all(v is False for v in verdicts):
                    out.append((f, d, f"`@{_decorator_name(d)}`: cannot tell whether the cached result is mutable", None))
        # hand-written memo:  if k in TABLE: return TABLE[k]   ...   TABLE[k] = value
        params = [a.arg for a in fdef.args.posonlyargs + fdef.args.args + fdef.args.kwonlyargs if a.arg not in ("self", "cls")]
        stores = {}
        for s in own_walk(fdef):
            if isinstance(s, ast.Assign) and len(s.targets) == 1 and isinstance(s.targets[0], ast.Subscript) and isinstance(s.targets[0].value, (ast.Name, ast.Attribute)):
                stores.setdefault(ast.unparse(s.targets[0].value), []).append(s.targets[0])
        for table, tgts in stores.items():
            reads = [s for s in own_walk(fdef) if isinstance(s, ast.Return) and s.value is not None and any(
                (isinstance(x, ast.Subscript) and ast.unparse(x.value) == table and isinstance(x.ctx, ast.Load)) or
                (isinstance(x, ast.Call) and isinstance(x.func, ast.Attribute) and x.func.attr == "get" and ast.unparse(x.func.value) == table) for x in ast.walk(s.value))]
            reads += [s for s in own_walk(fdef) if isinstance(s, ast.Assign) and isinstance(s.value, ast.Call) and isinstance(s.value.func, ast.Attribute) and s.value.func.attr == "get"
                      and ast.unparse(s.value.func.value) == table]
            if not reads:
                continue
            local_defs: Dict[str, ast.AST] = {}
            for s in own_walk(fdef):
                if isinstance(s, ast.Assign) and len(s.targets) == 1 and isinstance(s.targets[0], ast.Name):
                    local_defs.setdefault(s.targets[0].id, s.value)
            kexpr = tgts[0].slice
            seen_names: Set[str] = set()
            work = [kexpr]
            depth = 0
            while work and depth < 50:
                depth += 1
                e = work.pop()
                for x in ast.walk(e):
                    if isinstance(x, ast.Name) and x.id not in seen_names:
                        seen_names.add(x.id)
                        if x.id in local_defs and x.id not in params:
                            work.append(local_defs[x.id])
            # parameters that influence the result: all of them, unless they are only used to build the key
            missing = [p for p in params if p not in seen_names]
            if missing:
                out.append((f, tgts[0], f"results are memoised in `{table}` under the key `{ast.unparse(kexpr)[:50]}`, which does not contain the parameter(s) {missing}: "
                            "a call that differs only in those gets the result computed for another call", False))
    return out


def memo_rule(ctx, rule: str, module_suffixes: Sequence[str]) -> None:
    """No behaviour-changing caching in the modules a property is anchored in (see memo_findings)."""
    funcs = [(f, f.node) for f in ctx.prog.all_functions(include_inlined=True) if f.module.relpath.endswith(tuple(module_suffixes))]
    n = 0
    for f, node, msg, verdict in memo_findings(funcs):
        n += 1
        ctx.rep.touch(f)
        if verdict is False:
            ctx.rep.refuted(rule, f"{f.qualname}/cache", msg, where=f.where(node))
        else:
            ctx.rep.inconclusive(rule, f"{f.qualname}/cache", msg, where=f.where(node))
    fx = ast.parse(_MEMO_FIXTURE)
    fx_funcs = [(None, s) for s in fx.body if isinstance(s, ast.FunctionDef)]
    hits = memo_findings(fx_funcs)
    if len([h for h in hits if h[3] is False]) != 2:
        ctx.rep.inconclusive(rule, "fixture/memo", "embedded positive fixture (cached mutable result + incomplete memo key) was not detected: rule is broken")
    elif n == 0:
        ctx.rep.holds(rule, "no-behaviour-changing-cache", f"{len(funcs)} functions in {list(module_suffixes)}: no cache decorator on a builder of mutable results, no memo table with an incomplete key (fixture detected)")


# ------------------------------------------------------------------ negative computed slice bounds
def negative_slice_rule(ctx, rule: str, module_suffixes: Sequence[str]) -> int:
    """`x[a:-n]` is the empty slice for n == 0 (not "everything from a"): every slice bound of the form -<expression> needs
    a fact n >= 1 at that point, or the idiom `-n or None`.  Returns the number of such bounds examined."""
    n_sites = 0
    for f in ctx.prog.all_functions():
        if not f.module.relpath.endswith(tuple(module_suffixes)):
            continue
        fv = None
        for node_ast in own_walk(f.node):
            if not (isinstance(node_ast, ast.Subscript) and isinstance(node_ast.ctx, ast.Load)):
                continue
            slices = [node_ast.slice] if isinstance(node_ast.slice, ast.Slice) else [e for e in getattr(node_ast.slice, "elts", []) if isinstance(e, ast.Slice)]
            for sl in slices:
                for bound in (sl.lower, sl.upper):
                    if isinstance(bound, ast.UnaryOp) and isinstance(bound.op, ast.USub) and not isinstance(bound.operand, ast.Constant):
                        n_sites += 1
                        fv = fv or ctx.fv(f)
                        at = fv.node_of(node_ast)
                        x = fv.res.resolve(bound.operand, at)
                        px = to_poly(x)
                        ok = False
                        for cmpf, atom, pol, br in cmp_facts(fv, at):
                            if cmpf == Cmp(px - Poly.const(1), ">=") or cmpf == Cmp(px, ">") or cmpf == Cmp(px, "!="):
                                ok = True
                        ctx.rep.touch(f)
                        ctx.rep.check(ok, rule, f"{f.qualname}/[{ast.unparse(sl)[:30]}]", f"slice bound -{show(bound.operand)[:20]} is used only where it is >= 1",
                                      f"`{ast.unparse(node_ast)[:60]}`: when `{show(bound.operand)[:30]}` is 0 the bound -0 selects nothing (instead of everything up to the end), "
                                      "and nothing here establishes that it is at least 1 (use `-n or None`)", where=f.where(node_ast))
    return n_sites
