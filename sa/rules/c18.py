"""C18 - column partitioning keeps triples intact, groups by column and orders by row."""
from __future__ import annotations

import ast
from typing import Dict, List, Optional

from ..canon import truth_table
from ..defuse import is_sym, key, show, strip_norm
from ..engine import own_walk
from ..model import AnalysisInconclusive
from .common import attr_of_name, call_fname, elem_parts, is_name, raise_class, stmt_key

EXPLANATION = (
    "C18: in partition_by_column the three appends of one iteration take s, d, v from the same zip element and go to "
    "components 0/1/2 of the entry under one key, unconditionally; the key is the column suffix of the partitioning "
    "side; groups are emitted in sorted key order; every group is re-ordered by ONE argsort permutation of the "
    "partitioning side applied to all three lists; every return hands out that structure; unknown modes raise "
    "ValueError. optimize_partition_by: membership guard, exact truth table of the 'auto' decision, explicit choices "
    "are never reassigned."
)
ASSUMPTIONS = ["zero-padded two-digit column suffixes sort lexicographically like numbers (columns 1..99)", "numpy.argsort returns a permutation"]


def run(ctx) -> None:
    ctx.guard("C18.group-integrity", grouping)
    ctx.guard("C18.one-permutation", sorting)
    ctx.guard("C18.mode", optimize)


def _pb():
    return "partition_by"


def _mode_of(fv, node: int) -> Optional[str]:
    for r, pol, raw in fv.rfacts_at(node):
        if isinstance(r, ast.Compare) and len(r.ops) == 1 and isinstance(r.ops[0], ast.Eq) and pol and is_name(r.left, _pb()) and isinstance(r.comparators[0], ast.Constant):
            return r.comparators[0].value
    return None


def grouping(ctx) -> None:
    rule = "C18.group-integrity"
    f = ctx.prog.require_func("partition_by_column", rule)
    fv = ctx.fv(f)
    loops = [n for n in fv.cfg.nodes if n.kind == "for"]
    g = None
    for lp in loops:
        it = fv.res.resolve(lp.ast.iter, lp.id)
        if isinstance(it, ast.Call) and call_fname(it) == "zip" and [getattr(strip_norm(a), "id", None) for a in it.args] == ["sources", "destinations", "volumes"]:
            g = lp
    if g is None:
        ctx.rep.refuted(rule, f"{f.qualname}/grouping-loop", "no loop over zip(sources, destinations, volumes): the three lists are not traversed as triples", where=f.where())
        return
    loopid = f"loop@{g.id}"
    body = fv.cfg.loop_body[g.id]
    apps = []
    for cs in fv.calls():
        if cs.node in body and isinstance(cs.call.func, ast.Attribute) and cs.call.func.attr == "append":
            apps.append(cs)
    comps = {}
    keys = set()
    for cs in apps:
        tgt = fv.res.resolve(cs.call.func.value, cs.node)
        arg = fv.res.resolve(cs.call.args[0], cs.node) if cs.call.args else None
        if not (isinstance(tgt, ast.Subscript) and isinstance(tgt.slice, ast.Constant) and isinstance(tgt.value, ast.Subscript)):
            ctx.rep.inconclusive(rule, f"{f.qualname}/append", f"unrecognised append target `{show(tgt)[:60]}`", where=f.where(cs.call))
            continue
        comp = tgt.slice.value
        keys.add(key(tgt.value.slice))
        ep = elem_parts(arg) if arg is not None else None
        want = ["sources", "destinations", "volumes"][comp] if comp in (0, 1, 2) else None
        ok = ep is not None and ep[0] == loopid and is_name(strip_norm(ep[1]), want)
        comps[comp] = comps.get(comp, 0) + 1
        ctx.rep.check(ok, rule, f"{f.qualname}/append[{comp}]", f"component {comp} receives the {want} element of this triple",
                      f"component {comp} of the group receives `{show(arg)[:50] if arg is not None else None}` instead of the {want} element of the same triple: triples are torn apart", where=f.where(cs.call))
        cond = fv.controlling(cs.node, within=body, skip_raising=True)
        ctx.rep.check(not cond, rule, f"{f.qualname}/append[{comp}]/unconditional", "append is unconditional",
                      f"the append is skipped depending on `{stmt_key(fv.cfg.nodes[cond[0][0]].ast)[:50] if cond else ''}`: triples are dropped (multiset not preserved)", where=f.where(cs.call))
    ctx.rep.check(comps == {0: 1, 1: 1, 2: 1}, rule, f"{f.qualname}/three-appends", "exactly one append per component and iteration", f"appends per component: {comps}", where=f.where(g.ast))
    ctx.rep.check(len(keys) == 1, rule, f"{f.qualname}/same-key", "the three appends use the same group key", "the three appends of one iteration go to different groups", where=f.where(g.ast))
    exits = [n for n in (fv.cfg.nodes[i] for i in body) if n.kind == "stmt" and isinstance(n.ast, (ast.Break, ast.Continue, ast.Return))]
    ctx.rep.check(not exits, rule, f"{f.qualname}/no-skip", "no break/continue in the grouping loop", "a triple can be skipped (break/continue in the grouping loop)", where=f.where(g.ast))
    # group key per mode: column suffix of the partitioning side
    assigns = [n for n in (fv.cfg.nodes[i] for i in body) if n.kind == "stmt" and isinstance(n.ast, ast.Assign) and isinstance(n.ast.targets[0], ast.Name)]
    seen = {}
    for n in assigns:
        mode = _mode_of(fv, n.id)
        v = fv.res.resolve(n.ast.value, n.id)
        if mode in ("source", "destination") and isinstance(v, ast.Subscript) and isinstance(v.slice, ast.Slice):
            ep = elem_parts(v.value)
            want = "sources" if mode == "source" else "destinations"
            sl = v.slice
            ok = ep is not None and ep[0] == loopid and is_name(strip_norm(ep[1]), want) and isinstance(sl.lower, ast.Constant) and sl.lower.value == 1 and sl.upper is None
            seen[mode] = ok
            ctx.rep.check(ok, rule, f"{f.qualname}/key[{mode}]", f"group key = column suffix of the {mode} well", f"under partition_by={mode!r} the group key is `{show(v)[:50]}`", where=f.where(n.ast))
    for mode in ("source", "destination"):
        if mode not in seen:
            ctx.rep.inconclusive(rule, f"{f.qualname}/key[{mode}]", "group key assignment not found")
    _mode_raises(ctx, rule.replace("group-integrity", "mode"), fv, f, body, "grouping")
    # groups in sorted key order
    ok_order = False
    for n in fv.cfg.nodes:
        if n.kind == "stmt" and isinstance(n.ast, ast.Assign) and isinstance(n.ast.value, ast.ListComp):
            lc = n.ast.value
            it = lc.generators[0].iter
            if isinstance(it, ast.Call) and call_fname(it) == "sorted" and not it.keywords and not lc.generators[0].ifs and isinstance(lc.elt, ast.Subscript):
                src = it.args[0]
                is_keys = (isinstance(src, ast.Call) and call_fname(src) == "keys") or isinstance(src, ast.Name)
                ok_order = is_keys and isinstance(lc.elt.slice, ast.Name) and lc.elt.slice.id == lc.generators[0].target.id
    ctx.rep.check(ok_order, rule.replace("group-integrity", "order"), f"{f.qualname}/group-order", "groups are emitted for sorted(keys), every key once",
                  "the column groups are not emitted in sorted key order (ascending column), one group per key", where=f.where())


def _mode_raises(ctx, rule, fv, f, body, what) -> None:
    ok = False
    for n, test, pol, r in fv.raising_guards():
        if n.id in body and not pol:
            rt = fv.res.resolve(test, n.id)
            if isinstance(rt, ast.Compare) and is_name(rt.left, _pb()) and raise_class(fv, r)[0] == "ValueError":
                ok = True
    ctx.rep.check(ok, rule, f"{f.qualname}/{what}-else-raises", "any other mode name raises ValueError", f"an unknown partition_by value is not rejected with ValueError in the {what} loop", where=f.where())


def sorting(ctx) -> None:
    rule = "C18.one-permutation"
    f = ctx.prog.require_func("partition_by_column", rule)
    fv = ctx.fv(f)
    target = None
    for lp in [n for n in fv.cfg.nodes if n.kind == "for"]:
        it = lp.ast.iter
        if isinstance(it, ast.Call) and call_fname(it) == "enumerate" and it.args and isinstance(it.args[0], ast.Name) and isinstance(lp.ast.target, ast.Tuple) and len(lp.ast.target.elts) == 2 \
                and isinstance(lp.ast.target.elts[1], ast.Tuple) and len(lp.ast.target.elts[1].elts) == 3:
            target = lp
    if target is None:
        ctx.rep.refuted(rule, f"{f.qualname}/sorting-loop", "no loop `for c, (srcs, dsts, vols) in enumerate(column_groups)`: rows within a column are not sorted", where=f.where())
        return
    groups_name = target.ast.iter.args[0].id
    cname = target.ast.target.elts[0].id
    names = [e.id for e in target.ast.target.elts[1].elts]
    body = fv.cfg.loop_body[target.id]
    ctx.rep.check(not fv.cfg.loop_has_break.get(target.id), rule, f"{f.qualname}/all-groups", "every group is sorted", "the sorting loop can stop early", where=f.where(target.ast))
    stores = [n for n in (fv.cfg.nodes[i] for i in body) if n.kind == "stmt" and isinstance(n.ast, ast.Assign) and isinstance(n.ast.targets[0], ast.Subscript) and is_name(n.ast.targets[0].value, groups_name)]
    if len(stores) != 1:
        ctx.rep.check(None if not stores else False, rule, f"{f.qualname}/store", "", f"expected one store column_groups[c] = (...), found {len(stores)}", where=f.where(target.ast))
        return
    st = stores[0]
    w = f.where(st.ast)
    ok_idx = is_name(st.ast.targets[0].slice, cname) and not fv.controlling(st.id, within=body, skip_raising=True)
    ctx.rep.check(ok_idx, rule, f"{f.qualname}/store-index", "the sorted group replaces the group it was computed from, unconditionally", "the sorted group is stored under another index or only conditionally", where=w)
    val = st.ast.value
    if not (isinstance(val, ast.Tuple) and len(val.elts) == 3):
        ctx.rep.refuted(rule, f"{f.qualname}/triple", "the sorted group is not a (sources, destinations, volumes) triple", where=w)
        return
    perms = []
    for i, e in enumerate(val.elts):
        t = fv.res.resolve(e, st.id)
        inner = t
        while isinstance(inner, ast.Call) and call_fname(inner) in ("list", "tuple") and inner.args:
            inner = inner.args[0]
        ok = False
        perm = None
        if isinstance(inner, ast.Subscript):
            base = strip_norm(inner.value)
            perm = inner.slice
            ok = is_sym(base, "item") or is_sym(base, "elem") or True
            # base must be the i-th list of the group of this iteration
            raw_base = e
            while isinstance(raw_base, ast.Call) and raw_base.args:
                raw_base = raw_base.args[0]
            raw_inner = raw_base.value if isinstance(raw_base, ast.Subscript) else None
            while isinstance(raw_inner, ast.Call) and raw_inner.args:
                raw_inner = raw_inner.args[0]
            ok = isinstance(raw_inner, ast.Name) and raw_inner.id == names[i]
        ctx.rep.check(ok, rule, f"{f.qualname}/component[{i}]", f"component {i} is `{names[i]}` re-indexed",
                      f"component {i} of the sorted group is `{show(t)[:60]}`: not the {names[i]} list of this group under the permutation", where=w)
        perms.append(key(perm) if perm is not None else f"?{i}")
    ctx.rep.check(len(set(perms)) == 1, rule, f"{f.qualname}/same-permutation", "one index vector permutes all three lists",
                  "the three lists of a group are permuted by different index vectors: sources, destinations and volumes are re-paired", where=w)
    # the permutation is argsort of the partitioning side per mode
    orders = [n for n in (fv.cfg.nodes[i] for i in body) if n.kind == "stmt" and isinstance(n.ast, ast.Assign) and isinstance(n.ast.value, ast.Call) and call_fname(n.ast.value) in ("argsort", "lexsort", "sorted")]
    seen = {}
    for n in orders:
        mode = _mode_of(fv, n.id)
        a0 = n.ast.value.args[0] if n.ast.value.args else None
        want = names[0] if mode == "source" else names[1] if mode == "destination" else None
        ok = want is not None and call_fname(n.ast.value) == "argsort" and is_name(a0, want) and not [k for k in n.ast.value.keywords if k.arg not in ("kind", "stable")]
        seen[mode] = ok
        ctx.rep.check(ok, rule, f"{f.qualname}/argsort[{mode}]", f"rows ordered by argsort of the {mode} wells",
                      f"under partition_by={mode!r} the row order is `{stmt_key(n.ast)[:60]}`: not argsort of the {mode} wells of the group", where=f.where(n.ast))
    for mode in ("source", "destination"):
        if mode not in seen:
            ctx.rep.inconclusive(rule, f"{f.qualname}/argsort[{mode}]", "argsort assignment not found")
    _mode_raises(ctx, "C18.mode", fv, f, body, "sorting")
    # every return hands out the sorted structure
    for n in fv.cfg.nodes:
        if n.kind == "stmt" and isinstance(n.ast, ast.Return):
            ok = is_name(fv.alias_root(n.ast.value, n.id), groups_name) and target.id in fv.cfg.completed_loops_at(n.id)
            ctx.rep.check(ok, rule, f"{f.qualname}/return[{stmt_key(n.ast)[:30]}]", "returns the grouped and row-sorted structure",
                          f"`{stmt_key(n.ast)[:70]}` returns something that did not pass the grouping and row-sorting loops (shortcut path)", where=f.where(n.ast))


def optimize(ctx) -> None:
    rule = "C18.mode"
    f = ctx.prog.require_func("optimize_partition_by", rule)
    fv = ctx.fv(f)
    # membership guard
    ok_guard = False
    for n, test, pol, r in fv.raising_guards():
        rt = fv.res.resolve(test, n.id)
        core, p = rt, pol
        while isinstance(core, ast.UnaryOp) and isinstance(core.op, ast.Not):
            core, p = core.operand, not p
        if isinstance(core, ast.Compare) and len(core.ops) == 1 and is_name(core.left, _pb()) and isinstance(core.comparators[0], (ast.Set, ast.Tuple, ast.List)):
            vals = {e.value for e in core.comparators[0].elts if isinstance(e, ast.Constant)}
            neg = isinstance(core.ops[0], ast.NotIn)
            if vals == {"auto", "source", "destination"} and (neg == p) and raise_class(fv, r)[0] == "ValueError" and fv.cfg.dominates(n.id, fv.cfg.exit) and not fv.controlling(n.id):
                ok_guard = True
    ctx.rep.check(ok_guard, rule, f"{f.qualname}/membership", "partition_by outside {auto, source, destination} raises ValueError first",
                  "an invalid partition_by name is not rejected with ValueError before anything else", where=f.where())
    # assignments to partition_by
    assigns = [n for n in fv.cfg.nodes if n.kind == "stmt" and isinstance(n.ast, ast.Assign) and any(is_name(t, _pb()) for t in n.ast.targets)]
    table: Dict[tuple, str] = {}
    atoms = ["source.is_trough", "destination.is_trough"]

    def atom_of(e):
        txt = ast.unparse(e).replace(" ", "")
        return txt if txt in atoms else None

    bad_explicit = []
    expanded = []
    for n in assigns:
        v = n.ast.value
        if isinstance(v, ast.IfExp) and isinstance(v.body, ast.Constant) and isinstance(v.orelse, ast.Constant):
            expanded.append((n, v.body.value, [(v.test, True)]))
            expanded.append((n, v.orelse.value, [(v.test, False)]))
        else:
            expanded.append((n, v.value if isinstance(v, ast.Constant) else None, []))
    for n, val, extra in expanded:
        auto = None
        conds = list(extra)
        for d, pol in fv.controlling(n.id, skip_raising=True):
            t = fv.cfg.nodes[d].ast
            if isinstance(t, ast.Compare) and is_name(t.left, _pb()) and isinstance(t.comparators[0], ast.Constant) and t.comparators[0].value == "auto" and isinstance(t.ops[0], ast.Eq):
                auto = pol
            else:
                conds.append((t, pol))
        if auto is not True:
            bad_explicit.append(n)
            continue
        if val is None or len(conds) != 1:
            ctx.rep.inconclusive(rule, f"{f.qualname}/auto", f"unrecognised assignment `{stmt_key(n.ast)}` in the auto branch", where=f.where(n.ast))
            return
        tt = truth_table(conds[0][0], atoms, atom_of)
        if tt is None:
            ctx.rep.inconclusive(rule, f"{f.qualname}/auto", f"auto condition `{stmt_key(conds[0][0])}` is not a boolean function of source.is_trough/destination.is_trough", where=f.where(n.ast))
            return
        for combo, v in tt.items():
            if v == conds[0][1]:
                table[combo] = val
    want = {(True, False): "destination", (False, False): "source", (False, True): "source", (True, True): "source"}
    ctx.rep.check(table == want, rule, f"{f.qualname}/auto-table", "auto = destination exactly when the source is a trough and the destination is not",
                  f"decision table of the automatic choice over (source trough, destination trough) is {dict(sorted(table.items()))}; the property requires {dict(sorted(want.items()))}", where=f.where())
    ctx.rep.check(not bad_explicit, rule, f"{f.qualname}/explicit-respected", "an explicit choice is never reassigned",
                  f"`{stmt_key(bad_explicit[0].ast) if bad_explicit else ''}` overrides an explicit partition_by choice", where=f.where())
    rets = [n for n in fv.cfg.nodes if n.kind == "stmt" and isinstance(n.ast, ast.Return)]
    ctx.rep.check(all(is_name(fv.alias_root(n.ast.value, n.id), _pb()) for n in rets) and bool(rets), rule, f"{f.qualname}/return", "returns the decided mode", "does not return the decided partition_by", where=f.where())
