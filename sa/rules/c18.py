"""C18 - column partitioning keeps triples intact, groups by column and orders by row."""
from __future__ import annotations

import ast
from typing import Dict, List, Optional

from ..canon import truth_table
from ..defuse import is_sym, key, show, strip_norm
from ..engine import own_walk
from ..model import AnalysisInconclusive
from .common import attr_of_name, call_fname, elem_parts, is_name, raise_class, stmt_key

EXPLANATION = (
    "C18: in partition_by_column the three appends of one iteration take s, d, v from the same zip element and go to "
    "components 0/1/2 of the entry under one key, unconditionally; the key is the column suffix of the partitioning "
    "side; groups are emitted in sorted key order; every group is re-ordered by ONE argsort permutation of the "
    "partitioning side applied to all three lists; every return hands out that structure; unknown modes raise "
    "ValueError. optimize_partition_by: membership guard, exact truth table of the 'auto' decision, explicit choices "
    "are never reassigned."
)
ASSUMPTIONS = ["zero-padded two-digit column suffixes sort lexicographically like numbers (columns 1..99)", "numpy.argsort returns a permutation"]


def run(ctx) -> None:
    ctx.guard("C18.group-integrity", grouping)
    ctx.guard("C18.one-permutation", sorting)
    ctx.guard("C18.mode", optimize)
    from .common import concrete_devices

    from . import c06

    for dev in concrete_devices(ctx):
        ctx.guard("C18.wiring", wiring, dev)
        # ... and the groups and rows are pipetted in the order in which partition_by_column hands them out
        ctx.reuse("C18.wiring", c06.iteration_space, dev)
    from .common import memo_rule, none_concat_rule

    ctx.guard("C18.mode", memo_rule, "C18.no-cache", ("worklists/utils.py",))
    ctx.guard("C18.one-permutation", _one_shot)

    ctx.guard("C18.mode", none_concat_rule, "C18.mode", ("optimize_partition_by", "partition_by_column"), "returning the (explicitly chosen or automatic) mode")
    # the automatic choice asks the labware whether it is a trough
    from . import c08

    ctx.reuse("C18.mode", c08.trough_predicate)
    # ... and a labware stays a trough / a plate when it is copied
    from . import objmodel

    from . import c04 as _c04

    ctx.guard("C18.mode", objmodel.enum_missing, "C18.mode", ("worklists/utils.py",), "' auto' / 'source\\n' and the like are accepted as partition modes")

    ctx.reuse("C18.wiring", _c04.pairing_family)
    ctx.guard("C18.mode", objmodel.copy_protocol, "C18.mode", ("Labware",), "a copied trough is no trough any more (or shares state): the automatic choice differs from the original's")


def _pb():
    return "partition_by"


def _mode_of(fv, node: int) -> Optional[str]:
    for r, pol, raw in fv.rfacts_at(node):
        if isinstance(r, ast.Compare) and len(r.ops) == 1 and isinstance(r.ops[0], ast.Eq) and pol and is_name(r.left, _pb()) and isinstance(r.comparators[0], ast.Constant):
            return r.comparators[0].value
    return None


def _append_target(t: ast.AST):
    """Normalise the receiver of `<x>.append(..)`:  D[key][i]  or  §unpack(D[key], i)  ->  (key term, component i)."""
    if isinstance(t, ast.Subscript) and isinstance(t.slice, ast.Constant) and isinstance(t.value, ast.Subscript):
        return t.value.slice, t.slice.value
    if is_sym(t, "unpack") and isinstance(t.args[0], ast.Subscript) and isinstance(t.args[1], ast.Constant):
        return t.args[0].slice, t.args[1].value
    # D.setdefault(key, (.., .., ..))[i]  /  a, b, c = D.setdefault(key, ...)
    def sd(x):
        return isinstance(x, ast.Call) and not is_sym(x) and call_fname(x) in ("setdefault", "get") and len(x.args) >= 1
    if isinstance(t, ast.Subscript) and isinstance(t.slice, ast.Constant) and sd(t.value):
        return t.value.args[0], t.slice.value
    if is_sym(t, "unpack") and sd(t.args[0]) and isinstance(t.args[1], ast.Constant):
        return t.args[0].args[0], t.args[1].value
    return None


def grouping(ctx) -> None:
    rule = "C18.group-integrity"
    f = ctx.prog.require_func("partition_by_column", rule)
    fv = ctx.fv(f)
    loops = [n for n in fv.cfg.nodes if n.kind == "for"]
    g = None
    for lp in loops:
        it = fv.res.resolve(lp.ast.iter, lp.id)
        if isinstance(it, ast.Call) and call_fname(it) == "zip" and [getattr(strip_norm(a), "id", None) for a in it.args] == ["sources", "destinations", "volumes"]:
            g = lp
    if g is None:
        ctx.rep.refuted(rule, f"{f.qualname}/grouping-loop", "no loop over zip(sources, destinations, volumes): the three lists are not traversed as triples", where=f.where())
        return
    loopid = f"loop@{g.id}"
    body = fv.cfg.loop_body[g.id]
    apps = []
    for cs in fv.calls():
        if cs.node in body and isinstance(cs.call.func, ast.Attribute) and cs.call.func.attr == "append":
            apps.append(cs)
    comps = {}
    keys = {}
    key_raw = None
    for cs in apps:
        tgt = fv.res.resolve(cs.call.func.value, cs.node)
        arg = fv.res.resolve(cs.call.args[0], cs.node) if cs.call.args else None
        nt = _append_target(tgt)
        if nt is None:
            ctx.rep.inconclusive(rule, f"{f.qualname}/append", f"unrecognised append target `{show(tgt)[:60]}`", where=f.where(cs.call))
            continue
        kterm, comp = nt
        keys[key(kterm)] = kterm
        ep = elem_parts(arg) if arg is not None else None
        want = ["sources", "destinations", "volumes"][comp] if comp in (0, 1, 2) else None
        ok = ep is not None and ep[0] == loopid and is_name(strip_norm(ep[1]), want)
        comps[comp] = comps.get(comp, 0) + 1
        ctx.rep.check(ok, rule, f"{f.qualname}/append[{comp}]", f"component {comp} receives the {want} element of this triple",
                      f"component {comp} of the group receives `{show(arg)[:50] if arg is not None else None}` instead of the {want} element of the same triple: triples are torn apart", where=f.where(cs.call))
        cond = fv.atoms_at(cs.node, within=body, skip_raising=True) + fv.compound_conditions_at(cs.node, within=body, skip_raising=True)
        # the mode dispatch itself is not a filter: it only selects the key
        cond = [c for c in cond if not (isinstance(c[0], ast.Compare) and is_name(c[0].left, _pb()))]
        ctx.rep.check(not cond, rule, f"{f.qualname}/append[{comp}]/unconditional", "append is unconditional",
                      f"the append is skipped depending on `{show(cond[0][0])[:50] if cond else ''}`: triples are dropped (multiset not preserved)", where=f.where(cs.call))
    ctx.rep.check(comps == {0: 1, 1: 1, 2: 1}, rule, f"{f.qualname}/three-appends", "exactly one append per component and iteration", f"appends per component: {comps}", where=f.where(g.ast))
    ctx.rep.check(len(keys) == 1, rule, f"{f.qualname}/same-key", "the three appends use the same group key", "the three appends of one iteration go to different groups", where=f.where(g.ast))
    exits = [n for n in (fv.cfg.nodes[i] for i in body) if n.kind == "stmt" and isinstance(n.ast, (ast.Break, ast.Return))]
    early_continue = [n for n in (fv.cfg.nodes[i] for i in body) if n.kind == "stmt" and isinstance(n.ast, ast.Continue) and apps and not all(fv.cfg.dominates(cs.node, n.id) for cs in apps)]
    ctx.rep.check(not exits and not early_continue, rule, f"{f.qualname}/no-skip", "no break/return/early continue in the grouping loop", "a triple can be skipped (break/continue in the grouping loop)", where=f.where(g.ast))
    # group key per mode: column suffix of the partitioning side.  The key expression as written at the first append:
    seen = {}
    if apps and len(keys) == 1:
        cs = apps[0]
        raw_t = cs.call.func.value
        # find the raw key expression: D[<key>][i]  or the unpacked  a, b, c = D[<key>]
        raw_key = None
        if isinstance(raw_t, ast.Subscript) and isinstance(raw_t.value, ast.Subscript):
            raw_key, at = raw_t.value.slice, cs.node
        elif isinstance(raw_t, ast.Name) or (isinstance(raw_t, ast.Subscript) and isinstance(raw_t.value, ast.Name) and isinstance(raw_t.slice, ast.Constant)):
            # (`group = D[<key>]; group[0].append(..)`: the group held in a local)
            gname_ = raw_t.id if isinstance(raw_t, ast.Name) else raw_t.value.id
            for d in fv.cfg.reaching()[cs.node].get(gname_, ()):
                dn = fv.cfg.nodes[d]
                if dn.kind == "stmt" and isinstance(dn.ast, ast.Assign) and isinstance(dn.ast.value, ast.Subscript):
                    raw_key, at = dn.ast.value.slice, d
                elif dn.kind == "stmt" and isinstance(dn.ast, ast.Assign) and isinstance(dn.ast.value, ast.Call) and call_fname(dn.ast.value) in ("setdefault", "get") and dn.ast.value.args:
                    raw_key, at = dn.ast.value.args[0], d
        if raw_key is not None:
            for conds, val in fv.alternatives(raw_key, at):
                mode = None
                for r, pol in conds:
                    if isinstance(r, ast.Compare) and len(r.ops) == 1 and isinstance(r.ops[0], ast.Eq) and pol and is_name(r.left, _pb()) and isinstance(r.comparators[0], ast.Constant):
                        mode = r.comparators[0].value
                if mode not in ("source", "destination"):
                    continue
                want = "sources" if mode == "source" else "destinations"
                ok = False
                rk = _regex_key(fv, f, val)
                if rk is not None:
                    wterm, verdict, why = rk
                    ep = elem_parts(wterm)
                    right_well = ep is not None and ep[0] == loopid and is_name(strip_norm(ep[1]), want)
                    seen[mode] = bool(verdict and right_well)
                    if verdict is None:
                        ctx.rep.inconclusive(rule, f"{f.qualname}/key[{mode}]", why, where=f.where(cs.call))
                    else:
                        ctx.rep.check(bool(verdict and right_well), rule, f"{f.qualname}/key[{mode}]", f"group key = column number of the {mode} well",
                                      why if not verdict else f"under partition_by={mode!r} the key is taken from `{show(wterm)[:40]}`, not from the {mode} well", where=f.where(cs.call))
                    continue
                if isinstance(val, ast.Subscript) and isinstance(val.slice, ast.Slice):
                    ep = elem_parts(val.value)
                    sl = val.slice
                    ok = ep is not None and ep[0] == loopid and is_name(strip_norm(ep[1]), want) and isinstance(sl.lower, ast.Constant) and sl.lower.value == 1 and sl.upper is None and sl.step is None
                seen[mode] = ok
                ctx.rep.check(ok, rule, f"{f.qualname}/key[{mode}]", f"group key = column suffix of the {mode} well", f"under partition_by={mode!r} the group key is `{show(val)[:50]}`", where=f.where(cs.call))
    for mode in ("source", "destination"):
        if mode not in seen:
            ctx.rep.inconclusive(rule, f"{f.qualname}/key[{mode}]", "group key per mode could not be determined")
    _mode_raises(ctx, rule.replace("group-integrity", "mode"), fv, f, body, "grouping")
    # groups in sorted key order
    ok_order = False
    for n in fv.cfg.nodes:
        if n.kind == "stmt" and isinstance(n.ast, ast.Assign) and isinstance(n.ast.value, ast.ListComp):
            lc = n.ast.value
            it = lc.generators[0].iter
            if isinstance(it, ast.Name):
                it = fv.def_expr(it, n.id)[0]  # the sorted keys held in a (single-definition) local
            if isinstance(it, ast.Call) and call_fname(it) == "sorted" and not it.keywords and not lc.generators[0].ifs and isinstance(lc.elt, ast.Subscript):
                src = it.args[0]
                is_keys = (isinstance(src, ast.Call) and call_fname(src) == "keys") or isinstance(src, ast.Name)
                ok_order = is_keys and isinstance(lc.elt.slice, ast.Name) and lc.elt.slice.id == lc.generators[0].target.id
    any_sort = False
    for n in fv.cfg.nodes:
        if n.kind == "for" and isinstance(n.ast.iter, ast.Call) and call_fname(n.ast.iter) == "sorted" and not n.ast.iter.keywords and n.ast.iter.args and isinstance(n.ast.target, ast.Name):
            any_sort = True
            src = n.ast.iter.args[0]
            is_keys = (isinstance(src, ast.Call) and call_fname(src) == "keys") or isinstance(src, ast.Name)
            lbody = fv.cfg.loop_body[n.id]
            apps_ = [cs for cs in fv.calls() if cs.node in lbody and isinstance(cs.call.func, ast.Attribute) and cs.call.func.attr == "append" and len(cs.call.args) == 1]
            jumps = [m for m in (fv.cfg.nodes[i] for i in lbody) if m.kind == "stmt" and isinstance(m.ast, (ast.Break, ast.Continue, ast.Return))]
            if is_keys and len(apps_) == 1 and not jumps and not fv.controlling(apps_[0].node, within=lbody, skip_raising=True):
                arg = fv.def_expr(apps_[0].call.args[0], apps_[0].node)[0]
                if isinstance(arg, ast.Subscript) and is_name(arg.slice, n.ast.target.id):
                    ok_order = True
                # merged with the row sorting: the group of this key is unpacked at the top of the body and its sorted
                # version is appended (C18.one-permutation checks that it is the same group, re-indexed)
                def _gval(m):
                    return fv.def_expr(m.ast.value, m.id)[0] if isinstance(m.ast.value, ast.Name) else m.ast.value

                unpacks = [m for m in (fv.cfg.nodes[i] for i in lbody) if m.kind == "stmt" and isinstance(m.ast, ast.Assign) and isinstance(m.ast.targets[0], ast.Tuple)
                           and isinstance(_gval(m), ast.Subscript) and is_name(_gval(m).slice, n.ast.target.id) and not fv.controlling(m.id, within=lbody)]
                if len(unpacks) == 1 and isinstance(arg, ast.Tuple) and len(arg.elts) == len(unpacks[0].ast.targets[0].elts):
                    ok_order = True
                cu = _component_unpack(fv, n, lbody)
                if cu is not None and isinstance(arg, ast.Tuple) and len(arg.elts) == 3:
                    ok_order = True
                # the group of this key held in one local (`group = groups[column]`), its three components re-indexed and appended
                whole = [m for m in (fv.cfg.nodes[i] for i in lbody) if m.kind == "stmt" and isinstance(m.ast, ast.Assign) and isinstance(m.ast.targets[0], ast.Name)
                         and isinstance(m.ast.value, ast.Subscript) and is_name(m.ast.value.slice, n.ast.target.id) and not fv.controlling(m.id, within=lbody, skip_raising=True)]
                if len(whole) == 1 and isinstance(arg, ast.Tuple) and len(arg.elts) == 3:
                    gname = whole[0].ast.targets[0].id
                    comps = [sorted({x.slice.value for x in ast.walk(e) if isinstance(x, ast.Subscript) and is_name(x.value, gname) and isinstance(x.slice, ast.Constant)}) for e in arg.elts]
                    if comps == [[0], [1], [2]]:
                        ok_order = True
    if not ok_order and not any_sort and any(isinstance(x, ast.Call) and call_fname(x) in ("sorted", "sort", "argsort", "lexsort") for n in fv.cfg.nodes if n.ast is not None for x in own_walk(n.ast)):
        ok_order = None if not any(isinstance(n.ast, ast.Assign) and isinstance(n.ast.value, ast.ListComp) for n in fv.cfg.nodes if n.kind == "stmt") else ok_order
    ctx.rep.check(ok_order, rule.replace("group-integrity", "order"), f"{f.qualname}/group-order", "groups are emitted for sorted(keys), every key once",
                  "the column groups are not emitted in sorted key order (ascending column), one group per key", where=f.where())


def _mode_raises(ctx, rule, fv, f, body, what) -> None:
    """Inside the loop an unknown mode must end in raise ValueError (locally or in a new helper called there)."""
    from ..guards import raising_terms

    ok = False
    for term, n, cls in raising_terms(fv, None):
        nid = getattr(n, "id", None)
        if nid not in body or cls != "ValueError":
            continue
        if any(isinstance(a.expr, ast.Compare) and is_name(a.expr.left, _pb()) for a in term):
            ok = True
    ctx.rep.check(ok, rule, f"{f.qualname}/{what}-else-raises", "any other mode name raises ValueError", f"an unknown partition_by value is not rejected with ValueError in the {what} loop", where=f.where())


def _regex_key(fv, f, val: ast.AST):
    """key = [int(] <pattern>.match(<well>).group(<g>) [)]  ->  (well term, True/False/None, explanation)
    True: the group captures the complete column number (all digits up to the end of the ID)."""
    core = val
    while isinstance(core, ast.Call) and call_fname(core) in ("int", "str") and len(core.args) == 1:
        core = core.args[0]
    if not (isinstance(core, ast.Call) and call_fname(core) == "group" and isinstance(core.func, ast.Attribute) and len(core.args) == 1 and isinstance(core.args[0], ast.Constant)):
        return None
    m = core.func.value
    if not (isinstance(m, ast.Call) and call_fname(m) in ("match", "fullmatch", "search") and isinstance(m.func, ast.Attribute)):
        return None
    pat_e = m.func.value
    if isinstance(pat_e, ast.Name) and pat_e.id in ("re", "regex"):
        if len(m.args) != 2:
            return None
        pat_c, wterm = m.args[0], m.args[1]
    else:
        if len(m.args) != 1:
            return None
        wterm = m.args[0]
        pat_c = pat_e
        if isinstance(pat_e, ast.Name):
            d_ = f.module.assigns.get(pat_e.id)
            pat_c = d_.args[0] if isinstance(d_, ast.Call) and call_fname(d_) == "compile" and d_.args else None
    if not (isinstance(pat_c, ast.Constant) and isinstance(pat_c.value, str)):
        return wterm, None, "cannot read the pattern the group key is extracted with"
    import re._parser as sre_parse  # stdlib regex parser (syntax tree only; nothing is matched)
    import re._constants as sre_c

    try:
        tree = sre_parse.parse(pat_c.value)
    except Exception as e:  # noqa: BLE001
        return wterm, None, f"pattern `{pat_c.value}` does not parse: {e}"
    gsel = core.args[0].value
    gnum = tree.state.groupdict.get(gsel) if isinstance(gsel, str) else gsel
    items = list(tree)
    for i, (op, av) in enumerate(items):
        if op is sre_c.SUBPATTERN and av[0] == gnum:
            inner = list(av[3])
            unbounded_digits = len(inner) == 1 and inner[0][0] in (sre_c.MAX_REPEAT, sre_c.MIN_REPEAT) and inner[0][1][0] >= 1 and inner[0][1][1] == sre_c.MAXREPEAT \
                and list(inner[0][1][2]) in ([(sre_c.IN, [(sre_c.CATEGORY, sre_c.CATEGORY_DIGIT)])], [(sre_c.IN, [(sre_c.RANGE, (48, 57))])])
            rest = items[i + 1:]
            to_end = all(op2 is sre_c.AT for op2, _ in rest)
            greedy = inner and inner[0][0] is sre_c.MAX_REPEAT
            if unbounded_digits and (greedy or to_end):
                # leading zeros may be skipped before the group; anything else in front must not eat digits of the column
                return wterm, True, "the column group captures all digits of the column number"
            return wterm, False, (f"the group key is the regex group `{gsel}` of `{pat_c.value}`, which does not capture the complete column number "
                                  "(a single / bounded number of digits): columns that share their leading digit(s) fall into one group (A01 and A12)")
    return wterm, None, f"group `{gsel}` not found at the top level of `{pat_c.value}`"


def _component_unpack(fv, lp, lb):
    """`a = G[key][0]; b = G[key][1]; c = G[key][2]` (unconditional, key = the loop variable) - the component-wise spelling of
    `a, b, c = G[key]` that an expanded helper call `h(.., *G[key])` leaves behind.  -> (G, [a, b, c]) or None"""
    found = {}
    g = None
    for m in (fv.cfg.nodes[i] for i in sorted(lb)):
        if m.kind == "stmt" and isinstance(m.ast, ast.Assign) and len(m.ast.targets) == 1 and isinstance(m.ast.targets[0], ast.Name) and isinstance(m.ast.value, ast.Subscript) \
                and isinstance(m.ast.value.slice, ast.Constant) and isinstance(m.ast.value.value, ast.Subscript) and isinstance(m.ast.value.value.value, ast.Name) \
                and isinstance(lp.ast.target, ast.Name) and is_name(m.ast.value.value.slice, lp.ast.target.id) and not fv.controlling(m.id, within=lb):
            if g is None or g == m.ast.value.value.value.id:
                g = m.ast.value.value.value.id
                found.setdefault(m.ast.value.slice.value, m.ast.targets[0].id)
    if g is not None and sorted(found) == [0, 1, 2]:
        return g, [found[0], found[1], found[2]]
    return None


def sorting(ctx) -> None:
    rule = "C18.one-permutation"
    f = ctx.prog.require_func("partition_by_column", rule)
    fv = ctx.fv(f)
    # the loop over the column groups: `for [c,] (srcs, dsts, vols) in [enumerate(]groups[)]`
    target = None
    for lp in [n for n in fv.cfg.nodes if n.kind == "for"]:
        t = lp.ast.target
        trip = t.elts[1] if isinstance(t, ast.Tuple) and len(t.elts) == 2 and isinstance(t.elts[1], ast.Tuple) else t
        if isinstance(trip, ast.Tuple) and len(trip.elts) == 3 and all(isinstance(e, ast.Name) for e in trip.elts):
            it = lp.ast.iter
            src = it.args[0] if isinstance(it, ast.Call) and call_fname(it) == "enumerate" and it.args else it
            if isinstance(src, ast.Name):
                target = (lp, src.id, trip)
    if target is None:
        # merged form:  for key in sorted(groups): a, b, c = groups[key]; ...; result.append(<sorted triple>)
        for lp in [n for n in fv.cfg.nodes if n.kind == "for" and isinstance(n.ast.target, ast.Name)]:
            lb = fv.cfg.loop_body[lp.id]
            for m in (fv.cfg.nodes[i] for i in sorted(lb)):
                if m.kind == "stmt" and isinstance(m.ast, ast.Assign) and isinstance(m.ast.targets[0], ast.Tuple) and len(m.ast.targets[0].elts) == 3 and all(isinstance(e, ast.Name) for e in m.ast.targets[0].elts):
                    # the group may pass through a single-definition local (a helper's parameter bound by the expansion)
                    gval = fv.def_expr(m.ast.value, m.id)[0] if isinstance(m.ast.value, ast.Name) else m.ast.value
                    if isinstance(gval, ast.Subscript) and isinstance(gval.value, ast.Name) and is_name(gval.slice, lp.ast.target.id) and not fv.controlling(m.id, within=lb):
                        target = (lp, gval.value.id, m.ast.targets[0])
            if target is None:
                cu = _component_unpack(fv, lp, lb)
                if cu is not None:
                    target = (lp, cu[0], ast.Tuple(elts=[ast.Name(id=x, ctx=ast.Store()) for x in cu[1]], ctx=ast.Store()))
    if target is None:
        sorts = any(isinstance(x, ast.Call) and call_fname(x) in ("sorted", "sort", "argsort", "lexsort") for n in fv.cfg.nodes if n.ast is not None for x in own_walk(n.ast))
        if sorts and any(n.kind == "for" for n in fv.cfg.nodes):
            ctx.rep.inconclusive(rule, f"{f.qualname}/sorting-loop", "the loop that sorts the rows of each column group was not recognised (no loop unpacking (sources, destinations, volumes))", where=f.where())
        else:
            ctx.rep.refuted(rule, f"{f.qualname}/sorting-loop", "no loop over the column groups that unpacks (sources, destinations, volumes): rows within a column are not sorted", where=f.where())
        return
    lp, groups_name, trip = target
    names = [e.id for e in trip.elts]
    body = fv.cfg.loop_body[lp.id]
    ctx.rep.check(not fv.cfg.loop_has_break.get(lp.id), rule, f"{f.qualname}/all-groups", "every group is sorted", "the sorting loop can stop early", where=f.where(lp.ast))
    # where does the sorted triple go?  in place (groups[c] = ...) or into a new list (result.append(...))
    sinks = []
    for n in (fv.cfg.nodes[i] for i in body):
        if n.kind == "stmt" and isinstance(n.ast, ast.Assign) and isinstance(n.ast.targets[0], ast.Subscript) and is_name(n.ast.targets[0].value, groups_name):
            sinks.append(("store", n, n.ast.value, groups_name))
    for cs in fv.calls():
        if cs.node in body and isinstance(cs.call.func, ast.Attribute) and cs.call.func.attr == "append" and isinstance(cs.call.func.value, ast.Name) and cs.call.args:
            sinks.append(("append", fv.cfg.nodes[cs.node], cs.call.args[0], cs.call.func.value.id))
    if len(sinks) != 1:
        ctx.rep.check(None if not sinks else False, rule, f"{f.qualname}/store", "", f"expected the sorted group to be stored exactly once per group, found {len(sinks)} stores", where=f.where(lp.ast))
        return
    how, st, val_raw, result_name = sinks[0]
    w = f.where(st.ast)
    uncond = not fv.atoms_at(st.id, within=body, skip_raising=True) or all(isinstance(c[0], ast.Compare) and is_name(c[0].left, _pb()) for c in fv.atoms_at(st.id, within=body, skip_raising=True))
    ok_idx = uncond
    if how == "store":
        cname = lp.ast.target.elts[0].id if isinstance(lp.ast.target, ast.Tuple) and isinstance(lp.ast.target.elts[0], ast.Name) else None
        ok_idx = ok_idx and is_name(st.ast.targets[0].slice, cname)
    ctx.rep.check(ok_idx, rule, f"{f.qualname}/store-index", "the sorted group is stored for the group it was computed from, unconditionally", "the sorted group is stored under another index or only conditionally", where=w)
    val_raw, vat = fv.def_expr(val_raw, st.id)
    if isinstance(val_raw, ast.Call) and call_fname(val_raw) in ("tuple", "list") and len(val_raw.args) == 1 and not val_raw.keywords and isinstance(val_raw.args[0], (ast.Tuple, ast.List)):
        val_raw = ast.Tuple(elts=list(val_raw.args[0].elts), ctx=ast.Load())  # tuple([a, b, c]) is (a, b, c)
    if not (isinstance(val_raw, ast.Tuple) and len(val_raw.elts) == 3):
        ctx.rep.refuted(rule, f"{f.qualname}/triple", "the sorted group is not a (sources, destinations, volumes) triple", where=w)
        return
    perms = []
    elts_at = []
    for i, e in enumerate(val_raw.elts):
        e, eat = fv.def_expr(e, vat) if isinstance(e, ast.Name) else (e, vat)
        elts_at.append((e, eat))
        raw_base = e
        while isinstance(raw_base, ast.Call) and raw_base.args and call_fname(raw_base) in ("list", "tuple", "array", "asarray"):
            raw_base = raw_base.args[0]
        perm = None
        ok = False
        if isinstance(raw_base, ast.Subscript):
            perm = fv.res.resolve(raw_base.slice, eat)
            raw_inner = raw_base.value
            while isinstance(raw_inner, ast.Call) and raw_inner.args and call_fname(raw_inner) in ("list", "tuple", "array", "asarray"):
                raw_inner = raw_inner.args[0]
            ok = isinstance(raw_inner, ast.Name) and raw_inner.id == names[i]
        ctx.rep.check(ok, rule, f"{f.qualname}/component[{i}]", f"component {i} is `{names[i]}` re-indexed",
                      f"component {i} of the sorted group is `{show(e)[:60]}`: not the {names[i]} list of this group under the permutation", where=w)
        perms.append(key(perm) if perm is not None else f"?{i}")
    ctx.rep.check(len(set(perms)) == 1, rule, f"{f.qualname}/same-permutation", "one index vector permutes all three lists",
                  "the three lists of a group are permuted by different index vectors: sources, destinations and volumes are re-paired", where=w)
    # the permutation is argsort of the partitioning side per mode
    first, vat = elts_at[0]
    fb = first
    while isinstance(fb, ast.Call) and fb.args and call_fname(fb) in ("list", "tuple", "array", "asarray"):
        fb = fb.args[0]
    seen = {}
    if isinstance(fb, ast.Subscript):
        for conds, val in fv.alternatives(fb.slice, vat):
            mode = None
            for r, pol in conds:
                if isinstance(r, ast.Compare) and len(r.ops) == 1 and isinstance(r.ops[0], ast.Eq) and pol and is_name(r.left, _pb()) and isinstance(r.comparators[0], ast.Constant):
                    mode = r.comparators[0].value
            if mode not in ("source", "destination"):
                continue
            want = 0 if mode == "source" else 1
            a0 = val.args[0] if isinstance(val, ast.Call) and val.args else None
            tgt_term = fv.res.resolve(ast.Name(id=names[want], ctx=ast.Load()), vat)
            ok = isinstance(val, ast.Call) and call_fname(val) == "argsort" and a0 is not None and key(a0) == key(tgt_term) and not [k for k in val.keywords if k.arg not in ("kind", "stable")]
            seen[mode] = ok
            ctx.rep.check(ok, rule, f"{f.qualname}/argsort[{mode}]", f"rows ordered by argsort of the {mode} wells",
                          f"under partition_by={mode!r} the row order is `{show(val)[:60]}`: not argsort of the {mode} wells of the group", where=w)
    for mode in ("source", "destination"):
        if mode not in seen:
            ctx.rep.inconclusive(rule, f"{f.qualname}/argsort[{mode}]", "row order per mode could not be determined")
    _mode_raises(ctx, "C18.mode", fv, f, body, "sorting")
    # every return hands out the sorted structure
    for n in fv.return_nodes():
        root = fv.alias_root(n.ast.value, n.id)
        ok = is_name(root, result_name) and lp.id in fv.cfg.completed_loops_at(n.id)
        ctx.rep.check(ok, rule, f"{f.qualname}/return[{stmt_key(n.ast)[:30]}]", "returns the grouped and row-sorted structure",
                      f"`{stmt_key(n.ast)[:70]}` returns something that did not pass the grouping and row-sorting loops (shortcut path)", where=f.where(n.ast))
    # the list that is iterated must be the groups in sorted key order (when a new list is filled)
    if how == "append":
        inits = [x for x in fv.cfg.nodes if x.kind == "stmt" and isinstance(x.ast, (ast.Assign, ast.AnnAssign)) and is_name(x.ast.targets[0] if isinstance(x.ast, ast.Assign) else x.ast.target, result_name)]
        ok = len(inits) == 1 and isinstance(inits[0].ast.value, ast.List) and not inits[0].ast.value.elts and fv.cfg.dominates(inits[0].id, lp.id) and not fv.cfg.enclosing_loops(inits[0].id)
        ctx.rep.check(ok, rule, f"{f.qualname}/result-init", "the result list starts empty before the loop", "the result list is not an empty list created once before the sorting loop", where=w)


class _Unknown(Exception):
    pass


def _eval(e: ast.AST, env: dict):
    """Evaluate an expression of the closed vocabulary of the decision function over the finite scenario domain."""
    if isinstance(e, ast.Constant):
        return e.value
    if isinstance(e, ast.Name):
        if e.id in env:
            return env[e.id]
        raise _Unknown(e.id)
    if isinstance(e, ast.Attribute) and isinstance(e.value, ast.Name) and e.attr == "is_trough" and f"{e.value.id}.is_trough" in env:
        return env[f"{e.value.id}.is_trough"]
    if isinstance(e, ast.Attribute):
        base = _eval(e.value, env)
        if isinstance(base, dict) and e.attr in base:
            return base[e.attr]
        raise _Unknown(ast.unparse(e)[:40])
    if isinstance(e, ast.Subscript) and not isinstance(e.slice, ast.Slice):
        base, idx = _eval(e.value, env), _eval(e.slice, env)
        try:
            return base[idx]
        except (IndexError, KeyError, TypeError):
            raise _Unknown(ast.unparse(e)[:40])
    if isinstance(e, (ast.Set, ast.Tuple, ast.List)):
        return [_eval(x, env) for x in e.elts]
    if isinstance(e, ast.UnaryOp) and isinstance(e.op, ast.Not):
        return not _eval(e.operand, env)
    if isinstance(e, ast.BoolOp):
        if isinstance(e.op, ast.And):
            for v in e.values:
                if not _eval(v, env):
                    return False
            return True
        for v in e.values:
            if _eval(v, env):
                return True
        return False
    if isinstance(e, ast.Compare) and len(e.ops) == 1:
        a, b, op = _eval(e.left, env), _eval(e.comparators[0], env), e.ops[0]
        if isinstance(op, ast.Eq):
            return a == b
        if isinstance(op, ast.NotEq):
            return a != b
        if isinstance(op, ast.In):
            return a in b
        if isinstance(op, ast.NotIn):
            return a not in b
        if isinstance(op, ast.Is):
            return a is b
        if isinstance(op, ast.IsNot):
            return a is not b
    if isinstance(e, ast.IfExp):
        return _eval(e.body, env) if _eval(e.test, env) else _eval(e.orelse, env)
    if isinstance(e, ast.Call) and isinstance(e.func, ast.Name) and e.func.id in ("frozenset", "set", "tuple", "list") and len(e.args) == 1 and not e.keywords:
        return list(_eval(e.args[0], env))
    if isinstance(e, ast.Call) and isinstance(e.func, ast.Attribute) and e.func.attr in ("lower", "upper", "strip", "casefold", "lstrip", "rstrip", "title", "capitalize") and not e.args and not e.keywords:
        base = _eval(e.func.value, env)
        if isinstance(base, str):
            return getattr(base, e.func.attr)()
    if isinstance(e, ast.Call) and isinstance(e.func, ast.Name) and e.func.id == "str" and len(e.args) == 1 and not e.keywords:
        return str(_eval(e.args[0], env))
    raise _Unknown(ast.unparse(e)[:40])


def _run_scenario(fv, env: dict):
    """Follow the CFG of a loop-free function under a scenario: ('return', value) | ('raise', class) | ('unknown', why)."""
    node = fv.cfg.entry
    env = dict(env)
    steps = 0
    while steps < 500:
        steps += 1
        n = fv.cfg.nodes[node]
        nxt = None
        if n.kind == "test":
            try:
                v = bool(_eval(n.ast, env))
            except _Unknown as u:
                return ("unknown", f"cannot evaluate `{ast.unparse(n.ast)[:50]}` ({u})")
            nxt = [s for s, lab in n.succ if lab == ("T" if v else "F")]
        elif n.kind == "stmt" and isinstance(n.ast, ast.Return):
            if n.ast.value is None:
                return ("return", None)
            try:
                return ("return", _eval(n.ast.value, env))
            except _Unknown as u:
                return ("unknown", f"cannot evaluate the returned `{ast.unparse(n.ast.value)[:40]}`")
        elif n.kind == "stmt" and isinstance(n.ast, ast.Raise):
            return ("raise", raise_class(fv, n.ast)[0])
        elif n.kind == "assert_fail":
            return ("raise", "AssertionError")
        elif n.kind == "exit":
            return ("return", None)
        elif n.kind == "for":
            return ("unknown", "loop in the decision function")
        else:
            if n.kind == "stmt" and isinstance(n.ast, ast.Assign) and len(n.ast.targets) == 1 and isinstance(n.ast.targets[0], ast.Name):
                try:
                    env[n.ast.targets[0].id] = _eval(n.ast.value, env)
                except _Unknown:
                    env.pop(n.ast.targets[0].id, None)  # e.g. a log message: irrelevant unless it is used later
            nxt = [s for s, lab in n.succ if lab != "exc"]
        if not nxt:
            return ("unknown", "dead end")
        node = nxt[0]
    return ("unknown", "too many steps")


def optimize(ctx) -> None:
    """Decision table of optimize_partition_by by evaluating its (loop-free) CFG over the finite scenario domain
    mode in {auto, source, destination, other names incl. differently cased / padded ones} x source trough? x destination trough?."""
    rule = "C18.mode"
    f = ctx.prog.require_func("optimize_partition_by", rule)
    fv = ctx.fv(f)
    w = f.where()
    table = {}
    explicit_bad = []
    bogus_bad = []
    for mode in ("auto", "source", "destination", "some other name", "", "Auto", "SOURCE", " destination"):
        for st in (False, True):
            for dt in (False, True):
                env = {"partition_by": mode, "source.is_trough": st, "destination.is_trough": dt, "label": None,
                       "source": {"is_trough": st, "name": "src"}, "destination": {"is_trough": dt, "name": "dst"}}
                # module-level constants (e.g. the set of mode names) are part of the closed vocabulary
                for cname, cval in f.module.assigns.items():
                    try:
                        env.setdefault(cname, _eval(cval, {}))
                    except (_Unknown, TypeError):
                        pass
                kind, val = _run_scenario(fv, env)
                if kind == "unknown":
                    ctx.rep.inconclusive(rule, f"{f.qualname}/decision", f"decision function is outside the evaluable fragment: {val}", where=w)
                    return
                if mode == "auto":
                    table[(st, dt)] = val if kind == "return" else f"raise {val}"
                elif mode in ("source", "destination"):
                    if not (kind == "return" and val == mode):
                        explicit_bad.append((mode, st, dt, kind, val))
                else:
                    if not (kind == "raise" and val == "ValueError"):
                        bogus_bad.append((mode, st, dt, kind, val))
    want = {(True, False): "destination", (False, False): "source", (False, True): "source", (True, True): "source"}
    ctx.rep.check(table == want, rule, f"{f.qualname}/auto-table", "auto = destination exactly when the source is a trough and the destination is not (4 scenarios)",
                  f"decision table of the automatic choice over (source trough, destination trough) is {dict(sorted(table.items()))}; the property requires {dict(sorted(want.items()))}", where=w)
    ctx.rep.check(not explicit_bad, rule, f"{f.qualname}/explicit-respected", "an explicit choice is returned unchanged in all 8 scenarios",
                  f"explicit choice not respected: partition_by={explicit_bad[0][0]!r}, source trough={explicit_bad[0][1]}, destination trough={explicit_bad[0][2]} gives {explicit_bad[0][3]} {explicit_bad[0][4]!r}" if explicit_bad else "", where=w)
    ctx.rep.check(not bogus_bad, rule, f"{f.qualname}/membership", "any other mode name raises ValueError in all scenarios",
                  f"partition_by={bogus_bad[0][0]!r} is not rejected with ValueError (result: {bogus_bad[0][3]} {bogus_bad[0][4]!r})" if bogus_bad else "", where=w)


def wiring(ctx, dev) -> None:
    """The mode the caller of transfer() asked for is the mode that is used: transfer hands its own `partition_by` (and its
    own two labwares, in this order) to optimize_partition_by, and what comes back is the mode partition_by_column gets."""
    rule = "C18.wiring"
    f = ctx.prog.find_method(dev, "transfer")
    if f is None:
        ctx.rep.inconclusive(rule, f"{dev.name}.transfer", "not found")
        return
    fv = ctx.fv(f, dev)
    cb = f"{dev.name}.transfer"
    opts = fv.calls_func("optimize_partition_by")
    parts = fv.calls_func("partition_by_column")
    if len(opts) != 1 or len(parts) != 1:
        ctx.rep.check(None if (opts or parts) else False, rule, cb + "/calls", "", f"expected one call of optimize_partition_by and one of partition_by_column, found {len(opts)} / {len(parts)}", where=f.where())
        return
    b = fv.bind_args(opts[0]) or {}
    w = f.where(opts[0].call)
    for pname, want in (("source", "source"), ("destination", "destination"), ("partition_by", "partition_by")):
        v = b.get(pname)
        t = fv.res.resolve(v, opts[0].node) if v is not None else None
        ctx.rep.check(t is not None and is_name(t, want), rule, f"{cb}/optimize[{pname}]", f"optimize_partition_by gets transfer's own `{want}`",
                      f"optimize_partition_by receives `{show(t) if t is not None else 'its default'}` as `{pname}` instead of transfer's `{want}` argument"
                      + (": an explicitly chosen mode is ignored (and an invalid one is not rejected)" if pname == "partition_by" else ""), where=w)
    d = f.param_default("partition_by") if "partition_by" in f.params else None
    ctx.rep.check(isinstance(d, ast.Constant) and d.value == "auto", rule, cb + "/default", "without an explicit choice the mode is 'auto'",
                  f"transfer's default for `partition_by` is `{show(d) if d is not None else 'missing'}`: a call that leaves the choice to the library does not get the automatic one", where=f.where())
    pb = (fv.bind_args(parts[0]) or {}).get("partition_by")
    t = fv.res.resolve(pb, parts[0].node) if pb is not None else None
    ok = t is not None and isinstance(t, ast.Call) and call_fname(t) == "optimize_partition_by"
    ctx.rep.check(ok, rule, cb + "/mode-used", "partition_by_column uses the mode that optimize_partition_by returned",
                  f"partition_by_column is called with the mode `{show(t)[:50] if t is not None else None}`, not with the result of optimize_partition_by", where=f.where(parts[0].call))


def _one_shot(ctx) -> None:
    """the triples are not lost on the way: a zip / generator bound to a local is walked once (a second walk is empty)"""
    from .common import one_shot_iterator_rule

    rule = "C18.one-permutation"
    n = one_shot_iterator_rule(ctx, rule, ("partition_by_column", "optimize_partition_by"))
    if n == 0:
        ctx.rep.holds(rule, "partition_by_column/no-one-shot-local", "no zip / map / generator object is kept in a local of the partitioning functions (expected count zero)")
