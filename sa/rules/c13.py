"""C13 - EVO script commands agree with the volume tracking and with their arguments."""
from __future__ import annotations

import ast
import re
from typing import Dict, List, Optional, Tuple

from ..canon import Cmp, Poly, to_cmp, to_poly
from ..defuse import is_sym, key, show, strip_norm
from ..engine import Hole, own_walk, return_exprs, template_parts
from ..model import AnalysisInconclusive
from ..siblings import canonical_body, dump, first_difference, show_stmt
from .c20 import Atom, dnf
from .common import attr_of_name, call_fname, elem_parts, is_name, raise_class, same_seq, stmt_key

EXPLANATION = (
    "C13: EvoWorklist.evo_aspirate/evo_dispense track before they emit and hand the same wells/volumes/tips, the tracked "
    "labware's dimensions and the worklist's max_volume to the formatter; the validator rejects tips or wells that are "
    "not strictly ascending (only then slot order = tip order = well order = tracking order), unequal lengths, and every "
    "out-of-range parameter, each range guard agreeing with its own error message, its docstring and the property "
    "(grid 1-67, site 1-128 emitted as site-1, arm 0/1, volume 0..7158278, not NaN, <= max_volume); the command skeleton "
    "and the origin of every hole match the slot table; the mask is folded over all tips unconditionally; the selection "
    "must be single-column; aspirate/dispense siblings agree. Decoded per-well volumes are not computed."
)
ASSUMPTIONS = ["EVOware serves the selected wells in ascending row order with the selected tips in ascending order"]

ASP_SKELETON = 'B;%s(\x00,"\x00",\x000,0,0,0,\x00,\x00,1,"\x00",0,\x00);'
WASH_SKELETON = 'B;Wash(\x00,\x00,\x00,\x00,\x00,"\x00",\x00,"\x00",\x00,\x00,\x00,\x00,\x00,\x00,1000,\x00);'
WASH_ORDER = ["tips", "waste_location", "cleaner_location", "arm", "waste_vol", "waste_delay", "cleaner_vol", "cleaner_delay", "airgap", "airgap_speed", "retract_speed", "fastwash", "low_volume"]
RANGES = {  # property / Tecan limits
    "grid": (1, 67), "site": (1, 128), "waste_vol": (0, 100), "waste_delay": (0, 1000), "cleaner_vol": (0, 100), "cleaner_delay": (0, 1000),
    "airgap": (0, 100), "airgap_speed": (1, 1000), "retract_speed": (1, 100),
}


def run(ctx) -> None:
    from . import c03, c10

    ctx.reuse("C13.order", c03.check_before_emit)
    ctx.reuse("C13.step-guard", c03.step_guard_evo)
    ctx.reuse("C13.step-guard", c03.step_guard_wiring)
    for name, track in (("evo_aspirate", "remove"), ("evo_dispense", "add")):
        ctx.guard("C13.same-args", same_args, name, track)
    ctx.guard("C13.one-to-one", one_to_one)
    ctx.guard("C13.validation-table", validation_table, "prepare_evo_aspirate_dispense_parameters")
    ctx.guard("C13.validation-table", validation_table, "prepare_evo_wash_parameters")
    for name in ("evo_aspirate", "evo_dispense"):
        ctx.guard("C13.template", asp_template, name)
    ctx.guard("C13.template", wash_template)
    ctx.guard("C13.template", wash_passthrough)
    ctx.reuse("C13.mask", c10.aggregate_evo)
    ctx.reuse("C13.mask", c10.slots)
    ctx.reuse("C13.mask", c10.evo_member_conversion)
    ctx.reuse("C13.mask", c10.any_rules)
    ctx.reuse("C13.mask", c10.int_map)
    ctx.reuse("C13.mask", c10.wash_table)
    # the command string that the formatters return is the record that ends up in the worklist (no list method re-interprets it)
    from . import c09

    ctx.reuse("C13.template", c09.list_overrides)
    # the limit the commands are checked against is the worklist's own (every worklist class, the deprecated alias included),
    # and the file carries every character of the selection string as one byte
    from . import c16, c17

    ctx.reuse("C13.step-guard", c16.override_set)
    ctx.reuse("C13.template", c17.open_config)
    ctx.guard("C13.siblings", siblings)
    from . import objmodel

    ctx.guard("C13.step-guard", objmodel.worklist_model, "C13.step-guard")
    ctx.guard("C13.selection-array", selection_array)
    from .common import memo_rule

    ctx.guard("C13.no-cache", memo_rule, "C13.no-cache", ("evotools/commands.py", "evotools/worklist.py"))


def same_args(ctx, name: str, track: str) -> None:
    rule = "C13.same-args"
    f = ctx.prog.require_func(f"EvoWorklist.{name}", rule)
    fv = ctx.fv(f, f.cls)
    T = fv.calls_func(f"Labware.{track}")
    F = [cs for cs in fv.calls() if cs.callee.kind == "func" and cs.callee.func.module.name.endswith("evotools.commands") and cs.callee.func.name == name]
    if len(T) != 1 or len(F) != 1:
        ctx.rep.check(None if (not T or not F) else False, rule, f"{f.qualname}", "", f"expected one Labware.{track} and one commands.{name} call, found {len(T)}/{len(F)}", where=f.where())
        return
    T, F = T[0], F[0]
    tb, fb = fv.bind_args(T) or {}, fv.bind_args(F) or {}
    w = f.where(F.call)
    if any(k in b_ for b_ in (tb, fb) for k in ("*", "**")):
        ctx.rep.inconclusive(rule, f"{f.qualname}", "arguments are passed with * / ** whose contents cannot be enumerated", where=w)
        return
    recv = T.call.func.value.id if isinstance(T.call.func, ast.Attribute) and isinstance(T.call.func.value, ast.Name) else None
    ctx.rep.check(recv == "labware", rule, f"{f.qualname}/tracked-labware", "the tracking is booked on `labware`", f"the tracking is booked on `{recv}`", where=f.where(T.call))
    pairs = (("wells", "wells", "wells"), ("volumes", "volume", "volumes"))
    for tk, fk, param in pairs:
        tt = fv.res.resolve(tb[tk], T.node) if tk in tb else None
        ft = fv.res.resolve(fb[fk], F.node) if fk in fb else None
        ok = tt is not None and ft is not None and is_name(strip_norm(tt), param) and is_name(ft, param)
        ctx.rep.check(ok, rule, f"{f.qualname}/{param}", f"tracking and command receive the same `{param}` argument",
                      f"the tracking uses `{show(tt)[:50] if tt is not None else None}` but the command is built from `{show(ft)[:50] if ft is not None else None}`: command and volume tracking describe different {param}", where=w)
    if track == "add":
        ct = tb.get("compositions")
        ctx.rep.check(ct is not None and is_name(fv.res.resolve(ct, T.node), "compositions"), rule, f"{f.qualname}/compositions", "the given compositions are handed to the tracking",
                      f"the tracking receives compositions=`{show(ct)[:40] if ct is not None else 'nothing'}`: the composition of the dispensed liquid is lost", where=f.where(T.call))
    for k, attr in (("n_rows", "n_rows"), ("n_columns", "n_columns")):
        t = fv.res.resolve(fb[k], F.node) if k in fb else None
        ctx.rep.check(t is not None and attr_of_name(t, "labware", attr), rule, f"{f.qualname}/{k}", f"{k} = labware.{attr}", f"the well bitmap is built for `{show(t) if t is not None else None}` {k}, not for the tracked labware", where=w)
    for k in ("labware_position", "liquid_class", "tips", "arm"):
        t = fb.get(k)
        t = fv.res.resolve(t, F.node) if t is not None else None
        ctx.rep.check(t is not None and is_name(t, k), rule, f"{f.qualname}/{k}", f"`{k}` is passed through unchanged", f"`{k}` reaches the command as `{show(t) if t is not None else 'default'}`", where=w)
    # the appended record is exactly that command
    apps = [cs for cs in fv.calls() if isinstance(cs.call.func, ast.Attribute) and cs.call.func.attr == "append" and is_name(cs.call.func.value, f.params[0])]
    ok = len(apps) == 1 and key(fv.res.resolve(apps[0].call.args[0], apps[0].node)) == key(fv.res.resolve(F.call, F.node))
    ctx.rep.check(ok, rule, f"{f.qualname}/append", "the formatted command is appended once, unmodified", "the appended record is not exactly the formatted command", where=f.where())


def _order_evaluated(ctx, v, what: str) -> bool:
    """The ascending-order rejection of the EVO validator decided by interpretation (rules/init_model.py; nothing of the
    repository is executed): descending and repeated selections must end in a ValueError raised by the validator's own
    statements, ascending ones must be returned."""
    from . import init_model as IM
    from .c10 import _tip_table

    try:
        members = _tip_table(ctx, "C13.one-to-one")
    except AnalysisInconclusive:
        return False
    enums = {"Tip": dict(members)}

    def T(name):
        return IM.EnumVal(members[name], "Tip", name)

    good = [(["A01", "B01"], [1, 2]), (["A01", "C01", "H01"], [2, 5, 8]), (["B02"], [3])]
    if what == "tips":
        bad = [(["A01", "B01"], [2, 1]), (["A01", "B01"], [1, 1]), (["A01", "B01", "C01"], [1, 3, 2]), (["A01", "B01"], [T("T3"), 3]), (["A01", "B01"], [3, T("T3")]),
               (["A01", "B01"], [1, T("T1")]), (["A01", "B01"], [T("T2"), T("T2")]), (["A01", "B01", "C01"], [1, 2, 2]), (["A01", "B01"], [5, T("T3")])]
        good += [(["A01", "B01"], [3, T("T4")]), (["A01", "B01"], [T("T1"), 8])]
    else:
        bad = [(["B01", "A01"], [1, 2]), (["A01", "A01"], [1, 2]), (["A01", "C01", "B01"], [1, 2, 3])]
    for cases, want in ((good, "return"), (bad, "raise")):
        for wells, tips in cases:
            params = dict(wells=wells, labware_position=(30, 2), volume=10.0, liquid_class="Water", tips=tips, arm=0, max_volume=950)
            if not set(params) <= set(v.params):
                return False
            kind, val = IM.run_function(v, params, ctx.prog, enums)
            if kind != want or (want == "raise" and val != "ValueError"):
                return False
    return True


def selection_array(ctx) -> None:
    """evo_make_selection_array marks exactly the named wells of a rows x columns grid and fails on a well that is not in
    the grid (a KeyError of the index lookup): grid and index map are built for (rows, columns) in that order, every named
    well is looked up by subscript (no membership filter that silently drops unknown IDs)."""
    rule = "C13.selection-array"
    f = ctx.prog.require_func("evo_make_selection_array", rule)
    fv = ctx.fv(f)
    if len(f.params) < 3:
        ctx.rep.inconclusive(rule, f.qualname, "expected the parameters (rows, columns, wells)", where=f.where())
        return
    R, C, W = f.params[0], f.params[1], f.params[2]
    w = f.where()
    grids = [x for x in own_walk(f.node) if isinstance(x, ast.Call) and call_fname(x) in ("zeros", "full", "empty", "zeros_like") and x.args]
    shapes = []
    for x in grids:
        try:
            sh = fv.res.resolve(x.args[0], fv.node_of(x))  # the shape may be bound to a local first
        except Exception:
            sh = x.args[0]
        shapes.append(sh)
    ok_grid = len(grids) == 1 and isinstance(shapes[0], ast.Tuple) and [getattr(strip_norm(e), "id", None) for e in shapes[0].elts] == [R, C]
    ctx.rep.check(ok_grid, rule, f"{f.qualname}/grid", "the selection grid has shape (rows, columns)",
                  f"the selection grid is `{show(grids[0])[:50] if grids else 'not found'}`; expected zeros((rows, columns))", where=w)
    maps = [x for x in own_walk(f.node) if isinstance(x, ast.Call) and call_fname(x) in ("make_well_index_dict", "make_well_array")]
    ok_map = bool(maps) and all([getattr(a, "id", None) for a in m.args[:2]] == [R, C] and not m.keywords for m in maps)
    ctx.rep.check(ok_map, rule, f"{f.qualname}/index-map", "the well index map is built for (rows, columns)",
                  f"the well index map is `{show(maps[0])[:60] if maps else 'not found'}`: rows and columns are not passed in that order, so wells of a non-square labware are looked up in the wrong grid", where=w)
    # every named well is looked up by subscript
    stores = [n for n in fv.cfg.nodes if n.kind == "stmt" and isinstance(n.ast, ast.Assign) and isinstance(n.ast.targets[0], ast.Subscript)]
    strict = False
    for n in stores:
        idx = fv.res.resolve(n.ast.targets[0].slice, n.id)
        loops = [h for h in fv.cfg.enclosing_loops(n.id) if fv.cfg.nodes[h].kind == "for"]
        if isinstance(idx, ast.Tuple) and len(idx.elts) == 2 and all(is_sym(e_, "unpack") and isinstance(e_.args[1], ast.Constant) for e_ in idx.elts) \
                and key(idx.elts[0].args[0]) == key(idx.elts[1].args[0]):
            # row_index, column_index = index_map[well]; grid[row_index, column_index] = 1
            order = [e_.args[1].value for e_ in idx.elts]
            if order == [0, 1]:
                idx = idx.elts[0].args[0]
            elif order == [1, 0]:
                ctx.rep.refuted(rule, f"{f.qualname}/lookup", "the (row, column) pair of the index map is used as (column, row) when the grid is marked: the selection is transposed", where=f.where(n.ast))
                return
        if isinstance(idx, ast.Subscript) and call_fname(idx.value) == "make_well_index_dict" and loops:
            ep = elem_parts(idx.slice)
            it_ok = ep is not None and ep[0] == f"loop@{loops[-1]}" and is_name(strip_norm(ep[1]), W)
            uncond = not fv.controlling(n.id, within=fv.cfg.loop_body[loops[-1]])
            val_ok = isinstance(n.ast.value, ast.Constant) and n.ast.value.value == 1
            strict = strict or (it_ok and uncond and val_ok)
    lenient = [x for x in own_walk(f.node) if (isinstance(x, ast.Call) and call_fname(x) in ("isin", "in1d", "intersect1d", "get")) or (isinstance(x, ast.Compare) and any(isinstance(o, (ast.In, ast.NotIn)) for o in x.ops))]
    if strict and not lenient:
        ctx.rep.holds(rule, f"{f.qualname}/lookup", "every named well is looked up in the index map (unknown IDs raise KeyError)", where=w)
    elif lenient:
        ctx.rep.refuted(rule, f"{f.qualname}/lookup", f"the selection is built with a membership test (`{show(lenient[0])[:50]}`): well IDs that are not in the grid are silently dropped instead of being "
                        "rejected, so the command can select fewer wells than tips/volumes were given", where=f.where(lenient[0]))
    else:
        ctx.rep.inconclusive(rule, f"{f.qualname}/lookup", "cannot see how the named wells are marked in the grid", where=w)


def _strict_guard(fv, var_names) -> Tuple[bool, str]:
    """(strictly-ascending guard present, weak form found)"""
    weak = ""
    for n, test, pol, r in fv.raising_guards():
        if not pol or raise_class(fv, r)[0] != "ValueError":
            continue
        t = test
        if isinstance(t, ast.Call) and call_fname(t) == "any" and t.args and isinstance(t.args[0], (ast.GeneratorExp, ast.ListComp)):
            comp = t.args[0]
            it = comp.generators[0].iter
            elt = comp.elt
            if isinstance(elt, ast.Compare) and len(elt.ops) == 1 and isinstance(it, ast.Call) and call_fname(it) == "zip" and len(it.args) == 2:
                a, b = it.args
                ba = a.value if isinstance(a, ast.Subscript) else None
                bb = b.value if isinstance(b, ast.Subscript) else None
                if ba is not None and bb is not None and key(ba) == key(bb) and isinstance(ba, ast.Name) and ba.id in var_names:
                    tgt = comp.generators[0].target
                    def minus_one_or_open(u):
                        return u is None or (isinstance(u, ast.UnaryOp) and isinstance(u.op, ast.USub) and isinstance(u.operand, ast.Constant) and u.operand.value == 1)

                    sl_ok = isinstance(a.slice, ast.Slice) and a.slice.lower is None and minus_one_or_open(a.slice.upper) and a.slice.step is None \
                        and isinstance(b.slice, ast.Slice) and isinstance(b.slice.lower, ast.Constant) and b.slice.lower.value == 1 and b.slice.upper is None and b.slice.step is None
                    order_ok = isinstance(tgt, ast.Tuple) and is_name(elt.left, tgt.elts[0].id) and is_name(elt.comparators[0], tgt.elts[1].id)
                    if sl_ok and order_ok and isinstance(elt.ops[0], ast.GtE):
                        return True, ""
                    if sl_ok and order_ok and isinstance(elt.ops[0], ast.Gt):
                        weak = f"`{show(t)[:70]}` accepts equal neighbours (repeats)"
        if isinstance(t, ast.Compare) and len(t.ops) == 1 and isinstance(t.ops[0], ast.NotEq):
            l, rr = t.left, t.comparators[0]
            for x, y in ((l, rr), (rr, l)):
                bx = x.args[0] if isinstance(x, ast.Call) and call_fname(x) in ("list", "tuple") and x.args else x
                if isinstance(bx, ast.Name) and bx.id in var_names and isinstance(y, ast.Call) and call_fname(y) == "sorted" and y.args:
                    inner = y.args[0]
                    if isinstance(inner, ast.Call) and call_fname(inner) == "set":
                        return True, ""
                    weak = f"`{show(t)[:70]}` only rejects mis-ordered lists: repeated elements are accepted"
    return False, weak


def one_to_one(ctx) -> None:
    rule = "C13.one-to-one"
    v = ctx.prog.require_func("prepare_evo_aspirate_dispense_parameters", rule)
    fv = ctx.fv(v)
    w = v.where()
    # which locals hold the converted tips / flattened wells ?
    rets = [fv.def_expr(n.ast.value, n.id)[0] for n in fv.return_nodes()]
    rets = [r for r in rets if isinstance(r, ast.Tuple)]
    if len(rets) != 1 or len(rets[0].elts) != 5:
        ctx.rep.inconclusive(rule, v.qualname, "validator does not return the 5-tuple (wells, position, volumes, liquid class, tips)")
        return
    wells_var = getattr(fv.alias_root(rets[0].elts[0], fv.return_nodes()[0].id), "id", None)
    tips_var = getattr(fv.alias_root(rets[0].elts[4], fv.return_nodes()[0].id), "id", None)
    # the volumes handed to the command are the given ones rounded to two decimals (the resolution of the command)
    vraw, vat = fv.def_expr(rets[0].elts[2], fv.return_nodes()[0].id)
    core = vraw
    while isinstance(core, ast.Call) and call_fname(core) in ("tolist", "list") and (core.args or isinstance(core.func, ast.Attribute)):
        core = core.args[0] if core.args else core.func.value
    dec = None
    if isinstance(core, ast.Call) and call_fname(core) in ("round", "around", "round_"):
        d_ = core.args[1] if len(core.args) > 1 else next((k.value for k in core.keywords if k.arg == "decimals"), ast.Constant(value=0))
        dec = d_.value if isinstance(d_, ast.Constant) else "?"
    elif is_sym(fv.res.resolve(vraw, vat), "comp") or isinstance(vraw, ast.ListComp):
        for x in ast.walk(vraw):
            if isinstance(x, ast.Call) and call_fname(x) == "round":
                d_ = x.args[1] if len(x.args) > 1 else next((k.value for k in x.keywords if k.arg in ("decimals", "ndigits")), ast.Constant(value=0))
                dec = d_.value if isinstance(d_, ast.Constant) else "?"
    ctx.rep.check(True if dec == 2 else (None if dec is None else False), rule, f"{v.qualname}/volume-rounding", "the command volumes are the given volumes rounded to two decimals",
                  f"the command volumes are `{show(vraw)[:60]}`" + (f" (rounded to {dec} decimals): the command moves a different amount than the tracking booked" if dec is not None else ": cannot find the rounding"), where=w)
    rets_nodes = fv.return_nodes()
    # the order that counts is that of the *returned* (converted / flattened) sequences: a check on the raw arguments
    # compares numbers 1-8 with Tip mask values, resp. an unflattened selection
    rn0 = fv.return_nodes()[0].id
    for what, names in (("tips", set(fv.alias_chain(rets[0].elts[4], rn0)) or {tips_var}), ("wells", set(fv.alias_chain(rets[0].elts[0], rn0)) or {wells_var})):
        if None in names:
            ctx.rep.inconclusive(rule, f"{v.qualname}/ascending-{what}", f"the returned {what} are not a local list", where=w)
            continue
        ok, weak = _strict_guard(fv, names)
        if not ok and not weak:
            raw_ok, _ = _strict_guard(fv, {what})
            if raw_ok:
                weak = f"the ascending-order check is applied to the raw `{what}` argument, not to the converted `{next(iter(names))}` that is returned and encoded"
        if not ok and not weak and _order_evaluated(ctx, v, what):
            ctx.rep.holds(rule, f"{v.qualname}/ascending-{what}[evaluated]", f"{what} that are descending or repeated are refused with ValueError, ascending ones accepted (evaluation table, "
                          "the guard is written in a form the structural test does not know)", where=w)
            continue
        ctx.rep.check(ok, rule, f"{v.qualname}/ascending-{what}", f"{what} that are not strictly ascending raise ValueError",
                      (weak or f"no guard rejects {what} that are not in strictly ascending order") + f": the i-th volume slot (tip order), the i-th selected well (row order) and the tracking pair ({what}[i], volumes[i]) can disagree", where=w)
    # wells flattened column-major; lengths agree
    wl = None
    for n in fv.cfg.nodes:
        if n.kind == "stmt" and isinstance(n.ast, ast.Assign) and is_name(n.ast.targets[0], wells_var):
            wl = fv.res.resolve(n.ast.value, n.id)
    from ..defuse import flatten_order, norm_chains

    orders = [flatten_order(nm, c) for ch in (norm_chains(wl) if wl is not None else []) for nm, c in ch if nm in ("flatten", "ravel")]
    ctx.rep.check(bool(orders) and all(o == "F" for o in orders) and wl is not None and is_name(strip_norm(wl), "wells"), rule, f"{v.qualname}/wells-normalised", "wells are flattened column-major like in the tracking",
                  f"the validator normalises the wells as `{show(wl)[:60] if wl is not None else None}` (orders {orders}); the tracking flattens column-major", where=w)
    # length agreement: raising terms `len(X) != len(Y)` connect the sequences (guards inside new helpers included)
    from ..guards import raising_terms

    def seq_name(t):
        base = strip_norm(t)
        if isinstance(base, ast.Name):
            return base.id
        return None

    edges = []
    for term, n, cls in raising_terms(fv, rets_nodes[0].id if rets_nodes else None):
        core = [a for a in term if a.kind != "isinstance"]  # `if isinstance(volume, list):` may enclose the guard
        if len(core) != 1:
            continue
        e, pol = core[0].expr, core[0].pol
        if isinstance(e, ast.Compare) and len(e.ops) == 1 and call_fname(e.left) == "len" and call_fname(e.comparators[0]) == "len" and e.left.args and e.comparators[0].args:
            neq = (isinstance(e.ops[0], ast.NotEq) and pol) or (isinstance(e.ops[0], ast.Eq) and not pol)
            if neq:
                a_, b_ = seq_name(e.left.args[0]), seq_name(e.comparators[0].args[0])
                under_list = any(call_fname(x.expr) == "isinstance" for x in term)  # (single-atom terms: no)
                edges.append((a_, b_, n))

    def connected(x, y, allowed_edges):
        seen, todo = {x}, [x]
        while todo:
            cur = todo.pop()
            for a_, b_, _ in allowed_edges:
                for u, w_ in ((a_, b_), (b_, a_)):
                    if u == cur and w_ not in seen:
                        seen.add(w_)
                        todo.append(w_)
        return y in seen

    len_ok = connected("wells", "tips", [e for e in edges if "volume" not in (e[0], e[1])])
    vol_len_ok = connected("volume", "tips", edges) and connected("volume", "wells", edges)
    ctx.rep.check(len_ok, rule, f"{v.qualname}/len-wells-tips", "len(wells) == len(tips) is enforced", "the numbers of wells and tips are not required to be equal", where=w)
    ctx.rep.check(vol_len_ok, rule, f"{v.qualname}/len-volumes", "per-tip volume lists must have one entry per tip and well", "a per-tip volume list of a different length is accepted", where=w)


# ------------------------------------------------------------------------- validation table
def _role(fv, name_node: ast.Name, at: int) -> str:
    """Canonical role of a compared local: a parameter keeps its name; `a, b = <x>_position/location` gives grid / site."""
    t = fv.res.resolve(name_node, at)
    if isinstance(t, ast.Name):
        return t.id
    if is_sym(t, "unpack") and isinstance(t.args[0], ast.Name) and ("position" in t.args[0].id or "location" in t.args[0].id) and isinstance(t.args[1], ast.Constant):
        return ("grid", "site")[t.args[1].value] if t.args[1].value in (0, 1) else name_node.id
    return name_node.id


def _interval_guards(fv):
    """[(var, lo, hi, message, raise class, guard node)] for guards of the shape `not lo <= x <= hi` (inside an Or)."""
    out = []
    for n, test, pol, r in fv.raising_guards():
        if not pol:
            continue
        msg = ""
        if isinstance(r, ast.Raise) and isinstance(r.exc, ast.Call) and r.exc.args:
            a = r.exc.args[0]
            msg = a.value if isinstance(a, ast.Constant) and isinstance(a.value, str) else "".join(p for p in (template_parts(a) or []) if isinstance(p, str))
        parts = test.values if isinstance(test, ast.BoolOp) and isinstance(test.op, ast.Or) else [test]
        for p in parts:
            core = p
            neg = False
            while isinstance(core, ast.UnaryOp) and isinstance(core.op, ast.Not):
                core, neg = core.operand, not neg
            if neg and isinstance(core, ast.Compare) and len(core.ops) == 2 and isinstance(core.left, ast.Constant) and isinstance(core.comparators[1], ast.Constant) and isinstance(core.comparators[0], ast.Name):
                lo, hi = core.left.value, core.comparators[1].value
                lo_strict = isinstance(core.ops[0], ast.Lt)
                hi_strict = isinstance(core.ops[1], ast.Lt)
                if not all(isinstance(o, (ast.Lt, ast.LtE)) for o in core.ops):
                    continue
                out.append((_role(fv, core.comparators[0], n.id), lo + (1 if lo_strict else 0), hi - (1 if hi_strict else 0), msg, raise_class(fv, r)[0], n, core.comparators[0].id))
    return out


def _doc_ranges(f) -> Dict[str, Tuple[int, int]]:
    doc = ast.get_docstring(f.node) or ""
    out: Dict[str, Tuple[int, int]] = {}
    # numpydoc parameter blocks: "name : type\n    description ... (lo-hi)"
    params_part = doc.split("Returns")[0]
    cur = None
    for line in params_part.splitlines():
        m = re.match(r"^\s{0,4}(\w+)\s*:", line)
        if m and not line.startswith("        "):
            cur = m.group(1)
            continue
        if cur:
            for lo, hi in re.findall(r"\((\d+)\s*-\s*(\d+)\)", line):
                out.setdefault(cur, (int(lo), int(hi)))
    return out


def _subject_role(t: ast.AST) -> Optional[Tuple[str, str]]:
    """(owner, role) of a compared term: a parameter -> ('', name); element 0/1 of a <x>_position / <x>_location
    parameter -> (parameter, 'grid' | 'site')."""
    if isinstance(t, ast.Name):
        return ("", t.id)
    if is_sym(t, "unpack") and isinstance(t.args[0], ast.Name) and isinstance(t.args[1], ast.Constant) and t.args[1].value in (0, 1):
        return (t.args[0].id, ("grid", "site")[t.args[1].value])
    if isinstance(t, ast.Subscript) and isinstance(t.value, ast.Name) and isinstance(t.slice, ast.Constant) and t.slice.value in (0, 1):
        return (t.value.id, ("grid", "site")[t.slice.value])
    return None


def _bounds(fv, before):
    """{(owner, role): {'lo': (n, cls, node), 'hi': ..., 'typed': bool}} from the raising terms that cover `before`
    (guards inside new helper functions included).  `x < lo` / `x > hi` raising gives the accepted interval lo..hi."""
    from ..guards import raising_terms

    out: Dict[Tuple[str, str], Dict[str, object]] = {}
    for term, n, cls in raising_terms(fv, before):
        if len(term) != 1:
            continue
        a = term[0]
        e = a.expr
        if a.kind == "isinstance" and not a.pol:
            rl = _subject_role(e.args[0])
            if rl is not None:
                out.setdefault(rl, {})["typed"] = True
                out[rl].setdefault("type_cls", cls)
            continue
        if not (isinstance(e, ast.Compare) and len(e.ops) == 1 and isinstance(e.ops[0], (ast.Lt, ast.LtE, ast.Gt, ast.GtE))):
            continue
        l, r, op = e.left, e.comparators[0], e.ops[0]
        if isinstance(r, ast.Constant) and not isinstance(l, ast.Constant):
            subj, c, flipped = l, r.value, False
        elif isinstance(l, ast.Constant) and not isinstance(r, ast.Constant):
            subj, c, flipped = r, l.value, True
        else:
            continue
        rl = _subject_role(subj)
        if rl is None or not isinstance(c, (int, float)) or isinstance(c, bool):
            continue
        # normalise to  subj OP c  being the raising condition
        opname = type(op).__name__
        if flipped:
            opname = {"Lt": "Gt", "LtE": "GtE", "Gt": "Lt", "GtE": "LtE"}[opname]
        if not a.pol:
            opname = {"Lt": "GtE", "LtE": "Gt", "Gt": "LtE", "GtE": "Lt"}[opname]
        # raising when subj < c  => accepted lower bound c ; subj <= c => c+1 ; subj > c => upper c ; subj >= c => c-1
        d = out.setdefault(rl, {})
        if opname == "Lt":
            d["lo"] = (c, cls, n)
        elif opname == "LtE":
            d["lo"] = (c + 1, cls, n)
        elif opname == "Gt":
            d["hi"] = (c, cls, n)
        elif opname == "GtE":
            d["hi"] = (c - 1, cls, n)
    return out


def validation_table(ctx, vname: str) -> None:
    rule = "C13.validation-table"
    v = ctx.prog.require_func(vname, rule)
    fv = ctx.fv(v)
    rets = fv.return_nodes()
    if not rets:
        raise AnalysisInconclusive(rule, v.qualname, "no return")
    bounds = _bounds(fv, rets[0].id)
    doc = _doc_ranges(v)
    if "aspirate" in vname:
        want = [(("labware_position", "grid"), "grid"), (("labware_position", "site"), "site")]
    else:
        want = [(("waste_location", "grid"), "grid"), (("waste_location", "site"), "site"), (("cleaner_location", "grid"), "grid"), (("cleaner_location", "site"), "site")] + \
            [(("", p), p) for p in ("waste_vol", "waste_delay", "cleaner_vol", "cleaner_delay", "airgap", "airgap_speed", "retract_speed")]
    for rl, var in want:
        c = f"{v.qualname}/{rl[0] + '.' if rl[0] else ''}{var}"
        d = bounds.get(rl, {})
        w = v.where()
        lo, hi = d.get("lo"), d.get("hi")
        if lo is None or hi is None:
            ctx.rep.refuted(rule, c + "/bounds", f"`{var}`{' of ' + rl[0] if rl[0] else ''} has no {'lower' if lo is None else 'upper'} range check on the way to the return: an out-of-range {var} is accepted", where=w)
            continue
        wl, wh = RANGES[var]
        ctx.rep.check((lo[0], hi[0]) == (wl, wh) and lo[1] == "ValueError" and hi[1] == "ValueError", rule, c + "/bounds", f"{var} must be in {wl}..{wh}",
                      f"`{var}`{' of ' + rl[0] if rl[0] else ''} is accepted in {lo[0]}..{hi[0]} (raising {lo[1]}); the property / EVOware limit is {wl}..{wh}", where=w)
        # the guard's own message and the docstring must agree with the bounds (where they state numbers)
        for gnode in {id(lo[2]): lo[2], id(hi[2]): hi[2]}.values():
            msg = ""
            tn = gnode
            if getattr(tn, "kind", "") == "test":
                for n2, test, pol, r in fv.raising_guards():
                    if n2.id == tn.id and isinstance(r, ast.Raise) and isinstance(r.exc, ast.Call) and r.exc.args:
                        a0 = r.exc.args[0]
                        msg = a0.value if isinstance(a0, ast.Constant) and isinstance(a0.value, str) else "".join(p for p in (template_parts(a0) or []) if isinstance(p, str))
            m = re.search(r"(\d+)\s*-\s*(\d+)", msg)
            if m:
                ctx.rep.check((int(m.group(1)), int(m.group(2))) == (lo[0], hi[0]), rule, c + "/message", "guard and its own error message agree",
                              f"the guard accepts {lo[0]}..{hi[0]} but its error message says {m.group(1)} - {m.group(2)}: one of them is wrong", where=w)
        if var in doc:
            ctx.rep.check(doc[var] == (lo[0], hi[0]), rule, c + "/docstring", "guard and docstring agree", f"the guard accepts {lo[0]}..{hi[0]} but the docstring documents {doc[var][0]}-{doc[var][1]}", where=w)
        ctx.rep.check(bool(d.get("typed")), rule, c + "/type", f"{var} is type-checked", f"`{var}` is range-checked without a type check (a float/str prints differently in the command)", where=w)
    # site is emitted zero-based: (grid, site - 1) for every position/location
    n_zero = 0
    for rn in rets:
        rt, rat = fv.def_expr(rn.ast.value, rn.id)
        if not isinstance(rt, ast.Tuple):
            continue
        for e in rt.elts:
            if isinstance(e, ast.Name) and ("position" in e.id or "location" in e.id):
                t = fv.res.resolve(e, rat)
                n_zero += 1
                ok = False
                if isinstance(t, ast.Tuple) and len(t.elts) == 2:
                    ra = _subject_role(t.elts[0])
                    site_terms = [x for x in ast.walk(t.elts[1]) if _subject_role(x) is not None and _subject_role(x)[1] == "site"]
                    ok = ra is not None and ra[1] == "grid" and ra[0] == e.id and len(site_terms) >= 1 and _subject_role(site_terms[0])[0] == e.id and to_poly(t.elts[1]) == Poly.symbol(site_terms[0]) - Poly.const(1)
                ctx.rep.check(ok, rule, f"{v.qualname}/{e.id}", "emitted as (grid, site - 1)", f"`{e.id}` is returned as `{show(t)[:60]}`: the site must be emitted zero-based as (grid, site - 1)", where=v.where(rn.ast))
    ctx.rep.floor(rule, f"zero-based site conversions in {vname}", n_zero, 1 if "aspirate" in vname else 2)
    # arm in {0, 1}; binary flags
    flags = ["arm"] + (["fastwash", "low_volume"] if "wash" in vname else [])
    for var in flags:
        ok = False
        for n, test, pol, r in fv.raising_guards():
            if raise_class(fv, r)[0] != "ValueError":
                continue
            terms = dnf(test, pol)
            if len(terms) == 1 and len(terms[0]) == 2:
                vals = set()
                for a in terms[0]:
                    e = a.expr
                    if isinstance(e, ast.Compare) and is_name(e.left, var) and isinstance(e.comparators[0], ast.Constant) and ((isinstance(e.ops[0], ast.Eq) and not a.pol) or (isinstance(e.ops[0], ast.NotEq) and a.pol)):
                        vals.add(e.comparators[0].value)
                ok = ok or vals == {0, 1}
            if len(terms) == 1 and len(terms[0]) == 1:
                e = terms[0][0].expr
                if isinstance(e, ast.Compare) and is_name(e.left, var) and isinstance(e.comparators[0], (ast.Set, ast.Tuple, ast.List)) and {getattr(x, "value", None) for x in e.comparators[0].elts} == {0, 1} and (isinstance(e.ops[0], ast.NotIn) == terms[0][0].pol):
                    ok = True
        ctx.rep.check(ok, rule, f"{v.qualname}/{var}", f"{var} must be 0 or 1", f"`{var}` is not restricted to 0/1", where=v.where())
    if "aspirate" in vname:
        # liquid class: str without ';'
        terms = []
        for n, test, pol, r in fv.raising_guards():
            for t in dnf(test, pol):
                terms.append((t, raise_class(fv, r)[0]))
        sep = any(cls == "ValueError" and len(t) == 1 and isinstance(t[0].expr, ast.Compare) and isinstance(t[0].expr.ops[0], ast.In) and t[0].pol and isinstance(t[0].expr.left, ast.Constant) and t[0].expr.left.value == ";" and is_name(t[0].expr.comparators[0], "liquid_class") for t, cls in terms)
        ctx.rep.check(sep, rule, f"{v.qualname}/liquid_class", "a ';' in the liquid class raises ValueError", "the liquid class is not checked for ';'", where=v.where())
        # volumes: 0 <= v <= 7158278, NaN, both branches (scalar branch on `volume`, list branch on every element)
        for label, is_elem in (("scalar", False), ("list", True)):
            found = {"neg": False, "big": False, "nan": False}
            for t, cls in terms:
                if cls != "ValueError" or len(t) != 1:
                    continue
                a = t[0]
                e = fv.res.resolve(a.expr, fv.node_of(a.expr)) if id(a.expr) in fv._expr_node else a.expr
                subj = None
                if isinstance(e, ast.Compare) and len(e.ops) == 1:
                    subj = e.left
                elif isinstance(e, ast.Call) and call_fname(e) == "isnan" and e.args:
                    subj = e.args[0]
                if subj is None:
                    continue
                base = subj
                while isinstance(base, ast.Call) and call_fname(base) == "float" and base.args:
                    base = base.args[0]
                matches = (elem_parts(base) is not None and is_name(strip_norm(elem_parts(base)[1]), "volume")) if is_elem else is_name(base, "volume")
                if not matches:
                    continue
                if isinstance(e, ast.Call):
                    found["nan"] = found["nan"] or a.pol
                else:
                    cm = to_cmp(e, a.pol)
                    X = Poly.symbol(subj)
                    if cm == Cmp(-X, ">"):
                        found["neg"] = True
                    if cm == Cmp(X - Poly.const(7158278), ">"):
                        found["big"] = True
            ctx.rep.check(all(found.values()), rule, f"{v.qualname}/volume[{label}]", f"{label} volumes: negative, > 7158278 and NaN raise ValueError",
                          f"{label} volume guards incomplete: {found}", where=v.where())


# --------------------------------------------------------------------------------- templates
def _skeleton(parts) -> str:
    return "".join(p if isinstance(p, str) else "\x00" for p in parts)


def asp_template(ctx, name: str) -> None:
    rule = "C13.template"
    f = ctx.prog.func(f"robotools.evotools.commands:{name}")
    if f is None:
        raise AnalysisInconclusive(rule, name, "formatter not found")
    fv = ctx.fv(f)
    rets = fv.template_returns()
    if len(rets) != 1:
        ctx.rep.inconclusive(rule, f.qualname, "command template not found")
        return
    rn = rets[0]
    w = f.where(rn.ast)
    parts = template_parts(rn.value)
    cmd = "Aspirate" if name == "evo_aspirate" else "Dispense"
    # the twelve volume slots may be written as ",".join(<list of 12 entries>) followed by "," instead of the string of the 8
    # LiHa slots followed by the literal "0,0,0,0,": both spellings are brought to the second one
    norm_parts = []
    for i_, p_ in enumerate(parts):
        if isinstance(p_, Hole) and isinstance(p_.expr, ast.Call) and call_fname(p_.expr) == "join" and isinstance(p_.expr.func, ast.Attribute) and isinstance(p_.expr.func.value, ast.Constant) \
                and p_.expr.func.value.value == "," and len(p_.expr.args) == 1 and isinstance(p_.expr.args[0], ast.Name) and i_ + 1 < len(parts) and isinstance(parts[i_ + 1], str) and parts[i_ + 1].startswith(","):
            init, iat = fv.def_expr(p_.expr.args[0], rn.id)
            k_ = None
            if isinstance(init, ast.BinOp) and isinstance(init.op, ast.Mult):
                for a_, b_ in ((init.left, init.right), (init.right, init.left)):
                    if isinstance(a_, ast.List) and len(a_.elts) == 1 and isinstance(a_.elts[0], ast.Constant) and str(a_.elts[0].value) == "0":
                        kb = fv.res.resolve(b_, iat)
                        k_ = kb.value if isinstance(kb, ast.Constant) and isinstance(kb.value, int) else None
            if k_ == 12:
                norm_parts.append(p_)
                norm_parts.append("0,0,0,0")
                continue
        norm_parts.append(p_)
    merged = []
    for p_ in norm_parts:
        if isinstance(p_, str) and merged and isinstance(merged[-1], str):
            merged[-1] += p_
        else:
            merged.append(p_)
    parts = merged
    sk = _skeleton(parts)
    ctx.rep.check(sk == ASP_SKELETON % cmd, rule, f"{f.qualname}/skeleton", f"command skeleton is B;{cmd}(mask,\"lc\",<8 slots>0,0,0,0,grid,site,1,\"selection\",0,arm);",
                  f"command skeleton is `{sk.replace(chr(0), '{}')}`; EVOware expects `{(ASP_SKELETON % cmd).replace(chr(0), '{}')}`", where=w)
    holes = [p for p in parts if isinstance(p, Hole)]
    if len(holes) != 7:
        return
    val_name = "prepare_evo_aspirate_dispense_parameters"

    def from_validator(t, idx):
        return is_sym(t, "unpack") and isinstance(t.args[0], ast.Call) and call_fname(t.args[0]) == val_name and t.args[1].value == idx

    t_lc = fv.res.resolve(holes[1].expr, rn.id)
    ctx.rep.check(from_validator(t_lc, 3), rule, f"{f.qualname}/liquid_class", "validated liquid class in slot 2", f"slot 2 carries `{show(t_lc)[:50]}`", where=w)
    for i, idx in ((3, 0), (4, 1)):
        t = fv.res.resolve(holes[i].expr, rn.id)
        ok = isinstance(t, ast.Subscript) and from_validator(t.value, 1) and isinstance(t.slice, ast.Constant) and t.slice.value == idx
        # grid, site = labware_position
        ok = ok or (is_sym(t, "unpack") and from_validator(t.args[0], 1) and isinstance(t.args[1], ast.Constant) and t.args[1].value == idx)
        ctx.rep.check(ok, rule, f"{f.qualname}/{'grid' if idx == 0 else 'site'}", f"validated labware_position[{idx}]", f"the {'grid' if idx == 0 else 'site'} slot carries `{show(t)[:50]}`", where=w)
    t_arm = fv.res.resolve(holes[6].expr, rn.id)
    ctx.rep.check(is_name(t_arm, "arm"), rule, f"{f.qualname}/arm", "arm in the last slot", f"the arm slot carries `{show(t_arm)[:40]}`", where=w)
    # selection string
    t_sel = fv.res.resolve(holes[5].expr, rn.id)
    ok_sel = isinstance(t_sel, ast.Call) and call_fname(t_sel) == "evo_get_selection" and len(t_sel.args) == 3 and is_name(t_sel.args[0], "n_rows") and is_name(t_sel.args[1], "n_columns")
    if ok_sel:
        sel = t_sel.args[2]
        ok_sel = isinstance(sel, ast.Call) and call_fname(sel) == "evo_make_selection_array" and len(sel.args) == 3 and is_name(sel.args[0], "n_rows") and is_name(sel.args[1], "n_columns") and from_validator(sel.args[2], 0)
    ctx.rep.check(ok_sel, rule, f"{f.qualname}/selection", "selection = evo_get_selection(n_rows, n_columns, evo_make_selection_array(n_rows, n_columns, <validated wells>))",
                  f"the well selection is `{show(t_sel)[:80]}`", where=w)
    # single-column requirement dominates the return
    req = [cs for cs in fv.calls() if cs.callee.kind == "func" and cs.callee.func.name == "require_single_column_selection"]
    ok_req = len(req) == 1 and fv.cfg.dominates(req[0].node, rn.id)
    if ok_req:
        a = fv.res.resolve(req[0].call.args[0], req[0].node)
        ok_req = isinstance(a, ast.Call) and call_fname(a) == "evo_make_selection_array"
    ctx.rep.check(ok_req, rule, f"{f.qualname}/single-column", "wells from several columns are rejected before the command is returned", "require_single_column_selection does not guard the returned command", where=w)
    g = ctx.prog.func("require_single_column_selection")
    if g is not None:
        gv = ctx.fv(g)
        okg = any(pol and raise_class(gv, r)[0] == "ValueError" and to_cmp(gv.res.resolve(test, n.id), True) is not None and (to_cmp(gv.res.resolve(test, n.id), True).rel in (">=", ">")) for n, test, pol, r in gv.raising_guards())
        ctx.rep.check(okg, rule, f"{g.qualname}/raises", "more than one selected column raises ValueError", "require_single_column_selection does not raise ValueError for several columns", where=g.where())
    # volume slots: filled from the validated volumes in order, one pop per selected slot
    from .common import with_helpers

    pops = [cs for v_ in with_helpers(ctx, fv) for cs in v_.calls() if isinstance(cs.call.func, ast.Attribute) and cs.call.func.attr == "pop"]
    ok_pop = len(pops) == 1 and pops[0].call.args and isinstance(pops[0].call.args[0], ast.Constant) and pops[0].call.args[0].value == 0
    if not pops:
        # the same traversal with a running index: k = 0 before the slot loop; "{volume[k]}" and k += 1 on the selected branch
        for v_ in with_helpers(ctx, fv):
            for n_ in v_.cfg.nodes:
                if n_.kind != "stmt" or not isinstance(n_.ast, ast.AugAssign) or not isinstance(n_.ast.value, ast.JoinedStr):
                    continue
                loops_ = [h for h in v_.cfg.enclosing_loops(n_.id) if v_.cfg.nodes[h].kind == "for"]
                subs_ = [x for x in ast.walk(n_.ast.value) if isinstance(x, ast.Subscript) and isinstance(x.slice, ast.Name)]
                if len(loops_) != 1 or len(subs_) != 1:
                    continue
                k_ = subs_[0].slice.id
                body_ = v_.cfg.loop_body[loops_[0]]
                defs_ = [m for m in v_.cfg.nodes if m.kind == "stmt" and ((isinstance(m.ast, ast.Assign) and is_name(m.ast.targets[0], k_)) or (isinstance(m.ast, ast.AugAssign) and is_name(m.ast.target, k_)))]
                init_ = [m for m in defs_ if isinstance(m.ast, ast.Assign)]
                incs_ = [m for m in defs_ if isinstance(m.ast, ast.AugAssign)]
                if len(init_) == 1 and len(incs_) == 1 and isinstance(init_[0].ast.value, ast.Constant) and init_[0].ast.value.value == 0 and not v_.cfg.enclosing_loops(init_[0].id) \
                        and v_.cfg.dominates(init_[0].id, loops_[0]) and incs_[0].id in body_ and isinstance(incs_[0].ast.op, ast.Add) and isinstance(incs_[0].ast.value, ast.Constant) and incs_[0].ast.value.value == 1 \
                        and v_.controlling(incs_[0].id, within=body_) == v_.controlling(n_.id, within=body_) and v_.cfg.dominates(n_.id, incs_[0].id) and v_.cfg.enclosing_loops(incs_[0].id) == v_.cfg.enclosing_loops(n_.id):
                    ok_pop = True
    ctx.rep.check(ok_pop, rule, f"{f.qualname}/volume-order", "volumes are consumed front to back, one per selected slot", "the per-tip volumes are not consumed front to back (pop(0)) once per selected slot", where=w)
    # the mask fold is unconditional over all validated tips
    mask_views = with_helpers(ctx, fv)
    for mv in mask_views:
      for n in mv.cfg.nodes:
        is_mask = isinstance(n.ast, ast.AugAssign) and isinstance(n.ast.op, (ast.BitOr, ast.Add)) and isinstance(n.ast.target, ast.Name) and (
            (mv is fv and is_name(holes[0].expr, n.ast.target.id)) or (mv is not fv and any(isinstance(s2, ast.Attribute) and s2.attr == "value" for s2 in ast.walk(n.ast.value))))
        if n.kind == "stmt" and is_mask:
            fv_ = mv
            loops = [h for h in fv_.cfg.enclosing_loops(n.id) if fv_.cfg.nodes[h].kind == "for"]
            cond = fv_.controlling(n.id, within=fv_.cfg.loop_body[loops[-1]]) if loops else []
            ctx.rep.check(not cond, rule, f"{f.qualname}/mask-all-tips", "every given tip is part of the mask",
                          f"a tip enters the mask only when `{stmt_key(fv.cfg.nodes[cond[0][0]].ast)[:40] if cond else ''}`: mask, volume slots and well selection no longer describe the same tips", where=f.where(n.ast))
    # validator returns (wells_list, labware_position, volume_list, liquid_class, tecan_tips) from its own parameters
    v = ctx.prog.func(val_name)
    if v is not None and name == "evo_aspirate":
        vv = ctx.fv(v)
        for rnode in vv.return_nodes():
            rtuple, rat = vv.def_expr(rnode.ast.value, rnode.id)
            if not isinstance(rtuple, ast.Tuple):
                continue
            names = [getattr(e, "id", "?") for e in rtuple.elts]
            ok = len(names) == 5 and "well" in names[0] and "position" in names[1] and "vol" in names[2] and names[3] == "liquid_class" and "tip" in names[4]
            ctx.rep.check(ok, rule, f"{v.qualname}/return-order", "validator returns (wells, position, volumes, liquid class, tips)", f"validator returns {names}", where=v.where(rnode.ast))
            vol = vv.res.resolve(rtuple.elts[2], rat)
            two = isinstance(vol, ast.Call) and call_fname(vol) == "tolist" and isinstance(vol.func.value, ast.Call) and call_fname(vol.func.value) in ("round", "around")
            ctx.rep.check(two, rule, f"{v.qualname}/volume-rounding", "volumes are rounded to two decimals", f"returned volumes are `{show(vol)[:60]}`", where=v.where(rnode.ast))
            if len(rtuple.elts) == 5:
                lc = vv.res.resolve(rtuple.elts[3], rat)
                ctx.rep.check(is_name(lc, "liquid_class"), rule, f"{v.qualname}/liquid-class", "the liquid class is handed on as given",
                              f"the validator returns `{show(lc)[:50]}` as liquid class, not the argument itself: the command names another (truncated / altered) liquid class", where=v.where(rnode.ast))


def wash_template(ctx) -> None:
    rule = "C13.template"
    f = ctx.prog.func("robotools.evotools.commands:evo_wash")
    if f is None:
        raise AnalysisInconclusive(rule, "evo_wash", "formatter not found")
    fv = ctx.fv(f)
    rets = fv.template_returns()
    if len(rets) != 1:
        ctx.rep.inconclusive(rule, f.qualname, "command template not found")
        return
    rn = rets[0]
    w = f.where(rn.ast)
    parts = template_parts(rn.value)
    sk = _skeleton(parts)
    ctx.rep.check(sk == WASH_SKELETON, rule, f"{f.qualname}/skeleton", "wash command skeleton matches the EVOware parameter order",
                  f"command skeleton is `{sk.replace(chr(0), '{}')}`; expected `{WASH_SKELETON.replace(chr(0), '{}')}`", where=w)
    holes = [p for p in parts if isinstance(p, Hole)]
    if len(holes) != 15:
        return
    want = [None, ("waste_location", 0), ("waste_location", 1), ("cleaner_location", 0), ("cleaner_location", 1), "waste_vol", "waste_delay", "cleaner_vol", "cleaner_delay", "airgap", "airgap_speed", "retract_speed", "fastwash", "low_volume", "arm"]
    for h, spec in zip(holes, want):
        if spec is None:
            continue
        name, sub = (spec if isinstance(spec, tuple) else (spec, None))
        t = fv.res.resolve(h.expr, rn.id)
        core = t
        if sub is not None:
            ok = isinstance(t, ast.Subscript) and isinstance(t.slice, ast.Constant) and t.slice.value == sub
            core = t.value if ok else t
            if not ok and is_sym(t, "unpack") and is_sym(t.args[0], "unpack") and isinstance(t.args[1], ast.Constant) and t.args[1].value == sub:
                # grid, site = location   instead of   location[0], location[1]
                ok, core = True, t.args[0]
        else:
            ok = True
        ok = ok and is_sym(core, "unpack") and isinstance(core.args[0], ast.Call) and call_fname(core.args[0]) == "prepare_evo_wash_parameters" and core.args[1].value == WASH_ORDER.index(name)
        if ok:
            kws = {k.arg: k.value for k in core.args[0].keywords}
            ok = name in kws and is_name(kws[name], name)
        ctx.rep.check(ok, rule, f"{f.qualname}/slot[{name}{'' if sub is None else sub}]", f"slot carries the validated `{name}`", f"the `{name}` slot carries `{show(t)[:60]}`: the parameter does not land in its documented position", where=w)
    v = ctx.prog.func("prepare_evo_wash_parameters")
    if v is not None:
        vv = ctx.fv(v)
        for rnode in vv.return_nodes():
            rtuple, rat = vv.def_expr(rnode.ast.value, rnode.id)
            if not isinstance(rtuple, ast.Tuple):
                continue
            elts = rtuple.elts
            names = [getattr(e, "id", "?") for e in elts]
            ok = len(names) == 13 and all(n == wname or (i == 0 and "tip" in n) for i, (n, wname) in enumerate(zip(names, WASH_ORDER)))
            ctx.rep.check(ok, rule, f"{v.qualname}/return-order", "validator returns its parameters in the documented order", f"validator returns {names}", where=v.where(rnode.ast))


def wash_passthrough(ctx) -> None:
    rule = "C13.template"
    f = ctx.prog.require_func("EvoWorklist.evo_wash", rule)
    fv = ctx.fv(f, f.cls)
    calls = [cs for cs in fv.calls() if cs.callee.kind == "func" and cs.callee.func.name == "evo_wash" and cs.callee.func.cls is None]
    if len(calls) != 1:
        ctx.rep.inconclusive(rule, f.qualname, "commands.evo_wash call not found")
        return
    cs = calls[0]
    kws = {k.arg: k.value for k in cs.call.keywords}
    for name in WASH_ORDER:
        ok = name in kws and is_name(kws[name], name)
        ctx.rep.check(ok, rule, f"{f.qualname}/{name}", f"`{name}` is forwarded under its own name",
                      f"`{name}` is forwarded as `{show(kws[name]) if name in kws else 'default'}`: the command carries another parameter's value and {name} itself is neither emitted nor range-checked", where=f.where(cs.call))
    d1, d2 = {p: f.param_default(p) for p in WASH_ORDER}, {p: cs.callee.func.param_default(p) for p in WASH_ORDER}
    same = all((d1[p] is None) == (d2[p] is None) and (d1[p] is None or dump(d1[p]) == dump(d2[p])) for p in WASH_ORDER)
    ctx.rep.check(same, rule, f"{f.qualname}/defaults", "defaults agree with the formatter", "default values differ between EvoWorklist.evo_wash and commands.evo_wash", where=f.where())


def siblings(ctx) -> None:
    rule = "C13.siblings"
    a = ctx.prog.func("robotools.evotools.commands:evo_aspirate")
    d = ctx.prog.func("robotools.evotools.commands:evo_dispense")
    if a is None or d is None:
        raise AnalysisInconclusive(rule, "commands", "formatters not found")
    ctx.rep.touch(a)
    ctx.rep.touch(d)

    def neutral(stmts, old, new):
        for s in stmts:
            for sub in ast.walk(s):
                if isinstance(sub, ast.Constant) and isinstance(sub.value, str):
                    sub.value = sub.value.replace(old, new)
        return stmts

    ba = neutral(canonical_body(ctx.prog, a), "Aspirate", "CMD")
    bd = neutral(canonical_body(ctx.prog, d), "Dispense", "CMD")
    diff = first_difference(ba, bd)
    ctx.rep.check(diff is None, rule, "commands.evo_aspirate~evo_dispense", "the two formatters agree modulo the command name",
                  f"evo_aspirate and evo_dispense differ at {diff[0]}: `{show_stmt(diff[1])}` vs `{show_stmt(diff[2])}`" if diff else "", where=d.where())
    wa = ctx.prog.require_func("EvoWorklist.evo_aspirate", rule)
    wd = ctx.prog.require_func("EvoWorklist.evo_dispense", rule)
    ctx.rep.touch(wa)
    ctx.rep.touch(wd)
    ba, bd = canonical_body(ctx.prog, wa), canonical_body(ctx.prog, wd)

    def strip_diff(stmts, is_disp):
        for s in stmts:
            for sub in ast.walk(s):
                if isinstance(sub, ast.Attribute) and sub.attr in ("remove", "add"):
                    sub.attr = "TRACK"
                if isinstance(sub, ast.Name) and sub.id in ("@robotools.evotools.commands:evo_aspirate", "@robotools.evotools.commands:evo_dispense"):
                    sub.id = "@CMD"
                if isinstance(sub, ast.Call):
                    sub.keywords = [k for k in sub.keywords if k.arg != "compositions"]
        return stmts

    # parameter numbering differs by the extra `compositions` parameter: compare with names kept
    diff = first_difference(strip_diff(ba, False), strip_diff(bd, True))
    ctx.rep.check(diff is None, rule, "EvoWorklist.evo_aspirate~evo_dispense", "the two worklist methods agree modulo remove/add, compositions and the command",
                  f"EvoWorklist.evo_aspirate and evo_dispense differ at {diff[0]}: `{show_stmt(diff[1])}` vs `{show_stmt(diff[2])}`" if diff else "", where=wd.where())
