"""C01 - the emitted worklist reproduces the tracked labware state (routing / pairing clauses only).

Decided: every record names the rack and the well of the very labware/well/volume that the tracking call
received (def-use origin equality), in aspirate/dispense (both devices), transfer (both copies) and distribute.
Not decided: numeric equality of replayed and tracked volumes/compositions.
"""
from __future__ import annotations

import ast
from typing import Dict, List, Optional, Tuple

from ..canon import Cmp, Poly, to_cmp, to_poly
from ..defuse import is_sym, key, show, strip_norm, sym
from ..engine import CallSite, own_walk
from ..model import AnalysisInconclusive
from .common import (attr_of_name, call_fname, concrete_devices, elem_parts, has_unknown, is_name, kwarg, same, same_seq,
                     seq_transformers, stmt_key)

EXPLANATION = (
    "C01 (routing/pairing half only): for aspirate/dispense resolved under each device class, both transfer copies and "
    "distribute, the rack label, the well handed to the device numbering hook and the volume of every emitted record "
    "have the same def-use origin as the labware/wells/volumes handed to the tracking call (Labware.add/remove); the "
    "only filter between tracking and emission is `volume > 0`; direction (remove->A, add->D) agrees; distribute "
    "removes volume*len(destinations) from the column named in the record. Replayed numeric state is not computed."
)
ASSUMPTIONS = ["the independent interpreter's numbering equals C08's formulas (checked separately by C08)"]


def run(ctx) -> None:
    for dev in concrete_devices(ctx):
        for meth, track, emit_kind in (("aspirate", "remove", "A"), ("dispense", "add", "D")):
            ctx.guard("C01.pair-AD", pair_ad, dev, meth, track, emit_kind)
        ctx.guard("C01.pair-transfer", pair_transfer, dev)
        ctx.guard("C01.numbering-hook", numbering_hook, dev)
    ctx.guard("C01.pair-distribute", pair_distribute, "C01.pair-distribute")
    # the Labware side of the comparison: its volume array is private (initial contents are copied, no alias escapes),
    # and the composition it reports for mixed liquid is the volume-weighted mix of exactly the two liquids involved
    from . import c02, c05

    ctx.reuse("C01.labware-state", c02.ctor)
    ctx.reuse("C01.labware-state", c02.alias)
    # the tracked volume is the exact sum of what the records move: no tolerance / clamping at the limits
    for kind in ("add", "remove"):
        ctx.reuse("C01.labware-state", c02.guard, kind)
    # ... and the record carries that volume rounded (not truncated) to two decimals
    from . import c09

    ctx.reuse("C01.record-volume", c09.validator_numbers)
    # the R record names exactly the wells that were booked: ranges, volume and the exclusion list arrive in their slots
    ctx.reuse("C01.pair-distribute", c09.r_slots)
    # records and tracking pair the same wells with the same volumes (no recycling of wells inside the labware), and the
    # Fluent numbering of troughs follows the trough predicate
    from . import c04, c08

    ctx.reuse("C01.pair-AD", c04.pairing_family)
    # a record is appended only after the labware accepted the booking: a refused aspirate / dispense that has already
    # written its records leaves a worklist that moves liquid the tracked state never saw
    from . import c03 as _c03x

    ctx.reuse("C01.pair-AD", _c03x.check_before_emit)
    ctx.reuse("C01.numbering", c08.trough_predicate)
    ctx.reuse("C01.composition", c05.mix_args)
    ctx.reuse("C01.composition", c05.mix_formula)
    ctx.reuse("C01.composition", c05.local_write)
    ctx.reuse("C01.composition", c05.owner)
    # the liquid of an initially filled well is known by that well's component (and of no other well), and what is read out for a
    # transfer is the stored mixture without a tolerance
    ctx.reuse("C01.composition", c05.default_name)
    from . import objmodel

    ctx.guard("C01.labware-state", objmodel.labware_model, "C01.labware-state")
    ctx.guard("C01.labware-state", objmodel.worklist_model, "C01.labware-state")
    ctx.reuse("C01.composition", c05.read_exact)
    ctx.reuse("C01.composition", c05.comp_forwarding)
    # "the file the robot executes": save() writes the records themselves
    from . import c17

    ctx.reuse("C01.file", c17.open_config)
    ctx.reuse("C01.file", c17.strings)


# ------------------------------------------------------------------------ aspirate / dispense
def labware_param(fv, cs: CallSite) -> Optional[str]:
    fn = cs.call.func
    if isinstance(fn, ast.Attribute) and isinstance(fn.value, ast.Name) and fn.value.id in fv.f.params:
        return fn.value.id
    return None


def pair_ad(ctx, dev, meth: str, track: str, emit_kind: str, rule: str = "C01.pair-AD") -> None:
    f = ctx.prog.find_method(dev, meth)
    if f is None:
        raise AnalysisInconclusive(rule, f"{dev.name}.{meth}", "method not found")
    fv = ctx.fv(f, dev)
    cbase = f"{dev.name}.{meth}"
    T = fv.calls_func(f"Labware.{track}")
    other = fv.calls_func(f"Labware.{'add' if track == 'remove' else 'remove'}")
    if len(T) != 1 or other:
        ctx.rep.check(False if (other or len(T) > 1) else None, rule, f"{cbase}/tracking", "",
                      f"expected exactly one Labware.{track} call and no Labware.{'add' if track == 'remove' else 'remove'} call, found {len(T)} / {len(other)}", where=f.where())
        return
    T = T[0]
    L = labware_param(fv, T)
    if L is None:
        ctx.rep.inconclusive(rule, f"{cbase}/tracking", "tracking call receiver is not a parameter", where=f.where(T.call))
        return
    tb = fv.bind_args(T) or {}
    if "wells" not in tb or "volumes" not in tb:
        ctx.rep.inconclusive(rule, f"{cbase}/tracking", "cannot bind wells/volumes of the tracking call", where=f.where(T.call))
        return
    TW = fv.res.resolve(tb["wells"], T.node)
    TV = fv.res.resolve(tb["volumes"], T.node)
    # emission calls: callees whose summary emits A / D records
    E = []
    for cs in fv.calls():
        if cs.callee.kind == "func" and cs.callee.func.cls is not None:
            kinds = {e.arg for e in ctx.E.summary(cs.callee.func, dev) if e.kind == "EMIT"} - {"C"}
            if kinds & {"A", "D"}:
                E.append((cs, kinds))
    if not E:
        ctx.rep.refuted(rule, f"{cbase}/emission", f"{cbase} never emits an {emit_kind} record for the tracked operation", where=f.where())
        return
    for cs, kinds in E:
        c = f"{cbase}/{cs.callee.func.name}"
        w = f.where(cs.call)
        ctx.rep.check(kinds == {emit_kind}, rule, c + "/direction", f"{track} is paired with {emit_kind} records",
                      f"tracking call is Labware.{track} but the emission call produces {sorted(kinds)} records", where=w)
        b = fv.bind_args(cs) or {}
        if not all(k in b for k in ("rack_label", "position", "volume")):
            ctx.rep.inconclusive(rule, c, "cannot bind rack_label/position/volume of the emission call", where=w)
            continue
        rack = fv.res.resolve(b["rack_label"], cs.node)
        ctx.rep.check(attr_of_name(rack, L, "name"), rule, c + "/rack", f"rack label is {L}.name",
                      f"rack label `{show(rack)}` is not the name of the tracked labware `{L}`", where=w)
        pos = fv.res.resolve(b["position"], cs.node)
        well_term = None
        ok_pos = False
        if isinstance(pos, ast.Call) and isinstance(pos.func, ast.Attribute) and pos.func.attr == "_get_well_position" and is_name(pos.func.value, fv.f.params[0]) and len(pos.args) == 2:
            ok_pos = is_name(pos.args[0], L)
            well_term = pos.args[1]
        ctx.rep.check(ok_pos, rule, c + "/position", "position = self._get_well_position(<tracked labware>, <well>)",
                      f"position `{show(pos)[:100]}` is not the device numbering of a well of the tracked labware `{L}`", where=w)
        vol = fv.res.resolve(b["volume"], cs.node)
        we = elem_parts(well_term) if well_term is not None else None
        ve = elem_parts(vol)
        if we is None or ve is None:
            bad = well_term if we is None else vol
            if bad is not None and has_unknown(bad):
                ctx.rep.inconclusive(rule, c + "/iteration", f"well/volume origin unknown: {show(bad)[:100]}", where=w)
            else:
                ctx.rep.refuted(rule, c + "/iteration", f"well `{show(well_term)[:60] if well_term is not None else '?'}` / volume `{show(vol)[:60]}` are not the elements of one loop over the tracked sequences", where=w)
            continue
        ctx.rep.check(we[0] == ve[0], rule, c + "/same-iteration", "well and volume come from the same loop iteration",
                      "well and volume of the record come from different loops", where=w)
        ctx.rep.check(same(we[1], TW), rule, c + "/wells", "emission iterates the very sequence handed to the tracking call",
                      f"wells emitted from `{show(we[1])[:80]}` but tracked with `{show(TW)[:80]}`", where=w)
        ctx.rep.check(same(ve[1], TV), rule, c + "/volumes", "emitted volumes are the very sequence handed to the tracking call",
                      f"volumes emitted from `{show(ve[1])[:80]}` but tracked with `{show(TV)[:80]}`", where=w)
        # the only filter between loop head and emission is `volume > 0`
        loops = [h for h in fv.cfg.enclosing_loops(cs.node) if fv.cfg.nodes[h].kind == "for"]
        if not loops:
            ctx.rep.refuted(rule, c + "/loop", "emission call is not inside a loop over the wells", where=w)
            continue
        head = loops[-1]
        body = fv.cfg.loop_body[head]
        atoms = fv.atoms_at(cs.node, within=body, skip_raising=True)
        compounds = fv.compound_conditions_at(cs.node, within=body, skip_raising=True)
        filt_ok = not compounds
        detail = f"`{show(compounds[0][0])[:60]}`" if compounds else ""
        n_pos = 0
        for r, pol, br in atoms:
            cm = to_cmp(r, pol)
            if cm is not None and cm == Cmp(Poly.symbol(vol), ">"):
                n_pos += 1
            else:
                filt_ok = False
                detail = f"`{'' if pol else 'not '}{show(r)[:60]}`"
        ctx.rep.check(filt_ok and n_pos == 1, rule, c + "/filter", "records are skipped only for volume <= 0 (`volume > 0` guard)",
                      f"emission is filtered by {detail or 'something other than exactly `volume > 0`'}: tracked steps with a positive volume may get no record (or zero steps a record)", where=w)
        exits = [n for n in (fv.cfg.nodes[i] for i in body) if n.kind == "stmt" and isinstance(n.ast, (ast.Break, ast.Return))]
        ctx.rep.check(not exits, rule, c + "/exits", "no early exit in the emission loop", "early exit in the emission loop drops records of tracked steps", where=w)
        it_tr = seq_transformers(we[1]) + seq_transformers(ve[1])
        ctx.rep.check(not it_tr, rule, c + "/iteration-space", "loop iterates the full tracked sequences", f"emission iterates a transformed sequence {it_tr}", where=w)
        # keyword pass-through
        kwname = f.node.args.kwarg.arg if f.node.args.kwarg else None
        passes = any(kw.arg is None and is_name(kw.value, kwname) for kw in cs.call.keywords) if kwname else True
        ctx.rep.check(passes, rule, c + "/kwargs", "**kwargs are forwarded unchanged to the record emitter",
                      "the method's **kwargs (liquid class, tip, rack ids) are not forwarded unchanged to the record emitter", where=w)
    # tracking receives the labware / sequences / label of this call
    ctx.rep.holds(rule, f"{cbase}/tracking", f"one Labware.{track} on `{L}` with the normalised wells/volumes", where=f.where(T.call))


def numbering_hook(ctx, dev) -> None:
    rule = "C01.numbering-hook"
    f = dev.methods.get("_get_well_position")
    if f is None:
        ctx.rep.refuted(rule, f"{dev.name}._get_well_position", f"{dev.name} does not override the numbering hook", where=dev.module.relpath)
        return
    fv = ctx.fv(f, dev)
    rets = [t for n, t in fv.returns()]
    ok = False
    target = ""
    if len(rets) == 1 and isinstance(rets[0], ast.Call):
        cal = ctx.prog.resolve_call(f, rets[0], fv.env)
        if cal.kind == "func" and cal.func.name == "get_well_position":
            devpkg = dev.module.name.rsplit(".", 1)[0]
            target = cal.func.qualname
            args = rets[0].args
            static = any((isinstance(d_, ast.Name) and d_.id == "staticmethod") for d_ in f.node.decorator_list)
            own = f.params[0:2] if static else f.params[1:3]  # a @staticmethod hook has no `self`
            ok = cal.func.module.name.startswith(devpkg) and len(args) == 2 and all(isinstance(a, ast.Name) for a in args) and [a.id for a in args] == own
    ctx.rep.check(ok, rule, f"{dev.name}._get_well_position", f"delegates to {target}",
                  f"{dev.name}._get_well_position is not a plain delegation to the device package's own get_well_position(labware, well) (resolved: {target or 'unresolved'})", where=f.where())


# -------------------------------------------------------------------------------- transfer
def find_step_calls(ctx, fv, dev):
    asp = [c for c in fv.calls() if c.callee.kind == "func" and c.callee.func.short == "BaseWorklist.aspirate"]
    dis = [c for c in fv.calls() if c.callee.kind == "func" and c.callee.func.short == "BaseWorklist.dispense"]
    return asp, dis


def pair_transfer(ctx, dev, rule: str = "C01.pair-transfer") -> None:
    f = ctx.prog.find_method(dev, "transfer")
    if f is None:
        raise AnalysisInconclusive(rule, f"{dev.name}.transfer", "method not found")
    fv = ctx.fv(f, dev)
    cbase = f"{dev.name}.transfer"
    asp, dis = find_step_calls(ctx, fv, dev)
    if len(asp) != 1 or len(dis) != 1:
        ctx.rep.check(None if (len(asp) == 0 or len(dis) == 0) else False, rule, f"{cbase}/step", "",
                      f"expected exactly one aspirate and one dispense call in the step block, found {len(asp)}/{len(dis)}", where=f.where())
        return
    A, D = asp[0], dis[0]
    ab, db = fv.bind_args(A) or {}, fv.bind_args(D) or {}
    for need, b, cs in ((("labware", "wells", "volumes"), ab, A), (("labware", "wells", "volumes"), db, D)):
        if not all(k in b for k in need):
            ctx.rep.inconclusive(rule, f"{cbase}/step", "cannot bind labware/wells/volumes of a step call", where=f.where(cs.call))
            return
    src_l = fv.res.resolve(ab["labware"], A.node)
    dst_l = fv.res.resolve(db["labware"], D.node)
    ctx.rep.check(is_name(src_l, "source"), rule, f"{cbase}/aspirate-labware", "aspirates from `source`", f"aspirates from `{show(src_l)}` instead of the source labware", where=f.where(A.call))
    ctx.rep.check(is_name(dst_l, "destination"), rule, f"{cbase}/dispense-labware", "dispenses into `destination`", f"dispenses into `{show(dst_l)}` instead of the destination labware", where=f.where(D.call))
    s = fv.res.resolve(ab["wells"], A.node)
    d = fv.res.resolve(db["wells"], D.node)
    va = fv.res.resolve(ab["volumes"], A.node)
    vd = fv.res.resolve(db["volumes"], D.node)
    se, de = elem_parts(s), elem_parts(d)
    if se is None or de is None:
        bad = s if se is None else d
        ctx.rep.check(None if has_unknown(bad) else False, rule, f"{cbase}/wells", "", f"step wells `{show(s)[:60]}` / `{show(d)[:60]}` are not elements of the zipped column group", where=f.where(A.call))
        return
    ctx.rep.check(se[0] == de[0], rule, f"{cbase}/same-triple", "source and destination well come from the same zip iteration",
                  "source and destination wells of a step come from different iterations", where=f.where(A.call))
    # the zipped sequences are components 0 and 1 of one partition_by_column group
    def group_component(t):
        if is_sym(t, "item") and len(t.args) == 2 and isinstance(t.args[1], ast.Constant):
            g = elem_parts(t.args[0])
            if g is not None and isinstance(g[1], ast.Call) and call_fname(g[1]) == "partition_by_column":
                return t.args[1].value, g
        return None
    gs, gd = group_component(se[1]), group_component(de[1])
    ok = gs is not None and gd is not None and gs[0] == 0 and gd[0] == 1 and key(gs[1][1]) == key(gd[1][1]) and gs[1][0] == gd[1][0]
    ctx.rep.check(ok, rule, f"{cbase}/group", "source wells = component 0, destination wells = component 1 of the same column group",
                  f"step wells are taken from `{show(se[1])[:70]}` / `{show(de[1])[:70]}`: not components 0/1 of one partition_by_column group (sources and destinations swapped or re-paired)", where=f.where(A.call))
    if ok:
        pc = gs[1][1]
        pargs = pc.args
        names = [strip_norm(a) for a in pargs[:3]]
        want = ["source_wells", "destination_wells", "volumes"]
        ok2 = len(names) == 3 and all(isinstance(n, ast.Name) and n.id == w for n, w in zip(names, want))
        if not ok2 and any(is_sym(x_, "comp") for n_ in pargs[:3] for x_ in ast.walk(n_)):
            ok2 = None  # the arguments pass through a comprehension that was not expanded: unknown, not wrong
        ctx.rep.check(ok2, rule, f"{cbase}/partition-args", "partition_by_column(source_wells, destination_wells, volumes, ...)",
                      f"partition_by_column receives `{[show(n)[:30] for n in names]}`; expected the (normalised) source_wells, destination_wells, volumes in this order", where=f.where(A.call))
    ctx.rep.check(same(va, vd), rule, f"{cbase}/same-volume", "aspirate and dispense of a step move the same volume",
                  f"aspirate moves `{show(va)[:60]}` but dispense moves `{show(vd)[:60]}`", where=f.where(D.call))
    # composition handed to the dispense is that of the aspirated well
    comp = db.get("compositions")
    okc = False
    detail = "no compositions argument"
    if comp is not None:
        ct = fv.res.resolve(comp, D.node)
        detail = show(ct)[:100]
        if isinstance(ct, ast.List) and len(ct.elts) == 1 and isinstance(ct.elts[0], ast.Call):
            call = ct.elts[0]
            if isinstance(call.func, ast.Attribute) and call.func.attr == "get_well_composition" and is_name(call.func.value, "source") and len(call.args) == 1:
                okc = same(call.args[0], s)
        # the lookup must happen at the dispense (after the aspirate of this step, before the add): no caching
        raw_calls = [x for x in own_walk(comp) if isinstance(x, ast.Call) and call_fname(x) == "get_well_composition"]
        fresh = False
        if okc and not raw_calls and isinstance(comp, ast.List) and len(comp.elts) == 1 and isinstance(comp.elts[0], ast.Name):
            # looked up into a local in the same iteration (nothing of this step's block writes a composition before the dispense)
            defs_ = sorted(fv.cfg.reaching()[D.node].get(comp.elts[0].id, ()))
            inner_ = [h for h in fv.cfg.enclosing_loops(D.node) if fv.cfg.nodes[h].kind == "for"]
            if len(defs_) == 1 and inner_:
                body_ = min((fv.cfg.loop_body[h] for h in inner_), key=len)
                dn_ = fv.cfg.nodes[defs_[0]]
                fresh = defs_[0] in body_ and fv.cfg.dominates(defs_[0], D.node) and dn_.kind == "stmt" and isinstance(dn_.ast, ast.Assign) and isinstance(dn_.ast.value, ast.Call) \
                    and call_fname(dn_.ast.value) == "get_well_composition"
        if okc and not raw_calls and not fresh:
            okc = False
            detail = "composition is looked up earlier than the dispense of this step (cached): stale when a well is both destination and later source"
    ctx.rep.check(okc, rule, f"{cbase}/composition", "compositions=[source.get_well_composition(<aspirated well>)] evaluated at the dispense",
                  f"composition handed to the dispense is `{detail}`; expected [source.get_well_composition(<the aspirated well>)] looked up at the dispense", where=f.where(D.call))


# ------------------------------------------------------------------------------ distribute
def pair_distribute(ctx, rule: str) -> None:
    f = ctx.prog.require_func("BaseWorklist.distribute", rule)
    for dev in concrete_devices(ctx)[:1]:
        fv = ctx.fv(f, dev)
    cbase = "BaseWorklist.distribute"
    R = [c for c in fv.calls() if c.callee.kind == "func" and c.callee.func.name == "reagent_distribution"]
    rem = fv.calls_func("Labware.remove")
    add = fv.calls_func("Labware.add")
    if len(R) != 1 or len(rem) != 1 or len(add) != 1:
        ctx.rep.check(None if not R else False, rule, f"{cbase}/shape", "", f"expected one reagent_distribution, one remove and one add call; found {len(R)}/{len(rem)}/{len(add)}", where=f.where())
        return
    R, rem, add = R[0], rem[0], add[0]
    rb, mb, ab = fv.bind_args(R) or {}, fv.bind_args(rem) or {}, fv.bind_args(add) or {}
    w = f.where(R.call)

    def res(b, k, cs):
        return fv.res.resolve(b[k], cs.node) if k in b else None

    # receivers
    ctx.rep.check(labware_param(fv, rem) == "source", rule, f"{cbase}/remove-receiver", "liquid is removed from `source`", "the removal is not booked on the source labware", where=f.where(rem.call))
    ctx.rep.check(labware_param(fv, add) == "destination", rule, f"{cbase}/add-receiver", "liquid is added to `destination`", "the addition is not booked on the destination labware", where=f.where(add.call))
    # rack labels
    ctx.rep.check(attr_of_name(res(rb, "src_rack_label", R), "source", "name"), rule, f"{cbase}/src-rack", "source rack label = source.name", f"source rack label is `{show(res(rb, 'src_rack_label', R))}`", where=w)
    ctx.rep.check(attr_of_name(res(rb, "dst_rack_label", R), "destination", "name"), rule, f"{cbase}/dst-rack", "destination rack label = destination.name", f"destination rack label is `{show(res(rb, 'dst_rack_label', R))}`", where=w)
    # volume
    rv, av = res(rb, "volume", R), res(ab, "volumes", add)
    ctx.rep.check(is_name(rv, "volume") and is_name(av, "volume"), rule, f"{cbase}/volume", "record volume and per-well added volume are the `volume` argument",
                  f"record volume `{show(rv)}` / added per-well volume `{show(av)}` are not both the `volume` argument", where=w)
    # the remaining arguments of the record are distribute's own arguments, handed through unchanged
    for k in ("diti_reuse", "multi_disp", "liquid_class", "direction", "src_rack_id", "src_rack_type", "dst_rack_id", "dst_rack_type"):
        if k not in f.params:
            continue
        t = res(rb, k, R)
        ctx.rep.check(t is not None and is_name(t, k), rule, f"{cbase}/forward[{k}]", f"`{k}` is handed to the record unchanged",
                      f"the record is built with {k}=`{show(t)[:40] if t is not None else 'the default of reagent_distribution'}` instead of the `{k}` given to distribute", where=w)
    # destination wells
    aw = res(ab, "wells", add)
    DWparam = strip_norm(aw)
    ctx.rep.check(is_name(DWparam, "destination_wells") and not seq_transformers(aw), rule, f"{cbase}/add-wells", "every listed destination well is charged (once per occurrence)",
                  f"wells booked on the destination are `{show(aw)[:80]}`: not the full destination_wells argument", where=f.where(add.call))
    # position list D
    ds, de = res(rb, "dst_start", R), res(rb, "dst_end", R)
    D = None
    if isinstance(ds, ast.Subscript) and isinstance(de, ast.Subscript) and key(ds.value) == key(de.value):
        D = ds.value
        i0, i1 = ds.slice, de.slice
        ok_idx = isinstance(i0, ast.Constant) and i0.value == 0 and isinstance(i1, ast.UnaryOp) and isinstance(i1.op, ast.USub) and isinstance(i1.operand, ast.Constant) and i1.operand.value == 1
    else:
        ok_idx = False
        # min()/max() of the position list is an equivalent spelling
        if isinstance(ds, ast.Call) and isinstance(de, ast.Call) and call_fname(ds) == "min" and call_fname(de) == "max" and ds.args and de.args and _akey(ds.args[0]) == _akey(de.args[0]):
            D = _beta(ds.args[0])
            ok_idx = True
    if D is None:
        ctx.rep.inconclusive(rule, f"{cbase}/range", f"destination range `{show(ds)[:50]}`..`{show(de)[:50]}` is not first/last of one position list", where=w)
        return
    inner, wrappers = _peel(D)
    pos_ok = False
    dedup = [x for x in wrappers if x in ("set", "frozenset", "unique", "fromkeys", "dict")]
    if is_sym(inner, "comp") and len(inner.args) == 3 and isinstance(inner.args[0], ast.Constant) and inner.args[0].value in ("ListComp", "GeneratorExp", "SetComp"):
        if inner.args[0].value == "SetComp":
            dedup.append("set-comprehension")
        elt, gen = inner.args[1], inner.args[2]
        if is_sym(gen, "gen") and len(gen.args) == 1 and isinstance(elt, ast.Call) and isinstance(elt.func, ast.Attribute) and elt.func.attr == "_get_well_position" and len(elt.args) == 2:
            we = elem_parts(elt.args[1])
            # for first/last a de-duplicated or re-ordered copy of the wells is as good as the wells themselves
            pos_ok = is_name(elt.args[0], "destination") and we is not None and same_seq(_peel(we[1])[0], aw) and same_seq(_peel(gen.args[0])[0], aw)
        elif is_sym(gen, "gen") and len(gen.args) > 1:
            dedup.append("if-filter")
    elif is_sym(inner, "mut") and isinstance(inner.args[0], ast.Constant):
        # positions = []; for w in destination_wells: positions.append(self._get_well_position(destination, w))
        lname = inner.args[0].value
        apps_ = [cs for cs in fv.calls() if isinstance(cs.call.func, ast.Attribute) and cs.call.func.attr in ("append", "extend", "insert", "remove", "pop") and is_name(cs.call.func.value, lname)]
        if len(apps_) == 1 and apps_[0].call.func.attr == "append" and len(apps_[0].call.args) == 1:
            a_ = apps_[0]
            lps = [h for h in fv.cfg.enclosing_loops(a_.node) if fv.cfg.nodes[h].kind == "for"]
            elt = fv.res.resolve(a_.call.args[0], a_.node)
            if len(lps) == 1 and not fv.cfg.loop_has_break.get(lps[0]) and not fv.controlling(a_.node, within=fv.cfg.loop_body[lps[0]]) \
                    and isinstance(elt, ast.Call) and isinstance(elt.func, ast.Attribute) and elt.func.attr == "_get_well_position" and len(elt.args) == 2:
                we = elem_parts(elt.args[1])
                pos_ok = is_name(elt.args[0], "destination") and we is not None and we[0] == f"loop@{lps[0]}" and same_seq(we[1], aw)
            elif len(lps) == 1 and fv.controlling(a_.node, within=fv.cfg.loop_body[lps[0]]):
                dedup.append("if-filter")
    sorted_ok = "sorted" in wrappers or ok_idx and call_fname(ds) == "min"
    ctx.rep.check(pos_ok and ok_idx and sorted_ok, rule, f"{cbase}/range", "dst_start/dst_end are first/last of the sorted device positions of all destination wells",
                  f"destination range is derived from `{show(D)[:100]}`: not the sorted device positions of every destination well", where=w)
    # exclusion set
    ex = res(rb, "exclude_wells", R)
    ok_ex = False
    if isinstance(ex, ast.Call) and isinstance(ex.func, ast.Attribute) and ex.func.attr == "difference" and len(ex.args) == 1:
        rng = ex.func.value
        if isinstance(rng, ast.Call) and call_fname(rng) == "set" and rng.args and isinstance(rng.args[0], ast.Call) and call_fname(rng.args[0]) == "range":
            ra = rng.args[0].args
            ok_ex = len(ra) == 2 and same(ra[0], ds) and to_poly(ra[1]) == to_poly(de) + Poly.const(1) and same(ex.args[0], D)
    why = f"exclusion set `{show(ex)[:100] if ex is not None else None}` is not range(dst_start, dst_end + 1) minus the destination positions"
    if not ok_ex and ex is not None and is_sym(ex, "comp") and len(ex.args) == 3 and is_sym(ex.args[2], "gen"):
        elt_, conds = ex.args[1], list(ex.args[2].args[1:])
        src_ = ex.args[2].args[0]
        atoms_ = []
        for c_ in conds:
            atoms_ += c_.values if isinstance(c_, ast.BoolOp) and isinstance(c_.op, ast.And) else [c_]
        members = []
        for a_ in atoms_:
            neg = False
            while isinstance(a_, ast.UnaryOp) and isinstance(a_.op, ast.Not):
                a_, neg = a_.operand, not neg
            if isinstance(a_, ast.Compare) and len(a_.ops) == 1 and isinstance(a_.ops[0], (ast.In, ast.NotIn)):
                members.append((a_.left, a_.comparators[0], neg != isinstance(a_.ops[0], ast.NotIn)))
        rng_src = isinstance(src_, ast.Call) and call_fname(src_) == "range" and len(src_.args) == 2 and same(src_.args[0], ds) and to_poly(src_.args[1]) == to_poly(de) + Poly.const(1)
        if rng_src and len(atoms_) == 1 and len(members) == 1 and members[0][2] and _akey(members[0][0]) == _akey(elt_) and _akey(_peel(_beta(members[0][1]))[0]) == _akey(_peel(D)[0]):
            ok_ex = True  # {p for p in range(dst_start, dst_end + 1) if p not in <positions>}
        else:
            for left, coll, excluded_if_absent in members:
                if excluded_if_absent and _akey(left) != _akey(elt_) and any(isinstance(x, ast.Name) and x.id == "destination_wells" for x in ast.walk(coll)):
                    why = (f"a well number is excluded when some well with that number is not selected (`{show(left)[:40]}` is tested against the selected well IDs), "
                           "not when no selected well has it: wells that share a number (the rows of a trough on the Fluent) exclude a number that was selected")
    ctx.rep.check(ok_ex, rule, f"{cbase}/exclusions", "excluded wells = range(dst_start, dst_end+1) minus the destination positions", why, where=w)
    # amount removed from the source = volume * number of destination occurrences
    amount = res(mb, "volumes", rem)
    lenD = ast.Call(func=ast.Name(id="len", ctx=ast.Load()), args=[D], keywords=[])
    lenW = ast.Call(func=ast.Name(id="len", ctx=ast.Load()), args=[aw], keywords=[])
    ap = to_poly(amount)
    vsym = Poly.symbol(ast.Name(id="volume", ctx=ast.Load()))
    from .common import flatten_orders

    # len() of the booked wells counts wells only if that sequence is flat; for a 2-D block it counts rows
    flatW = bool(flatten_orders(aw))
    ok_amt = ap == vsym * Poly.symbol(lenD) or (ap == vsym * Poly.symbol(lenW) and flatW)
    if ap == vsym * Poly.symbol(lenW) and not flatW:
        ctx.rep.refuted(rule, f"{cbase}/amount-2d", f"the amount removed from the source is volume * len(`{show(aw)[:50]}`), and that sequence is not flattened: for a 2-D block of destination wells "
                        "len() is the number of rows, so less is removed from the source than is added to the destinations", where=f.where(rem.call))
    counted_dedup = bool(dedup) and ap == vsym * Poly.symbol(lenD)
    ctx.rep.check(not counted_dedup, rule, f"{cbase}/occurrences", "destination occurrences are not de-duplicated before counting",
                  f"the destination position list is de-duplicated/filtered ({dedup}) before it is counted: repeated wells are charged on the destination but not on the source", where=w)
    ctx.rep.check(ok_amt, rule, f"{cbase}/amount", "removed amount = volume * len(destination positions)",
                  f"amount removed from the source is `{ap.pretty()[:120]}`; expected volume * (number of destination wells)", where=f.where(rem.call))
    # source well / column
    sw = res(mb, "wells", rem)
    src_start, src_end = res(rb, "src_start", R), res(rb, "src_end", R)
    col = ast.Name(id="source_column", ctx=ast.Load())
    nrows = ast.Attribute(value=ast.Name(id="source", ctx=ast.Load()), attr="n_rows", ctx=ast.Load())
    ok_sw = isinstance(sw, ast.Subscript) and attr_of_name(sw.value, "source", "wells") and isinstance(sw.slice, ast.Tuple) and len(sw.slice.elts) == 2 and is_name(sw.slice.elts[1], "source_column") \
        and isinstance(sw.slice.elts[0], ast.Constant) and sw.slice.elts[0].value == 0
    ctx.rep.check(ok_sw, rule, f"{cbase}/source-well", "liquid is removed from source.wells[0, source_column]",
                  f"liquid is removed from `{show(sw)[:80]}`: not the real well of the requested source column", where=f.where(rem.call))
    ok_ss = to_poly(src_start) == Poly.const(1) + Poly.symbol(nrows) * Poly.symbol(col)
    ok_se = to_poly(src_end) - to_poly(src_start) == Poly.symbol(nrows) - Poly.const(1)
    ctx.rep.check(ok_ss and ok_se, rule, f"{cbase}/source-range", "source range = the whole requested column (1 + n_rows*column .. + n_rows - 1)",
                  f"source range `{to_poly(src_start).pretty()}`..`{to_poly(src_end).pretty()}` is not the whole column `source_column` of the source", where=w)
    # compositions
    comp = res(ab, "compositions", add)
    ok_c = False
    if isinstance(comp, ast.BinOp) and isinstance(comp.op, ast.Mult) and isinstance(comp.left, ast.List) and len(comp.left.elts) == 1:
        x = comp.left.elts[0]
        n = comp.right
        if isinstance(x, ast.Call) and isinstance(x.func, ast.Attribute) and x.func.attr == "get_well_composition" and is_name(x.func.value, "source") and len(x.args) == 1:
            ok_c = same(x.args[0], sw) and (to_poly(n) == Poly.symbol(lenD) or (to_poly(n) == Poly.symbol(lenW) and flatW))
    ctx.rep.check(ok_c, rule, f"{cbase}/composition", "every destination receives the composition of the source column",
                  f"compositions `{show(comp)[:100] if comp is not None else None}` is not [source.get_well_composition(<source well>)] * (number of destinations)", where=f.where(add.call))


def _akey(t: ast.AST) -> str:
    """key() modulo the identity of comprehension variables (numbered in order of first occurrence)"""
    import re

    names = {}
    return re.sub(r"comp@\d+:\d+#\d+", lambda m: names.setdefault(m.group(0), f"comp#{len(names)}"), key(t))


def _beta(t: ast.AST) -> ast.AST:
    """{k: v(k) for k in S}[x]  ->  v(x)   (a lookup in a freshly built table is the table's value expression; a missing
    key raises and is no result at all)"""
    import copy

    def rebuild(n):
        if isinstance(n, list):
            return [rebuild(x) for x in n]
        if not isinstance(n, ast.AST):
            return n
        if isinstance(n, ast.Subscript) and is_sym(n.value, "comp") and len(n.value.args) == 4 and isinstance(n.value.args[0], ast.Constant) and n.value.args[0].value == "DictComp":
            k_, v_ = n.value.args[1], n.value.args[2]
            kk = key(k_)
            x = rebuild(n.slice)

            def subst(m):
                if isinstance(m, list):
                    return [subst(y) for y in m]
                if not isinstance(m, ast.AST):
                    return m
                if key(m) == kk:
                    return x
                return type(m)(**{f: subst(getattr(m, f, None)) for f in m._fields})

            return subst(rebuild(v_))
        return type(n)(**{f: rebuild(getattr(n, f, None)) for f in n._fields})

    return rebuild(t)


def _peel(t: ast.AST):
    """Strip list()/sorted()/tuple()/set()... wrappers: returns (inner, [wrapper names outermost first])."""
    names = []
    while isinstance(t, ast.Call) and not is_sym(t) and call_fname(t) in ("list", "sorted", "tuple", "set", "frozenset", "unique", "fromkeys", "dict", "array") and t.args:
        names.append(call_fname(t))
        t = t.args[-1] if call_fname(t) == "fromkeys" else t.args[0]
    return t, names
