"""C02 - volume limits are enforced on every tracked operation.

Decided: who-may-write the volume array, guard dominance with canonical value equality for every
write, NaN-rejecting non-negativity of the added/removed amounts, constructor guards, no handler
that swallows a volume violation, every worklist path funnels through add/remove.
"""
from __future__ import annotations

import ast

from ..canon import Cmp, Poly, nan_rejecting, to_cmp, to_poly
from ..defuse import is_sym, key, show, strip_norm
from ..engine import Effect, own_walk
from ..model import AnalysisInconclusive
from . import labware_loop as LL
from .common import attr_of_name, call_fname, elem_parts, guard_raises, raise_class, same_seq, stmt_key

EXPLANATION = (
    "C02: ownership + guard dominance. Every store into Labware._volumes is enumerated from the tree; each must sit in "
    "Labware.__init__/add/remove, be a single-element store, and be dominated by a raising guard whose canonical "
    "comparison is exactly (value left in the element) > self.max_volume resp. < self.min_volume; the amounts are "
    "established non-negative by a NaN-rejecting check; no except-handler can swallow a VolumeViolationException on "
    "a path that writes volumes; no alias of the live array escapes. Numeric results are not computed."
)
ASSUMPTIONS = ["IEEE comparison semantics: a guard that compares exactly the stored value decides the post-state"]

ALLOWED_WRITERS = {
    "Labware.__init__": "initialisation from the validated initial_volumes (guards checked by C02.ctor)",
    "Labware.add": "guarded element update (C02.guard-add)",
    "Labware.remove": "guarded element update (C02.guard-remove)",
}

FIXTURE = '''
class Labware:
    def add(self, wells, volumes): ...
def fast_path(labware, idx, volume):
    labware._volumes[idx] += volume
'''


def run(ctx) -> None:
    ctx.guard("C02.owner", owner)
    ctx.guard("C02.alias", alias)
    ctx.guard("C02.reflection", reflection)
    for kind in ("add", "remove"):
        ctx.guard(f"C02.guard-{kind}", guard, kind)
        ctx.guard("C02.nonneg", nonneg, kind)
        ctx.guard("C02.prelimit", prelimit, kind)
    # the limit comparison is reached for every occurrence of every addressed well: an iteration that is skipped (a zero volume
    # taken as "nothing to do") returns normally although the well is outside its limits
    from . import c04 as _c04

    for kind in ("add", "remove"):
        ctx.reuse(f"C02.guard-{kind}", _c04.once, kind)
    from . import objmodel

    ctx.guard("C02.ctor", objmodel.labware_model, "C02.ctor")
    ctx.guard("C02.ctor", ctor)
    # a refusal raised inside a `with` block reaches the caller: __exit__ returns nothing truthy
    from . import c03 as _c03

    ctx.reuse("C02.no-swallow", _c03.exit_saves, "C03.exit")
    ctx.guard("C02.no-swallow", no_swallow)
    ctx.guard("C02.funnel", funnel)
    from . import c03

    ctx.reuse("C02.funnel", c03.check_before_emit)
    # the EVO script commands book exactly the requested wells/volumes (not a rounded or re-derived copy): the limits are
    # checked against what the command pipettes
    from . import c13

    for name_, track_ in (("evo_aspirate", "remove"), ("evo_dispense", "add")):
        ctx.reuse("C02.funnel", c13.same_args, name_, track_)
    # the worklist methods hand the labware the full requested amounts (every well, unfiltered volumes)
    from . import c01
    from .common import concrete_devices

    for dev in concrete_devices(ctx):
        for meth, track, kind_ in (("aspirate", "remove", "A"), ("dispense", "add", "D")):
            ctx.reuse("C02.funnel", c01.pair_ad, dev, meth, track, kind_)
    ctx.reuse("C02.funnel", c01.pair_distribute, "C01.pair-distribute")
    ctx.guard("C02.exception-total", exception_total)
    ctx.guard("C02.exception-total", global_fp_state)
    # the limits themselves are numbers that comparisons can work with (a NaN limit defeats every later check)
    from . import c20

    ctx.reuse("C02.ctor", c20.guard_table)


# ----------------------------------------------------------------------------- owner
def _writers(ctx, prog=None):
    prog = prog or ctx.prog
    out = []
    for f in prog.all_functions():
        fv = ctx.E.fv(f) if prog is ctx.prog else None
        if fv is None:
            from ..engine import FV

            fv = FV(prog, f)
        for n in fv.cfg.nodes:
            if any(e.kind == "VOLWRITE" for e in ctx.E.direct(fv, n)):
                out.append((f, n))
    return out


def owner(ctx) -> None:
    rule = "C02.owner"
    writers = _writers(ctx)
    seen = set()
    for f, n in writers:
        ctx.rep.touch(f)
        seen.add(f.short)
        ok = f.short in ALLOWED_WRITERS
        ctx.rep.check(
            ok, rule, f"{f.qualname}/{stmt_key(n.ast)}",
            f"allowed writer: {ALLOWED_WRITERS.get(f.short, '')}",
            f"{f.short} writes the volume array outside Labware.__init__/add/remove: `{stmt_key(n.ast)}` bypasses the limit checks",
            where=f.where(n.ast),
        )
    # module-level statements writing _volumes
    for m in ctx.prog.modules.values():
        for s in m.tree.body:
            if isinstance(s, (ast.FunctionDef, ast.ClassDef, ast.AsyncFunctionDef)):
                continue
            for sub in ast.walk(s):
                if isinstance(sub, ast.Attribute) and sub.attr == "_volumes" and isinstance(sub.ctx, (ast.Store, ast.Del)):
                    ctx.rep.refuted(rule, f"{m.name}/module-level", "module-level store to _volumes", where=f"{m.relpath}:{s.lineno}")
    ctx.rep.floor(rule, "volume-array write sites", len(writers), 3)
    for need in ("Labware.add", "Labware.remove", "Labware.__init__"):
        if need not in seen:
            ctx.rep.inconclusive(rule, need, f"expected writer {need} not found (renamed?)")
    # positive fixture for the zero-count part of the rule
    import tempfile, os, shutil

    d = tempfile.mkdtemp(prefix="verif-sa-fx-")
    try:
        os.makedirs(os.path.join(d, "robotools"))
        with open(os.path.join(d, "robotools", "fx.py"), "w") as fh:
            fh.write(FIXTURE)
        from ..model import Program
        from ..engine import Effects, FV

        p2 = Program(d)
        E2 = Effects(p2)
        hits = [f.short for f in p2.all_functions() for n in E2.fv(f).cfg.nodes if any(e.kind == "VOLWRITE" for e in E2.direct(E2.fv(f), n))]
        if "fast_path" not in hits:
            ctx.rep.inconclusive(rule, "fixture", "embedded positive fixture (foreign writer) was not detected: rule is broken")
        else:
            ctx.rep.holds(rule, "fixture/foreign-writer-detected", "embedded fixture with a foreign writer is reported")
    finally:
        shutil.rmtree(d, ignore_errors=True)


def alias(ctx) -> None:
    """No function hands out the live array (return / store elsewhere / append) without copying."""
    rule = "C02.alias"
    count = 0
    for f in ctx.prog.all_functions():
        for s in own_walk(f.node):
            uses = []
            if isinstance(s, ast.Return) and s.value is not None:
                uses.append(("return", s.value))
            elif isinstance(s, ast.Assign):
                for t in s.targets:
                    if not LL._rooted_at_volumes(t):
                        uses.append(("assign", s.value))
            elif isinstance(s, ast.Call) and isinstance(s.func, ast.Attribute) and s.func.attr in ("append", "extend", "insert"):
                uses += [("append", a) for a in s.args]
            for how, v in uses:
                if isinstance(v, ast.Name):
                    try:
                        v = ctx.fv(f).res.resolve(v, ctx.fv(f).node_of(v))
                    except Exception:
                        pass
                if isinstance(v, ast.Attribute) and v.attr == "_volumes":
                    count += 1
                    ctx.rep.touch(f)
                    ctx.rep.refuted(rule, f"{f.qualname}/{how}", f"`{stmt_key(s)}` hands out the live volume array (no copy): callers can change volumes without any limit check", where=f.where(s))
    lab = ctx.prog.require_class("Labware", rule)
    vol = lab.methods.get("volumes")
    if vol is None:
        ctx.rep.inconclusive(rule, "Labware.volumes", "property not found")
        return
    ctx.rep.touch(vol)
    rets = [t for n, t in ctx.fv(vol).returns()]
    ok = bool(rets) and all(_is_copy(r) for r in rets)
    ctx.rep.check(ok, rule, f"{vol.qualname}/return", "volumes returns a copy", "Labware.volumes does not return a copy of the array", where=vol.where())


def is_name_(e, name):
    return isinstance(e, ast.Name) and e.id == name


def _is_copy(e: ast.AST) -> bool:
    if isinstance(e, ast.Call):
        fn = call_fname(e)
        if fn in ("copy", "array", "astype", "deepcopy"):
            if fn == "astype" and any(kw.arg == "copy" and isinstance(kw.value, ast.Constant) and kw.value.value is False for kw in e.keywords):
                return False
            if fn == "array" and any(kw.arg == "copy" and isinstance(kw.value, ast.Constant) and kw.value.value is False for kw in e.keywords):
                return False
            return True
    if isinstance(e, ast.BinOp):
        return True
    return False


def reflection(ctx) -> None:
    rule = "C02.reflection"
    bad = {"setattr", "exec", "eval", "vars", "__setattr__", "__dict__", "delattr"}
    n = 0
    PROTOCOL = ("__copy__", "__deepcopy__", "__getstate__", "__setstate__", "__reduce__", "__reduce_ex__")
    for m in ctx.prog.modules.values():
        # whole-object copies in the copy / pickle protocol methods do not write single attributes: rules/objmodel.py judges them
        exempt = {id(x) for fn_ in ast.walk(m.tree) if isinstance(fn_, ast.FunctionDef) and fn_.name in PROTOCOL for x in ast.walk(fn_)}
        for sub in ast.walk(m.tree):
            name = None
            if id(sub) in exempt and not (isinstance(sub, ast.Call) and isinstance(sub.func, ast.Name) and sub.func.id in ("exec", "eval")):
                continue
            if isinstance(sub, ast.Call) and isinstance(sub.func, ast.Name) and sub.func.id in bad:
                name = sub.func.id
            elif isinstance(sub, ast.Attribute) and sub.attr in bad:
                name = sub.attr
            if name:
                n += 1
                ctx.rep.refuted(rule, f"{m.name}/{name}", f"reflective state access `{name}` defeats the who-may-write analysis", where=f"{m.relpath}:{sub.lineno}")
    if n == 0:
        ctx.rep.holds(rule, "package", f"no setattr/exec/eval/vars/__dict__ in {len(ctx.prog.modules)} modules")


# ----------------------------------------------------------------------------- guards
def guard(ctx, kind: str) -> None:
    rule = f"C02.guard-{kind}"
    f = ctx.prog.require_func(f"Labware.{kind}", rule)
    fv = ctx.fv(f)
    stores = LL.analyse_stores(ctx, fv)
    ctx.rep.floor(rule, f"volume stores in Labware.{kind}", len(stores), 1)
    want_exc = "VolumeOverflowError" if kind == "add" else "VolumeUnderflowError"
    for st in stores:
        c = f"{f.qualname}/{stmt_key(st.stmt)}"
        w = f.where(st.stmt)
        if not st.element_store:
            ctx.rep.refuted(rule, c, f"{st.why_not_element}: cannot be covered by a per-element limit guard", where=w)
            continue
        if st.new_poly is None:
            ctx.rep.inconclusive(rule, c, "stored value is outside the polynomial fragment", where=w)
            continue
        if st.stale_writes:
            ctx.rep.refuted(rule, c, "another write of the volume array precedes this store in the same iteration: the guarded value is stale", where=w)
            continue
        g = LL.limit_guard(ctx, fv, st, kind)
        if g["status"] == "missing":
            ctx.rep.refuted(rule, c, f"no dominating limit guard: expected a raising check canonically equal to `{g['expected']}` before `{stmt_key(st.stmt)}`", where=w)
            continue
        if g["status"] == "different":
            ctx.rep.refuted(
                rule, c,
                f"dominating guard `{stmt_key(g['atom'])}` has canonical form `{g['canon']}` but the value written requires `{g['expected']}` "
                "(wrong strictness, wrong limit, or not the value that is stored)", where=w, canon=g["canon"], expected=g["expected"])
            continue
        if g["status"] == "inexact":
            ctx.rep.refuted(
                rule, c,
                f"dominating guard `{stmt_key(g['atom'])}` is algebraically `{g['canon']}` but does not compare the stored value itself with self.{'max' if kind == 'add' else 'min'}_volume: "
                "it is a different floating-point computation, so a result one ulp beyond the limit can pass the guard and be stored", where=w, canon=g["canon"])
            continue
        # the other outcome of that branch must raise the right exception
        gr = guard_raises(fv, g["branch"], g["polarity"])
        if gr is None:
            ctx.rep.refuted(rule, c, f"the limit comparison `{stmt_key(g['atom'])}` does not raise on violation", where=w)
            continue
        _, cls, mro = gr
        if "VolumeViolationException" not in mro or cls != want_exc:
            ctx.rep.refuted(rule, c, f"limit violation raises {cls} (MRO {mro}); the property requires {want_exc} (a VolumeViolationException)", where=w)
            continue
        # nothing may write between guard and store
        blocked = {st.loop_head} if st.loop_head is not None else set()
        mid = fv.cfg.between(g["branch"], st.node, blocked)
        writes = [x for x in LL.volwrite_nodes(ctx, fv) if x in mid]
        if writes:
            ctx.rep.refuted(rule, c, "a volume write sits between the limit guard and the guarded store", where=w)
            continue
        ctx.rep.holds(rule, c, f"guard `{g['canon']}` dominates the store and raises {cls}", where=w, canon=g["canon"])


def nonneg(ctx, kind: str) -> None:
    rule = "C02.nonneg"
    f = ctx.prog.require_func(f"Labware.{kind}", rule)
    fv = ctx.fv(f)
    for st in LL.analyse_stores(ctx, fv):
        if not st.element_store or st.delta is None or st.loop_head is None:
            continue
        c = f"{f.qualname}/{stmt_key(st.stmt)}"
        w = f.where(st.stmt)
        # which sequence feeds the delta?
        seqs = LL.loop_sequences(fv, st.loop_head)
        vol_seq = None
        for sq in seqs:
            for symk in st.delta.symbols():
                if symk == key(_elem(st.loop_head, sq)):
                    vol_seq = sq
        if vol_seq is None:
            ctx.rep.inconclusive(rule, c, "cannot identify the sequence that supplies the added/removed amount", where=w)
            continue
        verdict, detail = _nonneg_fact(fv, st.node, vol_seq)
        ctx.rep.check(verdict, rule, c, detail, detail, where=w)


def _vol_seq(fv, st):
    for sq in LL.loop_sequences(fv, st.loop_head):
        if key(_elem(st.loop_head, sq)) in st.delta.symbols():
            return sq
    return None


def prelimit(ctx, kind: str) -> None:
    """Before the limit comparison no other check may turn away an amount that the property's domain contains
    (any value >= 0 up to +inf): such an amount has to end in VolumeOverflowError / VolumeUnderflowError."""
    rule = "C02.prelimit"
    from ..guards import raising_terms

    f = ctx.prog.require_func(f"Labware.{kind}", rule)
    fv = ctx.fv(f)
    X = ast.Name(id="§x", ctx=ast.Load())
    kx = key(X)
    for st in LL.analyse_stores(ctx, fv):
        if not st.element_store or st.delta is None or st.loop_head is None:
            continue
        vol_seq = _vol_seq(fv, st)
        if vol_seq is None:
            continue
        base = strip_norm(vol_seq)
        elem_k = key(_elem(st.loop_head, vol_seq))
        n_terms = 0

        def mentions(e):
            # occurrences of the amounts outside len(...)
            class V(ast.NodeVisitor):
                hit = False

                def visit_Call(self, c):
                    if call_fname(c) in ("len", "shape", "size", "ndim"):
                        return
                    self.generic_visit(c)

                def visit_Attribute(self, a):
                    if a.attr in ("shape", "size", "ndim"):
                        return
                    self.generic_visit(a)

                def generic_visit(self, n):
                    if key(n) == key(base) or key(n) == elem_k:
                        self.hit = True
                        return
                    super().generic_visit(n)

            v = V()
            v.visit(e)
            return v.hit

        def classify(c: Cmp):
            """c: the per-element condition under which the check raises.  -> ('ok'|'bad'|'unknown', why)"""
            if c is None or c.rel in ("==", "!="):
                return "unknown", "not an ordering comparison"
            lin = c.poly.terms.get((kx,))
            if lin is None or any(kx in m and m != (kx,) for m in c.poly.terms):
                return "unknown", "not linear in the amount"
            rest = Poly({m: v for m, v in c.poly.terms.items() if m != (kx,)}, c.poly.names)
            if lin < 0:
                if rest.is_zero():
                    return ("ok", "rejects negative amounts only") if c.rel == ">" else ("bad", "rejects the amount 0, which the property allows")
                if rest.is_const():
                    return ("ok", "rejects negative amounts only") if rest.const_value() < 0 else ("bad", f"rejects valid amounts below {rest.pretty()}")
                return "unknown", f"lower bound `{rest.pretty()}` on the amount"
            return "bad", f"turns away every amount above `{(-rest).pretty() if not rest.is_zero() else '0'}` with its own exception, so huge amounts never reach the limit comparison"

        for term, n, cls in raising_terms(fv, st.node):
            if cls.startswith("Volume"):
                continue
            for a in term:
                if not mentions(a.expr):
                    continue
                n_terms += 1
                c_id = f"{f.qualname}/{stmt_key(n.ast)[:60]}"
                w = f.where(n.ast)
                verdict, why = "unknown", "unrecognised form"
                if a.kind == "agg":
                    inner = a.inner_expr
                    raises_if_some = (a.agg == "any" and a.pol) or (a.agg == "all" and not a.pol)
                    if not raises_if_some:
                        verdict, why = "bad", "rejects unless some/all amounts satisfy a condition"
                    elif isinstance(inner, ast.Compare) and len(inner.ops) == 1 and (same_seq(inner.left, vol_seq) or same_seq(inner.comparators[0], vol_seq)):
                        cm = to_cmp(_scalarise(inner, vol_seq), a.agg == "any")
                        verdict, why = classify(cm)
                    elif isinstance(inner, ast.Call) and call_fname(inner) in ("isfinite", "isinf", "isnan", "isneginf", "isposinf") and inner.args and same_seq(inner.args[0], vol_seq):
                        fn = call_fname(inner)
                        if (fn, a.agg) in (("isnan", "any"), ("isneginf", "any")):
                            verdict, why = "ok", "rejects NaN / -inf only"
                        elif (fn, a.agg) in (("isfinite", "all"), ("isinf", "any"), ("isposinf", "any")):
                            verdict, why = "bad", "rejects +inf amounts, which the property requires to end in the limit violation"
                elif a.kind == "cmp":
                    sub = _replace_key(a.expr, elem_k, X)
                    verdict, why = classify(to_cmp(sub, a.pol))
                msg = f"`{stmt_key(n.ast)[:80]}` ({cls}) {why}"
                if verdict == "ok":
                    ctx.rep.holds(rule, c_id, msg, where=w)
                elif verdict == "bad":
                    ctx.rep.refuted(rule, c_id, msg + f": an amount the well cannot take must raise {'VolumeOverflowError' if kind == 'add' else 'VolumeUnderflowError'}, not {cls}", where=w)
                else:
                    ctx.rep.inconclusive(rule, c_id, msg + ": cannot decide whether valid amounts (>= 0, up to +inf) are turned away before the limit comparison", where=w)
        ctx.rep.floor(rule, f"pre-limit checks on the amounts in Labware.{kind}", n_terms, 1)


def _replace_key(e: ast.AST, k: str, by: ast.AST) -> ast.AST:
    class T(ast.NodeTransformer):
        def generic_visit(self, n):
            if key(n) == k:
                return by
            return super().generic_visit(n)

    import copy

    return T().visit(copy.deepcopy(e))


def _elem(head: int, seq: ast.AST) -> ast.AST:
    from ..defuse import sym

    return sym("elem", ast.Constant(value=f"loop@{head}"), seq)


def _nonneg_fact(fv, at: int, vol_seq: ast.AST):
    """True: a NaN-rejecting `all(V >= 0)` holds; False: only NaN-transparent or no check; None: unknown shape."""
    weak = None
    for r, pol, raw in fv.rfacts_at(at):
        core, p = r, pol
        while isinstance(core, ast.UnaryOp) and isinstance(core.op, ast.Not):
            core, p = core.operand, not p
        # numpy.all(V >= 0) / all(V >= 0) / (V >= 0).all()
        inner = None
        fn = call_fname(core)
        if fn in ("all", "any") and isinstance(core, ast.Call):
            if core.args:
                inner = core.args[0]
            elif isinstance(core.func, ast.Attribute):
                inner = core.func.value
        if inner is None or not (isinstance(inner, ast.Compare) and len(inner.ops) == 1):
            continue
        if not same_seq(inner.left, vol_seq) and not same_seq(inner.comparators[0], vol_seq):
            continue
        c = to_cmp(_scalarise(inner, vol_seq), True)
        if c is None:
            continue
        x = Poly.symbol(ast.Name(id="§x", ctx=ast.Load()))
        ge0 = Cmp(x, ">=")
        lt0 = Cmp(-x, ">")
        if fn == "all" and p and c == ge0:
            return True, f"`{show(raw)}` holds before the write (NaN-rejecting: NaN >= 0 is False)"
        if fn == "any" and not p and c == lt0:
            weak = f"`{show(raw)}` is the only non-negativity check and it is NaN-transparent (NaN < 0 is False): NaN amounts reach the volume array"
        elif fn == "all" and p and c == Cmp(x, ">"):
            weak = f"`{show(raw)}` rejects zero amounts, which the property allows"
    if weak:
        return False, weak
    return False, "no check that the added/removed amounts are >= 0 dominates the volume write (negative amounts would move liquid the wrong way and defeat the limit)"


def _scalarise(cmp: ast.Compare, seq: ast.AST) -> ast.Compare:
    x = ast.Name(id="§x", ctx=ast.Load())
    left = x if same_seq(cmp.left, seq) else cmp.left
    right = x if same_seq(cmp.comparators[0], seq) else cmp.comparators[0]
    return ast.Compare(left=left, ops=cmp.ops, comparators=[right])


# ----------------------------------------------------------------------------- constructor
def ctor(ctx) -> None:
    rule = "C02.ctor"
    f = ctx.prog.require_func("Labware.__init__", rule)
    fv = ctx.fv(f)
    stores = [n for n in fv.cfg.nodes if n.kind == "stmt" and isinstance(n.ast, (ast.Assign, ast.AnnAssign)) and any(
        isinstance(t, ast.Attribute) and t.attr == "_volumes" for t in (n.ast.targets if isinstance(n.ast, ast.Assign) else [n.ast.target]))]
    ctx.rep.floor(rule, "initial volume stores", len(stores), 1)
    for n in stores:
        c = f"{f.qualname}/{stmt_key(n.ast)}"
        w = f.where(n.ast)
        val = fv.res.resolve(n.ast.value, n.id)
        base = strip_norm(val)
        facts = fv.rfacts_at(n.id)
        need = {
            "initial >= 0": False,
            "initial <= max_volume": False,
            "min_volume >= 0": False,
            "max_volume > min_volume": False,
        }
        maxv = ast.Name(id="max_volume", ctx=ast.Load())
        minv = ast.Name(id="min_volume", ctx=ast.Load())
        X = Poly.symbol(ast.Name(id="§x", ctx=ast.Load()))
        for r, pol, raw in facts:
            core, p = r, pol
            while isinstance(core, ast.UnaryOp) and isinstance(core.op, ast.Not):
                core, p = core.operand, not p
            fn = call_fname(core)
            if fn in ("any", "all") and isinstance(core, ast.Call) and core.args and isinstance(core.args[0], ast.Compare) and len(core.args[0].ops) == 1:
                inner = core.args[0]
                if same_seq(inner.left, base) or same_seq(inner.comparators[0], base):
                    cm = to_cmp(_scalarise(inner, base), True)
                    if cm is None:
                        continue
                    if (fn == "any" and not p and cm == Cmp(-X, ">")) or (fn == "all" and p and cm == Cmp(X, ">=")):
                        need["initial >= 0"] = True
                    if (fn == "any" and not p and cm == Cmp(X - to_poly(maxv), ">")) or (fn == "all" and p and cm == Cmp(to_poly(maxv) - X, ">=")):
                        need["initial <= max_volume"] = True
            else:
                cm = to_cmp(core, p)
                if cm is None:
                    continue
                if cm == Cmp(to_poly(minv), ">="):
                    need["min_volume >= 0"] = True
                if cm == Cmp(to_poly(maxv) - to_poly(minv), ">"):
                    need["max_volume > min_volume"] = True
        for what, ok in need.items():
            ctx.rep.check(ok, rule, f"{c}/{what}", f"guard establishing {what} dominates the initial store",
                          f"no raising guard establishing `{what}` dominates `{stmt_key(n.ast)}`", where=w)
        # the stored array must be a copy of the validated one
        ok_copy = _is_copy(n.ast.value) or _is_copy(val)
        ctx.rep.check(ok_copy, rule, f"{c}/copy", "initial array is copied", "the caller's initial_volumes array becomes the live volume buffer (no copy): it can be changed from outside without any check", where=w)
        # the buffer must hold floats: an integer array silently truncates every fractional amount written into it,
        # so the limit comparisons would run on under-counted volumes
        def is_float_type(t_):
            return is_name_(t_, "float") or (isinstance(t_, ast.Attribute) and t_.attr in ("float64", "float_", "double")) or (isinstance(t_, ast.Constant) and t_.value in ("float", "float64", "f8", "d"))

        def floaty(e, depth=0):
            """the array is float on every path: follow the method chain / the alternatives of a conditionally assigned name"""
            if depth > 8:
                return False
            if is_sym(e, "phi"):
                return all(floaty(a_, depth + 1) for a_ in e.args)
            if is_sym(e, "norm"):
                return all(floaty(a_, depth + 1) for a_ in e.args[1:]) if len(e.args) > 1 else False
            if isinstance(e, ast.Call):
                if call_fname(e) == "astype" and e.args and is_float_type(e.args[0]):
                    return True
                if any(k.arg == "dtype" and is_float_type(k.value) for k in e.keywords):
                    return True
                if isinstance(e.func, ast.Attribute) and call_fname(e) in ("copy", "reshape", "flatten", "ravel", "view", "squeeze", "transpose"):
                    return floaty(e.func.value, depth + 1)
                if call_fname(e) in ("array", "asarray", "copy", "reshape", "atleast_1d", "atleast_2d") and e.args and not any(k.arg == "dtype" for k in e.keywords):
                    return floaty(e.args[0], depth + 1)
            return False

        ctx.rep.check(floaty(val), rule, f"{c}/float", "the volume buffer is created as a float array",
                      "the volume buffer keeps the dtype of the caller's initial volumes: integer initial volumes give an integer buffer, which truncates every fractional amount added or removed "
                      "(the limit checks then see under-counted volumes)", where=w)


# ----------------------------------------------------------------------------- no-swallow
def no_swallow(ctx) -> None:
    rule = "C02.no-swallow"
    n_handlers = 0
    for f in ctx.prog.all_functions():
        trys = [s for s in own_walk(f.node) if isinstance(s, ast.Try)]
        if not trys:
            continue
        fv = ctx.fv(f)
        for t in trys:
            for h in t.handlers:
                n_handlers += 1
                catches = _catches_volume_violation(ctx, fv, h)
                if not catches:
                    ctx.rep.holds(rule, f"{f.qualname}/handler:{stmt_key(h.type) if h.type else 'bare'}", "handler cannot catch VolumeViolationException", where=f.where(h))
                    continue
                # does the try body reach a volume write (directly or through calls)?
                writes = False
                raises_vv = False
                for s in t.body:
                    for nid in fv.cfg.stmt_nodes.get(id(s), []) + [fv.cfg.stmt_nodes[id(x)][0] for x in own_walk(s) if isinstance(x, ast.stmt) and id(x) in fv.cfg.stmt_nodes]:
                        effs = ctx.E.node_effects(fv, fv.cfg.nodes[nid])
                        writes |= any(e.kind == "VOLWRITE" for e in effs)
                        raises_vv |= any(e.kind == "RAISE" and e.arg.startswith("Volume") for e in effs)
                if not (writes or raises_vv):
                    ctx.rep.holds(rule, f"{f.qualname}/handler:{stmt_key(h.type) if h.type else 'bare'}", "try body performs no tracked volume operation", where=f.where(h))
                    continue
                # re-raising the same exception (bare `raise`) keeps the contract
                reraises = any(isinstance(x, ast.Raise) and x.exc is None for x in own_walk(h)) or (
                    h.name and any(isinstance(x, ast.Raise) and isinstance(x.exc, ast.Name) and x.exc.id == h.name for x in own_walk(h)))
                always_raises = fv.cfg is not None and _handler_always_raises(fv, h)
                if reraises and always_raises:
                    ctx.rep.holds(rule, f"{f.qualname}/handler", "handler re-raises the caught exception", where=f.where(h))
                else:
                    ctx.rep.refuted(rule, f"{f.qualname}/handler:{stmt_key(h.type) if h.type else 'bare'}",
                                    "an except-handler around a tracked volume operation catches VolumeViolationException and does not re-raise it unchanged: "
                                    "the violation is swallowed or its type (VolumeOverflowError/VolumeUnderflowError) is lost", where=f.where(h))
    # a `finally:` that leaves through return/break/continue discards the in-flight exception; so does contextlib.suppress
    n_finally = 0
    for f in ctx.prog.all_functions():
        for t in [s for s in own_walk(f.node) if isinstance(s, ast.Try) and s.finalbody]:
            n_finally += 1
            jumps = _finally_jumps(t.finalbody)
            if not jumps:
                ctx.rep.holds(rule, f"{f.qualname}/finally", "finally block falls through: an in-flight exception continues to propagate", where=f.where(t))
                continue
            fv = ctx.fv(f)
            if _body_tracks(ctx, fv, t.body):
                ctx.rep.refuted(rule, f"{f.qualname}/finally:{type(jumps[0]).__name__.lower()}",
                                f"`{stmt_key(jumps[0])}` inside a finally block around a tracked volume operation discards the in-flight "
                                "VolumeViolationException: the call returns normally after a rejected operation", where=f.where(jumps[0]))
            else:
                ctx.rep.holds(rule, f"{f.qualname}/finally", "try body performs no tracked volume operation", where=f.where(t))
        for w_ in [s for s in own_walk(f.node) if isinstance(s, (ast.With, ast.AsyncWith))]:
            for item in w_.items:
                e = item.context_expr
                if isinstance(e, ast.Call) and call_fname(e) == "suppress":
                    fv = ctx.fv(f)
                    if _body_tracks(ctx, fv, w_.body):
                        ctx.rep.refuted(rule, f"{f.qualname}/suppress", "contextlib.suppress around a tracked volume operation swallows the violation", where=f.where(w_))
    ctx.rep.notes.append(f"C02.no-swallow: {n_handlers} except-handlers, {n_finally} finally blocks enumerated")
    if n_handlers == 0:
        ctx.rep.holds(rule, "package", "no except-handlers in the package")


def _finally_jumps(body):
    """return / break / continue statements that leave the finally block (break/continue of loops nested inside it do not)."""
    out = []

    def visit(stmts, in_loop):
        for s in stmts:
            if isinstance(s, ast.Return):
                out.append(s)
            elif isinstance(s, (ast.Break, ast.Continue)) and not in_loop:
                out.append(s)
            elif isinstance(s, (ast.FunctionDef, ast.AsyncFunctionDef, ast.ClassDef)):
                continue
            else:
                for fld in ("body", "orelse", "finalbody"):
                    sub = getattr(s, fld, None)
                    if isinstance(sub, list):
                        visit(sub, in_loop or (isinstance(s, (ast.For, ast.While, ast.AsyncFor)) and fld == "body"))
                for h in getattr(s, "handlers", []) or []:
                    visit(h.body, in_loop)
                for c_ in getattr(s, "cases", []) or []:
                    visit(c_.body, in_loop)

    visit(body, False)
    return out


def _body_tracks(ctx, fv, body) -> bool:
    for s in body:
        for x in [s] + [x for x in own_walk(s) if isinstance(x, ast.stmt)]:
            for nid in fv.cfg.stmt_nodes.get(id(x), []):
                effs = ctx.E.node_effects(fv, fv.cfg.nodes[nid])
                if any(e.kind == "VOLWRITE" or (e.kind == "RAISE" and e.arg.startswith("Volume")) for e in effs):
                    return True
    return False


def _handler_always_raises(fv, h: ast.ExceptHandler) -> bool:
    last = h.body[-1] if h.body else None
    return isinstance(last, ast.Raise)


def _catches_volume_violation(ctx, fv, h: ast.ExceptHandler) -> bool:
    if h.type is None:
        return True
    types = h.type.elts if isinstance(h.type, ast.Tuple) else [h.type]
    vv = ctx.prog.class_by_name("VolumeViolationException")
    for t in types:
        r = ctx.prog.resolve_expr_static(fv.f.module, t)
        name = t.attr if isinstance(t, ast.Attribute) else getattr(t, "id", "")
        if name in ("Exception", "BaseException"):
            return True
        from ..model import ClassInfo

        if isinstance(r, ClassInfo) and vv is not None:
            if r is vv or r in ctx.prog.mro(vv) or vv in ctx.prog.mro(r):
                return True
    return False


# ----------------------------------------------------------------------------- exception constructors
def exception_total(ctx) -> None:
    """Raising VolumeOverflowError / VolumeUnderflowError cannot itself fail: their constructors build the message from the
    arguments with f-strings only; `str.format` / `%` applied to a string that contains an argument (the free-text label)
    re-interprets braces / percent signs in it and raises KeyError / IndexError / ValueError instead of the violation."""
    rule = "C02.exception-total"
    vv = ctx.prog.require_class("VolumeViolationException", rule)
    n = 0
    for m in ctx.prog.modules.values():
        for cls in m.classes.values():
            if vv not in ctx.prog.mro(cls):
                continue
            init = cls.methods.get("__init__")
            if init is None:
                continue
            n += 1
            ctx.rep.touch(init)
            fv = ctx.fv(init)
            params = set(init.params[1:])
            bad = None
            for sub_ in own_walk(init.node):
                tmpl = None
                if isinstance(sub_, ast.Call) and isinstance(sub_.func, ast.Attribute) and sub_.func.attr in ("format", "format_map"):
                    tmpl = sub_.func.value
                elif isinstance(sub_, ast.BinOp) and isinstance(sub_.op, ast.Mod) and not isinstance(sub_.left, ast.Constant):
                    tmpl = sub_.left
                if tmpl is None or isinstance(tmpl, ast.Constant):
                    continue
                t = fv.res.resolve(tmpl, fv.node_of(sub_))
                tainted = sorted({x.id for x in ast.walk(t) if isinstance(x, ast.Name) and x.id in params})
                if tainted:
                    bad = (sub_, tainted)
            # conversions that raise for inf / NaN / non-integers: math.ceil(inf) -> OverflowError, int(nan) -> ValueError,
            # f"{x:d}" with a float -> ValueError.  The amounts that violate a limit are exactly the unusual ones.
            partial = None
            for sub_ in own_walk(init.node):
                if isinstance(sub_, ast.Call) and call_fname(sub_) in ("ceil", "floor", "trunc", "int", "round") and sub_.args and not (call_fname(sub_) == "round" and len(sub_.args) > 1) \
                        and not (isinstance(sub_.func, ast.Attribute) and isinstance(sub_.func.value, ast.Name) and sub_.func.value.id in ("np", "numpy")):
                    t = fv.res.resolve(sub_.args[0], fv.node_of(sub_))
                    tainted = sorted({x.id for x in ast.walk(t) if isinstance(x, ast.Name) and x.id in params})
                    if tainted:
                        partial = (sub_, f"`{stmt_key(sub_)[:50]}` raises OverflowError / ValueError when {tainted[0]} is infinite or NaN")
                if isinstance(sub_, ast.FormattedValue) and sub_.format_spec is not None:
                    spec = "".join(v_.value for v_ in sub_.format_spec.values if isinstance(v_, ast.Constant) and isinstance(v_.value, str))
                    if spec.endswith(("d", "x", "b", "o", "c", "n")):
                        tainted = sorted({x.id for x in ast.walk(sub_.value) if isinstance(x, ast.Name) and x.id in params})
                        if tainted:
                            partial = (sub_, f"the integer format `:{spec}` raises ValueError when {tainted[0]} is not an int")
            c = f"{cls.name}.__init__"
            if partial and not bad:
                ctx.rep.refuted(rule, c, f"{partial[1]}: the constructor fails while the violation is being reported, so the operation ends with that error instead of {cls.name}", where=init.where(partial[0]))
                continue
            if bad:
                ctx.rep.refuted(rule, c, f"`{stmt_key(bad[0])[:70]}` formats a template that already contains the argument(s) {bad[1]}: braces/percent signs in that text (e.g. a label "
                                f"like 'dilution {{1:10}}') make the constructor raise KeyError/IndexError, so the operation fails with that instead of {cls.name}", where=init.where(bad[0]))
            else:
                ctx.rep.holds(rule, c, "message is built without re-formatting argument text", where=init.where())
    ctx.rep.floor(rule, "constructors of volume-violation exceptions", n, 1)


# ----------------------------------------------------------------------------- funnel
def funnel(ctx) -> None:
    """Every function that emits pipetting records and takes a Labware performs the tracking through add/remove."""
    rule = "C02.funnel"
    lab = ctx.prog.require_class("Labware", rule)
    pip = {"A", "D", "R", "B;Aspirate", "B;Dispense"}
    count = 0
    from .common import concrete_devices

    for dev in concrete_devices(ctx):
        for name in sorted({m for k in ctx.prog.mro(dev) if hasattr(k, "methods") for m in k.methods}):
            f = ctx.prog.find_method(dev, name)
            if f is None or name.startswith("__") or f.qualname in ctx.prog.inlined_helpers:
                continue
            env = ctx.prog.local_types(f, dev)
            lab_params = [p for p, c in env.items() if c is lab or lab in ctx.prog.mro(c)]
            if not lab_params:
                continue
            effs = ctx.E.summary(f, dev)
            if not any(e.kind == "EMIT" and e.arg in pip for e in effs):
                continue
            fv = ctx.fv(f, dev)
            tracked = [c for c in fv.calls() if c.callee.kind == "func" and c.callee.func.short in ("Labware.add", "Labware.remove")]
            via = [c for c in fv.calls() if c.callee.kind == "func" and c.callee.func.cls is not None and c.callee.func.cls in ctx.prog.mro(dev)
                   and any(e.kind == "VOLWRITE" for e in ctx.E.summary(c.callee.func, dev))]
            count += 1
            ok = bool(tracked or via)
            ctx.rep.check(ok, rule, f"{dev.name}.{name}", f"{len(tracked)} direct add/remove calls, {len(via)} via worklist methods",
                          f"{dev.name}.{name} emits pipetting records for a Labware but never reaches Labware.add/remove: no limit is enforced", where=f.where())
    ctx.rep.floor(rule, "pipetting worklist methods with a Labware parameter", count, 8)


def global_fp_state(ctx) -> None:
    """Nothing in the package changes numpy's / Python's global floating-point or warning behaviour: with `numpy.seterr(all="raise")`
    (or warnings turned into errors) the arithmetic in front of a limit guard - `v_original + volume` overflowing to inf - raises
    FloatingPointError / a Warning instead of reaching the guard that raises the Volume...Error."""
    rule = "C02.exception-total"
    hits = []
    n = 0
    for m in ctx.prog.modules.values():
        for sub in ast.walk(m.tree):
            n += 1
            if isinstance(sub, ast.Call):
                txt = show(sub.func)
                if txt.split(".")[-1] in ("seterr", "seterrcall", "simplefilter", "filterwarnings") or txt.endswith("errstate"):
                    args = [a.value for a in sub.args if isinstance(a, ast.Constant)] + [k.value.value for k in sub.keywords if isinstance(k.value, ast.Constant)]
                    if txt.split(".")[-1] in ("simplefilter", "filterwarnings") and "error" not in args:
                        continue
                    hits.append((m, sub))
    for m, sub in hits:
        ctx.rep.refuted(rule, f"{m.name}/{show(sub)[:40]}", f"`{show(sub)[:60]}` changes the global floating-point / warning state: arithmetic that precedes a limit guard (an addition overflowing to inf, 0/0) "
                        "raises FloatingPointError or a Warning instead of the VolumeOverflowError / VolumeUnderflowError the guard would give", where=f"{m.relpath}:{getattr(sub, 'lineno', 0)}")
    if not hits:
        ctx.rep.holds(rule, "package/no-global-fp-state", "no call of numpy.seterr / errstate / warnings filters that turn warnings into errors anywhere in the package")
