"""C15 - well transforms are exact inverses and geometrically correct."""
from __future__ import annotations

import ast
from typing import Dict, List, Optional, Tuple

from ..canon import Cmp, Poly, to_cmp, to_poly
from ..defuse import is_sym, key, show, strip_norm
from ..engine import own_walk, return_exprs
from ..model import AnalysisInconclusive
from .common import attr_of_name, call_fname, is_name, raise_class, stmt_key

EXPLANATION = (
    "C15: the index maps of shift/unshift/rotate_cw/rotate_ccw are read off the loop bodies as polynomials in (r, c, dr, "
    "dc, R, C) and compared with the formulas of the property; inverse laws (unshift o shift, ccw' o cw, cw^4) are "
    "established by polynomial substitution; the fit guards are canonical (shape_A + offset > shape_B raises) and lie "
    "on every path of the constructor; all six public transforms convert to an array, map the flattened elements and "
    "reshape to the input's shape; WellRandomizer draws only from RandomState(<the seed>) and builds the reverse "
    "lookup as the comprehension inverse. That RandomState.permutation is a permutation is assumed."
)
ASSUMPTIONS = ["numpy.random.RandomState(seed).permutation returns a permutation fully determined by the seed"]

S = {n: Poly.symbol(ast.Name(id=n, ctx=ast.Load())) for n in ("r", "c", "dr", "dc", "R", "C")}

SPEC = {
    "WellShifter.shift": ("indices_A", "wells_B", (S["r"] + S["dr"], S["c"] + S["dc"]), "(r + dr, c + dc)"),
    "WellShifter.unshift": ("indices_B", "wells_A", (S["r"] - S["dr"], S["c"] - S["dc"]), "(r - dr, c - dc)"),
    "WellRotator.rotate_cw": ("original_indices", "rotated_wells", (S["c"], S["R"] - Poly.const(1) - S["r"]), "(c, R - 1 - r)"),
    "WellRotator.rotate_ccw": ("original_indices", "rotated_wells", (S["C"] - Poly.const(1) - S["c"], S["r"]), "(C - 1 - c, r)"),
}


def run(ctx) -> None:
    maps = {}
    for short in SPEC:
        m = ctx.guard("C15.formula", formula, short)
        if m is not None:
            maps[short] = m
    ctx.guard("C15.inverse", inverse, maps)
    ctx.guard("C15.formula", constructors)
    ctx.guard("C15.fit-guard", fit_guard)
    ctx.guard("C15.accepts-valid", accepts_valid)
    for short in list(SPEC) + ["WellRandomizer.randomize_wells", "WellRandomizer.derandomize_wells"]:
        ctx.guard("C15.shape", shape_rule, short)
    ctx.guard("C15.random", randomizer)
    ctx.guard("C15.instance-state", instance_state)
    # the transforms are built on the well-array helpers: all 26 row letters, columns 1..C, index (r, c)
    from . import c08

    ctx.guard("C15.slice-zero", slice_zero)
    from .common import memo_rule

    ctx.guard("C15.instance-state", memo_rule, "C15.instance-state", ("transform.py",))
    from . import objmodel

    ctx.guard("C15.instance-state", objmodel.descriptor_state, "C15.instance-state", "the tables of one transform object are served to another")
    ctx.reuse("C15.helpers", c08.id_templates)
    ctx.reuse("C15.helpers", c08.grid_construction)


def _index_map(ctx, short: str):
    """Extract (index table, wells table, (poly row, poly col)) of a transform method."""
    f = ctx.prog.require_func(short, "C15.formula")
    fv = ctx.fv(f)
    selfn = f.params[0]
    apps = [cs for cs in fv.calls() if isinstance(cs.call.func, ast.Attribute) and cs.call.func.attr == "append"]
    if len(apps) == 1:
        cs = apps[0]
        arg = fv.res.resolve(cs.call.args[0], cs.node)
    else:
        # comprehension form:  return numpy.array([<mapped well> for well in wells.flatten()]).reshape(...)
        arg = None
        cs = None
        for rn in fv.return_nodes():
            t = fv.res.resolve(rn.ast.value, rn.id)
            for sub_ in ast.walk(t):
                if is_sym(sub_, "comp") and isinstance(sub_.args[0], ast.Constant) and sub_.args[0].value == "ListComp" and len(sub_.args) == 3:
                    arg = sub_.args[1]

                    class _Site:  # where-anchor for the reports
                        call = rn.ast
                        node = rn.id

                    cs = _Site()
        if arg is None:
            raise AnalysisInconclusive("C15.formula", f.where(), f"expected one append of the mapped well, found {len(apps)} (vectorised rewrite?)")
    if not (isinstance(arg, ast.Subscript) and isinstance(arg.value, ast.Attribute) and is_name(arg.value.value, selfn) and isinstance(arg.slice, ast.Tuple) and len(arg.slice.elts) == 2):
        raise AnalysisInconclusive("C15.formula", f.where(cs.call), f"mapped well `{show(arg)[:60]}` is not self.<wells table>[row, col]")
    table = arg.value.attr
    idx_table = [None]

    def opaque(e):
        if is_sym(e, "unpack") and isinstance(e.args[0], ast.Subscript) and isinstance(e.args[0].value, ast.Attribute) and is_name(e.args[0].value.value, selfn):
            idx_table[0] = (e.args[0].value.attr, e.args[0].slice)
            return S["r"] if e.args[1].value == 0 else S["c"] if e.args[1].value == 1 else None
        if attr_of_name(e, selfn, "dr"):
            return S["dr"]
        if attr_of_name(e, selfn, "dc"):
            return S["dc"]
        if isinstance(e, ast.Subscript) and attr_of_name(e.value, selfn, "original_shape") and isinstance(e.slice, ast.Constant):
            return S["R"] if e.slice.value == 0 else S["C"] if e.slice.value == 1 else None
        return None

    pr, pc = to_poly(arg.slice.elts[0], opaque), to_poly(arg.slice.elts[1], opaque)
    return f, fv, cs, table, idx_table[0], (pr, pc)


def formula(ctx, short: str):
    rule = "C15.formula"
    f, fv, cs, table, idx, (pr, pc) = _index_map(ctx, short)
    want_idx, want_tab, (wr, wc), text = SPEC[short]
    w = f.where(cs.call)
    c = f.qualname
    ctx.rep.check(table == want_tab, rule, c + "/target-table", f"result is looked up in self.{want_tab}", f"the mapped well is looked up in self.{table}; expected self.{want_tab}", where=w)
    ctx.rep.check(idx is not None and idx[0] == want_idx, rule, c + "/source-table", f"(r, c) come from self.{want_idx}[well]", f"(r, c) are taken from self.{idx[0] if idx else '?'}; expected self.{want_idx}", where=w)
    known = set(k for p in S.values() for k in p.symbols())
    stray = [s for s in (pr.symbols() + pc.symbols()) if s not in known]
    if stray:
        ctx.rep.inconclusive(rule, c + "/map", f"index map `({pr.pretty()}, {pc.pretty()})` contains terms outside the fragment", where=w)
        return None
    ctx.rep.check(pr == wr and pc == wc, rule, c + "/map", f"index map = {text}", f"index map is `({pr.pretty()}, {pc.pretty()})`; the property requires {text}", where=w, got=f"({pr.pretty()}, {pc.pretty()})")
    # the well whose indices are used is the loop element
    if idx is not None:
        ok = is_sym(idx[1], "elem")
        ctx.rep.check(ok, rule, c + "/element", "indices of the well of this iteration", "the indices are not those of the well of this iteration", where=w)
    return (pr, pc)


def _sub(p: Poly, **kw) -> Poly:
    mapping = {}
    for name, val in kw.items():
        k = S[name].symbols()[0]
        mapping[k] = val
    return p.subst(mapping)


def inverse(ctx, maps) -> None:
    rule = "C15.inverse"
    need = list(SPEC)
    if any(n not in maps for n in need):
        ctx.rep.inconclusive(rule, "transforms", "index maps could not be extracted for all four transforms")
        return
    sh, un = maps["WellShifter.shift"], maps["WellShifter.unshift"]
    comp = (_sub(un[0], r=sh[0], c=sh[1]), _sub(un[1], r=sh[0], c=sh[1]))
    ctx.rep.check(comp[0] == S["r"] and comp[1] == S["c"], rule, "unshift(shift(w))", "unshift o shift = identity by substitution", f"unshift(shift(r, c)) = ({comp[0].pretty()}, {comp[1].pretty()}) != (r, c)")
    comp = (_sub(sh[0], r=un[0], c=un[1]), _sub(sh[1], r=un[0], c=un[1]))
    ctx.rep.check(comp[0] == S["r"] and comp[1] == S["c"], rule, "shift(unshift(w))", "shift o unshift = identity by substitution", f"shift(unshift(r, c)) = ({comp[0].pretty()}, {comp[1].pretty()}) != (r, c)")
    cw, ccw = maps["WellRotator.rotate_cw"], maps["WellRotator.rotate_ccw"]
    # ccw of the rotated plate (R' = C, C' = R) applied after cw
    ccw_r = (_sub(ccw[0], R=S["C"], C=S["R"]), _sub(ccw[1], R=S["C"], C=S["R"]))
    comp = (_sub(ccw_r[0], r=cw[0], c=cw[1]), _sub(ccw_r[1], r=cw[0], c=cw[1]))
    ctx.rep.check(comp[0] == S["r"] and comp[1] == S["c"], rule, "ccw'(cw(w))", "rotating back on the rotated plate is the identity", f"ccw'(cw(r, c)) = ({comp[0].pretty()}, {comp[1].pretty()}) != (r, c)")
    cw_r = (_sub(cw[0], R=S["C"], C=S["R"]), _sub(cw[1], R=S["C"], C=S["R"]))
    comp = (_sub(cw_r[0], r=ccw[0], c=ccw[1]), _sub(cw_r[1], r=ccw[0], c=ccw[1]))
    ctx.rep.check(comp[0] == S["r"] and comp[1] == S["c"], rule, "cw'(ccw(w))", "cw' o ccw = identity", f"cw'(ccw(r, c)) = ({comp[0].pretty()}, {comp[1].pretty()}) != (r, c)")
    cur = (S["r"], S["c"])
    for i in range(4):
        m = cw if i % 2 == 0 else cw_r
        cur = (_sub(m[0], r=cur[0], c=cur[1]), _sub(m[1], r=cur[0], c=cur[1]))
    ctx.rep.check(cur[0] == S["r"] and cur[1] == S["c"], rule, "cw^4", "four clockwise rotations are the identity", f"cw^4(r, c) = ({cur[0].pretty()}, {cur[1].pretty()}) != (r, c)")


def constructors(ctx) -> None:
    rule = "C15.formula"
    # WellShifter.__init__: tables from the matching shapes, offset = indices_B[shifted_A01]
    f = ctx.prog.require_func("WellShifter.__init__", rule)
    fv = ctx.fv(f)
    selfn = f.params[0]
    attrs = {}
    for n in fv.cfg.nodes:
        if n.kind == "stmt" and isinstance(n.ast, ast.Assign):
            for t in n.ast.targets:
                for tt in (t.elts if isinstance(t, ast.Tuple) else [t]):
                    if isinstance(tt, ast.Attribute) and is_name(tt.value, selfn):
                        attrs[tt.attr] = (n, n.ast.value, t)
    want = {"indices_A": ("make_well_index_dict", "shape_A"), "indices_B": ("make_well_index_dict", "shape_B"), "wells_A": ("make_well_array", "shape_A"), "wells_B": ("make_well_array", "shape_B")}
    for a, (fn, shp) in want.items():
        ok = False
        if a in attrs:
            v = fv.res.resolve(attrs[a][1], attrs[a][0].id)
            ok = isinstance(v, ast.Call) and call_fname(v) == fn and len(v.args) == 1 and isinstance(v.args[0], ast.Starred) and (is_name(v.args[0].value, shp) or attr_of_name(v.args[0].value, selfn, shp))
        ctx.rep.check(ok, rule, f"{f.qualname}/{a}", f"{a} = {fn}(*{shp})", f"self.{a} is not {fn}(*{shp})", where=f.where())
    ok = False
    if "dr" in attrs and "dc" in attrs and attrs["dr"][0] is attrs["dc"][0]:
        n, v, t = attrs["dr"]
        order = [e.attr for e in t.elts] if isinstance(t, ast.Tuple) else []
        vv = fv.res.resolve(v, n.id)
        ok = order == ["dr", "dc"] and isinstance(vv, ast.Subscript) and (attr_of_name(vv.value, selfn, "indices_B") or call_fname(vv.value) == "make_well_index_dict") and is_name(vv.slice, "shifted_A01")
    if not ok and "dr" in attrs and "dc" in attrs:
        # the same offset taken apart by index:  offset = indices_B[shifted_A01]; dr = offset[0]; dc = offset[1]
        def anchor(vv):
            return isinstance(vv, ast.Subscript) and (attr_of_name(vv.value, selfn, "indices_B") or call_fname(vv.value) == "make_well_index_dict") and is_name(vv.slice, "shifted_A01")

        def component(a):
            n_, v_, t_ = attrs[a]
            if isinstance(t_, ast.Tuple):
                return None
            vv_ = fv.res.resolve(v_, n_.id)
            if is_sym(vv_, "item") or is_sym(vv_, "unpack"):
                base, k_ = vv_.args[0], vv_.args[1]
            elif isinstance(vv_, ast.Subscript):
                base, k_ = vv_.value, vv_.slice
            else:
                return None
            return k_.value if isinstance(k_, ast.Constant) and anchor(base) else None

        ok = component("dr") == 0 and component("dc") == 1 and not isinstance(component("dr"), bool)
    ctx.rep.check(ok, rule, f"{f.qualname}/offset", "(dr, dc) = indices_B[shifted_A01]", "the shift offset is not (dr, dc) = indices_B[<anchor well>]", where=f.where())
    # WellRotator.__init__
    g = ctx.prog.require_func("WellRotator.__init__", rule)
    gv = ctx.fv(g)
    attrs = {}
    for n in gv.cfg.nodes:
        if n.kind == "stmt" and isinstance(n.ast, ast.Assign) and isinstance(n.ast.targets[0], ast.Attribute):
            attrs[n.ast.targets[0].attr] = (n, n.ast.value)
    ok_rs = "rotated_shape" in attrs and isinstance(attrs["rotated_shape"][1], ast.Subscript) and isinstance(attrs["rotated_shape"][1].slice, ast.Slice) and \
        isinstance(attrs["rotated_shape"][1].slice.step, ast.UnaryOp) and is_name(attrs["rotated_shape"][1].value, "original_shape")
    ctx.rep.check(bool(ok_rs), rule, f"{g.qualname}/rotated_shape", "rotated_shape = original_shape[::-1]", "rotated_shape is not the reversed original shape", where=g.where())
    want = {"original_indices": ("make_well_index_dict", "original_shape"), "rotated_indices": ("make_well_index_dict", "rotated_shape"), "original_wells": ("make_well_array", "original_shape"), "rotated_wells": ("make_well_array", "rotated_shape")}
    for a, (fn, shp) in want.items():
        ok = False
        if a in attrs:
            v = attrs[a][1]
            ok = isinstance(v, ast.Call) and call_fname(v) == fn and len(v.args) == 1 and isinstance(v.args[0], ast.Starred) and attr_of_name(v.args[0].value, g.params[0], shp)
        ctx.rep.check(ok, rule, f"{g.qualname}/{a}", f"{a} = {fn}(*self.{shp})", f"self.{a} is not {fn}(*self.{shp})", where=g.where())


def fit_guard(ctx) -> None:
    rule = "C15.fit-guard"
    f = ctx.prog.require_func("WellShifter.__init__", rule)
    fv = ctx.fv(f)
    selfn = f.params[0]

    def opaque(e):
        if attr_of_name(e, selfn, "dr") or (is_sym(e, "unpack") and e.args[1].value == 0):
            return S["dr"]
        if attr_of_name(e, selfn, "dc") or (is_sym(e, "unpack") and e.args[1].value == 1):
            return S["dc"]
        return None

    # attributes that hold a constructor argument unchanged (`self.shape_A = shape_A`): a guard written over the attribute
    # (e.g. in a validation method called at the end of the constructor) is a guard over the argument
    attr_stores = {}
    for nd in fv.cfg.nodes:
        if nd.kind == "stmt" and isinstance(nd.ast, ast.Assign) and len(nd.ast.targets) == 1 and isinstance(nd.ast.targets[0], ast.Attribute) and is_name(nd.ast.targets[0].value, selfn):
            attr_stores.setdefault(nd.ast.targets[0].attr, []).append(nd)

    def through_attrs(e, at):
        class R(ast.NodeTransformer):
            def visit_Attribute(self, n):
                self.generic_visit(n)
                st = attr_stores.get(n.attr, [])
                if is_name(n.value, selfn) and len(st) == 1 and fv.cfg.dominates(st[0].id, at):
                    v = fv.res.resolve(st[0].ast.value, st[0].id)
                    if isinstance(v, ast.Name) and v.id in f.params:
                        return v
                return n

        import copy as _copy

        return R().visit(_copy.deepcopy(e))

    found = {0: None, 1: None}
    for n, test, pol, r in fv.raising_guards():
        rt = through_attrs(fv.res.resolve(test, n.id), n.id)
        cm = to_cmp(rt, pol, opaque)
        if cm is None:
            continue
        for axis, off in ((0, S["dr"]), (1, S["dc"])):
            a = Poly.symbol(ast.Subscript(value=ast.Name(id="shape_A", ctx=ast.Load()), slice=ast.Constant(value=axis), ctx=ast.Load()))
            b = Poly.symbol(ast.Subscript(value=ast.Name(id="shape_B", ctx=ast.Load()), slice=ast.Constant(value=axis), ctx=ast.Load()))
            if cm == Cmp(a + off - b, ">"):
                found[axis] = ("ok", n, r)
            elif set((a + off - b).symbols()) <= set(cm.poly.symbols()) and found[axis] is None:
                found[axis] = ("different", n, r, cm.pretty())
    for axis, what in ((0, "rows"), (1, "columns")):
        c = f"{f.qualname}/{what}"
        st = found[axis]
        if st is None:
            ctx.rep.refuted(rule, c, f"no guard refuses a source plate whose {what} do not fit (shape_A[{axis}] + offset > shape_B[{axis}])", where=f.where())
        elif st[0] == "different":
            ctx.rep.refuted(rule, c, f"fit guard for {what} is `{st[3]}`; expected shape_A[{axis}] + offset - shape_B[{axis}] > 0 (exact fits must be accepted, misfits refused)", where=f.where(fv.cfg.nodes[st[1].id].ast))
        else:
            n, r = st[1], st[2]
            every_path = fv.cfg.dominates(n.id, fv.cfg.exit)
            cls = raise_class(fv, r)[0]
            ctx.rep.check(every_path and cls == "ValueError", rule, c, f"misfit in {what} raises ValueError on every path",
                          f"the {what} fit guard {'can be bypassed (an earlier return / branch skips it)' if not every_path else 'raises ' + cls}", where=f.where(n.ast))


def shape_rule(ctx, short: str) -> None:
    rule = "C15.shape"
    f = ctx.prog.require_func(short, rule)
    fv = ctx.fv(f)
    arg = f.params[1]
    c = f.qualname
    rets = [n for n in fv.cfg.nodes if n.kind == "stmt" and isinstance(n.ast, ast.Return) and n.ast.value is not None]
    if len(rets) > 1:
        # a shortcut return whose value does not depend on *which* wells were given (only on their number / shape, or on
        # nothing at all) cannot be the element-wise image of the argument
        blind = []
        for rn_ in rets:
            v_ = fv.res.resolve(rn_.ast.value, rn_.id)
            uses = False
            for x in ast.walk(v_):
                if isinstance(x, ast.Name) and x.id == arg:
                    uses = True
            # reads of the argument that only look at its shape / size / length do not count
            shape_only = {id(y) for x in ast.walk(v_) if isinstance(x, ast.Attribute) and x.attr in ("shape", "size", "ndim") for y in ast.walk(x.value)}
            shape_only |= {id(y) for x in ast.walk(v_) if isinstance(x, ast.Call) and call_fname(x) == "len" for y in ast.walk(x)}
            uses = any(isinstance(x, ast.Name) and x.id == arg and id(x) not in shape_only for x in ast.walk(v_))
            opaque = any(is_sym(x) for x in ast.walk(v_))  # loop-built lists, merged definitions ...: may well depend on the argument
            empty_case = False
            for r_, pol_, _br in fv.atoms_at(rn_.id):
                if isinstance(r_, ast.Compare) and len(r_.ops) == 1 and isinstance(r_.ops[0], ast.Eq) and pol_ and isinstance(r_.comparators[0], ast.Constant) and r_.comparators[0].value == 0:
                    l_ = r_.left
                    if (isinstance(l_, ast.Attribute) and l_.attr == "size") or (isinstance(l_, ast.Call) and call_fname(l_) == "len"):
                        empty_case = True  # nothing to map: the result cannot depend on the (absent) wells
                if isinstance(r_, (ast.Name, ast.Attribute, ast.Call)) and not pol_ and (isinstance(r_, ast.Call) and call_fname(r_) == "len" or isinstance(r_, ast.Attribute) and r_.attr == "size"):
                    empty_case = True
            if not uses and not opaque and not empty_case:
                blind.append(rn_)
        # a shortcut that hands back the wells as given claims that the transform is the identity there: true for a shifter whose
        # offset is (0, 0) - both components - and for nothing else
        selfn_ = f.params[0]
        for rn_ in rets:
            v_ = strip_norm(fv.res.resolve(rn_.ast.value, rn_.id))
            while isinstance(v_, ast.Call) and call_fname(v_) in ("array", "asarray", "copy") and v_.args:
                v_ = strip_norm(v_.args[0])
            if not is_name(v_, arg):
                continue
            atoms_ = [(r_, p_) for r_, p_, _b in fv.atoms_at(rn_.id)]

            def zero(attr):
                for r_, p_ in atoms_:
                    if attr_of_name(r_, selfn_, attr) and not p_:
                        return True
                    if isinstance(r_, ast.Compare) and len(r_.ops) == 1 and attr_of_name(r_.left, selfn_, attr) and isinstance(r_.comparators[0], ast.Constant) and r_.comparators[0].value == 0 \
                            and ((isinstance(r_.ops[0], ast.Eq) and p_) or (isinstance(r_.ops[0], ast.NotEq) and not p_)):
                        return True
                return False

            empty_ = any((isinstance(r_, ast.Compare) and len(r_.ops) == 1 and isinstance(r_.ops[0], ast.Eq) and p_ and isinstance(r_.comparators[0], ast.Constant) and r_.comparators[0].value == 0
                          and ((isinstance(r_.left, ast.Attribute) and r_.left.attr == "size") or call_fname(r_.left) == "len")) for r_, p_ in atoms_)
            if empty_ or (short.startswith("WellShifter.") and zero("dr") and zero("dc")):
                continue
            ctx.rep.refuted(rule, c + "/shortcut", f"`{stmt_key(rn_.ast)[:60]}` hands the wells back untransformed; that is the image only when the transform is the identity (a shifter with offset "
                            "(0, 0)), which the conditions of this return do not establish (e.g. an anchor in row A or column 01 has one zero component)", where=f.where(rn_.ast))
            return
        if blind and len(blind) < len(rets):
            rn_ = blind[0]
            conds = [show(r)[:50] for r, pol, br in fv.atoms_at(rn_.id)][:3]
            ctx.rep.refuted(rule, c + "/shortcut", f"`{stmt_key(rn_.ast)[:70]}` returns a value that does not depend on which wells were given (only on {', '.join(conds) or 'state of the object'}): for an "
                            "argument of that shape in another order (reversed, transposed, already transformed) the result is not the element-wise image", where=f.where(rn_.ast))
            return
    if len(rets) != 1:
        ctx.rep.inconclusive(rule, c, f"expected one return, found {len(rets)}")
        return
    rn = rets[0]
    w = f.where(rn.ast)
    val = fv.res.resolve(rn.ast.value, rn.id)
    ok_reshape = isinstance(val, ast.Call) and call_fname(val) == "reshape" and len(val.args) == 1
    shape_arg = val.args[0] if ok_reshape else None
    ok_shape = shape_arg is not None and isinstance(shape_arg, ast.Attribute) and shape_arg.attr == "shape" and is_name(strip_norm(shape_arg.value), arg)
    ctx.rep.check(ok_reshape and ok_shape, rule, c + "/reshape", "result is reshaped to the shape of the argument",
                  f"the result `{show(val)[:70]}` is not reshaped to the shape of the given array: the shape of the argument is not preserved", where=w)
    if ok_reshape and ok_shape:
        from ..defuse import norm_chains

        reshaped = sorted({nm for ch in norm_chains(shape_arg.value) for nm, _c in ch if nm in ("flatten", "ravel", "reshape", "squeeze", "T", "transpose", "swapaxes", "atleast_1d", "atleast_2d")}
                          | {f"{nm}(ndmin=..)" for ch in norm_chains(shape_arg.value) for nm, c_ in ch if any(k.arg == "ndmin" for k in getattr(c_, "keywords", []))})
        ctx.rep.check(not reshaped, rule, c + "/shape-source", "the shape is read from the argument as given",
                      f"the shape is read from `{show(shape_arg.value)[:50]}`, i.e. after {reshaped}: the result no longer has the shape of the given array (a 2-D argument comes back 1-D / transposed)", where=w)
        conv = any(nm in ("array", "asarray", "asanyarray") for ch in norm_chains(shape_arg.value) for nm, _c in ch)
        ctx.rep.check(conv, rule, c + "/array-like", "the argument is converted to an array before its shape is read",
                      f"`.shape` is read from `{show(shape_arg.value)[:40]}`, the argument as given: a list of well IDs (any array-like is accepted by the siblings) has no shape - the call fails", where=w)
    # elements iterated: the flattened array
    iters = []
    for n in fv.cfg.nodes:
        if n.kind == "for":
            iters.append((n, fv.res.resolve(n.ast.iter, n.id)))
    for sub in ast.walk(f.node):
        if isinstance(sub, (ast.ListComp, ast.GeneratorExp)):
            at = fv.node_of(sub)
            iters.append((fv.cfg.nodes[at], fv.res.resolve(sub.generators[0].iter, at)))
    if len(iters) != 1:
        # a vectorised rewrite by boolean mask: table[isin(table', wells)] returns the selected wells in the order of the
        # *table*, whatever order the argument names them in - the result is no longer the element-wise image
        for sub in ast.walk(val):
            if isinstance(sub, ast.Subscript):
                m = sub.slice
                if isinstance(m, ast.Call) and call_fname(m) in ("isin", "in1d") and len(m.args) >= 2 and any(is_name(strip_norm(x), arg) for x in ast.walk(m.args[1]) if isinstance(x, (ast.Name, ast.Call))):
                    ctx.rep.refuted(rule, c + "/iteration", f"the result is selected with the boolean mask `{show(m)[:60]}`: a mask yields the wells in the order of the table, not in the order "
                                    "of the argument - for an argument that is not in ascending row-major order (reversed, column-major, transposed) the i-th result is not the image of the i-th well", where=w)
                    return
        ctx.rep.inconclusive(rule, c + "/iteration", f"expected one element-wise iteration, found {len(iters)} (vectorised rewrite?)", where=w)
        return
    it = iters[0][1]
    flat = isinstance(it, ast.Call) and call_fname(it) in ("flatten", "ravel") and is_name(strip_norm(it), arg)
    flat = flat or (isinstance(it, ast.Attribute) and it.attr == "flat" and is_name(strip_norm(it.value), arg))
    ctx.rep.check(flat, rule, c + "/flatten", "the elements of the flattened argument are mapped one by one",
                  f"the method iterates `{show(it)[:60]}`: for a 2-D argument whole rows (not wells) are mapped - the sibling transforms iterate the flattened array", where=w)
    if flat and ok_reshape and isinstance(it, ast.Call):
        # the order in which the elements are read is the order in which the result is laid out again
        from ..defuse import flatten_order

        read = flatten_order(call_fname(it), it) or "C"
        laid = "C"
        for kw_ in val.keywords:
            if kw_.arg == "order" and isinstance(kw_.value, ast.Constant):
                laid = kw_.value.value
        ctx.rep.check(read in ("C", "K", "A") and laid in ("C", "A") or read == laid, rule, c + "/order", "elements are read and laid out in the same order",
                      f"the argument is read in order {read!r} (`{show(it)[:40]}`) but the result is reshaped in order {laid!r}: for a 2-D argument the i-th result is not the image of the i-th well", where=w)


def randomizer(ctx) -> None:
    rule = "C15.random"
    f = ctx.prog.require_func("WellRandomizer.__init__", rule)
    fv = ctx.fv(f)
    selfn = f.params[0]
    # rng = RandomState(<seed>)
    rng = [n for n in fv.cfg.nodes if n.kind == "stmt" and isinstance(n.ast, ast.Assign) and attr_of_name(n.ast.targets[0], selfn, "rng")]
    ok = False
    detail = "self.rng is not created"
    if len(rng) == 1:
        v = fv.res.resolve(rng[0].ast.value, rng[0].id)
        if isinstance(v, ast.Call) and call_fname(v) in ("RandomState", "default_rng", "Generator") and (
                (len(v.args) == 1 and not v.keywords) or (not v.args and len(v.keywords) == 1 and v.keywords[0].arg == "seed")):
            a = v.args[0] if v.args else v.keywords[0].value
            ok = is_name(a, "random_seed") or attr_of_name(a, selfn, "random_seed")
            detail = f"the generator is seeded with `{show(a)}` instead of exactly the given seed (e.g. seed 0 would fall back to OS entropy)"
        else:
            detail = f"self.rng = `{show(v)[:60]}` is not a generator seeded with the given seed"
    ctx.rep.check(ok, rule, f"{f.qualname}/seed", "self.rng = RandomState(random_seed)", detail, where=f.where())
    # no global randomness anywhere in the package
    bad = []
    for g in ctx.prog.all_functions():
        for sub in own_walk(g.node):
            if isinstance(sub, ast.Call):
                txt = show(sub.func)
                if (txt.startswith(("numpy.random.", "np.random.", "random.")) and not txt.endswith(("RandomState", "default_rng", "Generator"))):
                    bad.append((g, sub))
    for g, sub in bad:
        ctx.rep.touch(g)
        ctx.rep.refuted(rule, f"{g.qualname}/{show(sub.func)}", f"`{show(sub)[:60]}` draws from the global random state: the permutation is not determined by the seed", where=g.where(sub))
    if not bad:
        ctx.rep.holds(rule, "package/no-global-rng", "no call into the global numpy.random / random state")
    # permutations come from self.rng
    perms = [cs for cs in fv.calls() if call_fname(cs.call) in ("permutation", "shuffle", "choice", "permuted")]
    ok_p = bool(perms) and all(isinstance(cs.call.func, ast.Attribute) and attr_of_name(cs.call.func.value, selfn, "rng") and call_fname(cs.call) == "permutation" for cs in perms)
    ctx.rep.check(ok_p, rule, f"{f.qualname}/permutation", f"{len(perms)} permutations, all drawn from self.rng.permutation", "a permutation is not drawn from self.rng.permutation", where=f.where())
    # per mode: keys and permuted values are the same slice
    covered = set()
    for cs in perms:
        modes = _modes_of(fv, cs.node)
        mode = next(iter(modes)) if modes is not None and len(modes) == 1 else None
        arg = fv.res.resolve(cs.call.args[0], cs.node) if cs.call.args else None
        if arg is not None and isinstance(arg, ast.Attribute) and is_name(arg.value, selfn):
            st = [n for n in fv.cfg.nodes if n.kind == "stmt" and isinstance(n.ast, ast.Assign) and attr_of_name(n.ast.targets[0], selfn, arg.attr) and fv.cfg.dominates(n.id, cs.node)]
            if len(st) == 1:
                arg = fv.res.resolve(st[0].ast.value, st[0].id)
        c = f"{f.qualname}/mode[{mode if mode else '|'.join(sorted(modes)) if modes else '?'}]"
        w = f.where(cs.call)
        if modes is None:
            ctx.rep.inconclusive(rule, c, "cannot tell for which mode this permutation is drawn", where=w)
            continue
        covered |= set(modes)
        if mode == "full":
            ok = arg is not None and isinstance(arg, ast.Call) and call_fname(arg) in ("flatten", "ravel") and call_fname(strip_norm(arg)) == "make_well_array"
            ctx.rep.check(ok, rule, c, "full mode permutes all wells of the plate", f"full mode permutes `{show(arg)[:50] if arg is not None else None}`", where=w)
            continue
        if not set(modes) <= {"row", "column"}:
            ctx.rep.inconclusive(rule, c, f"one permutation site serves the modes {sorted(modes)}", where=w)
            continue
        if isinstance(arg, ast.Subscript) and not isinstance(arg.slice, (ast.Tuple, ast.Slice)) and is_sym(arg.slice, "elem") and call_fname(strip_norm(arg.value)) == "make_well_array":
            # table[r] of the 2-D table is its whole row r: table[r, :]
            arg = ast.Subscript(value=arg.value, slice=ast.Tuple(elts=[arg.slice, ast.Slice(lower=None, upper=None, step=None)], ctx=ast.Load()), ctx=ast.Load())
        sliced = isinstance(arg, ast.Subscript) and isinstance(arg.slice, ast.Tuple) and len(arg.slice.elts) == 2
        if mode is not None and (sliced or not is_sym(arg, "elem")):
            ok = sliced
            if ok:
                a0, a1 = arg.slice.elts
                fixed, free = (a0, a1) if mode == "row" else (a1, a0)
                ok = is_sym(fixed, "elem") and isinstance(free, ast.Slice) and free.lower is None and free.upper is None
                if ok:
                    rng_it = fixed.args[1]
                    axis = 0 if mode == "row" else 1
                    ok = isinstance(rng_it, ast.Call) and call_fname(rng_it) == "range" and len(rng_it.args) == 1 and isinstance(rng_it.args[0], ast.Subscript) and isinstance(rng_it.args[0].slice, ast.Constant) and rng_it.args[0].slice.value == axis
            ctx.rep.check(ok, rule, c, f"{mode} mode permutes each {mode} within itself, for every {mode}",
                          f"{mode} mode permutes `{show(arg)[:60] if arg is not None else None}`: not one whole {mode} per iteration over all {mode}s - wells can leave their {mode}", where=w)
        else:
            # the permuted lane is the element of a loop over a list of lanes: classify every alternative of that list
            loops = [h for h in fv.cfg.enclosing_loops(cs.node) if fv.cfg.nodes[h].kind == "for"]
            if not (is_sym(arg, "elem") and loops):
                ctx.rep.inconclusive(rule, c, f"cannot relate the permuted `{show(arg)[:60] if arg is not None else None}` to the rows/columns of the plate", where=w)
                continue
            h = loops[-1]
            for conds, val in fv.alternatives(fv.cfg.nodes[h].ast.iter, h):
                ms = set(modes)
                for r, pol in conds:
                    if isinstance(r, ast.Compare) and len(r.ops) == 1 and isinstance(r.ops[0], ast.Eq) and is_name(r.left, "mode") and isinstance(r.comparators[0], ast.Constant):
                        ms = ms & {r.comparators[0].value} if pol else ms - {r.comparators[0].value}
                kind = _lane_class(val)
                ctext = " and ".join(("" if p_ else "not ") + show(r_)[:40] for r_, p_ in conds) or "always"
                for m in sorted(ms):
                    want = "rows" if m == "row" else "columns"
                    cc = f"{c}/{m}/lanes[{ctext[:50]}]"
                    if kind == want:
                        ctx.rep.holds(rule, cc, f"{m} mode: the lanes are the {want} of the plate", where=w)
                    elif kind in ("rows", "columns", "whole"):
                        what = "the whole plate as one lane" if kind == "whole" else f"the {kind} of the plate"
                        ctx.rep.refuted(rule, cc, f"in {m} mode (when {ctext}) the wells permuted among each other are {what}, not each {m} on its own: wells can leave their {m}", where=w)
                    else:
                        ctx.rep.inconclusive(rule, cc, f"cannot classify the lanes `{show(val)[:60]}`", where=w)
        # keys zipped with the permuted values are the same slice
        zips = []
        for n in fv.cfg.nodes:
            if _modes_of(fv, n.id) != modes:
                continue
            roots = [n.ast.iter] if n.kind == "for" else ([n.ast] if n.kind == "stmt" else [])
            for root in roots:
                for sub in own_walk(root):
                    if isinstance(sub, ast.Call) and call_fname(sub) == "zip" and len(sub.args) == 2:
                        zips.append((n, sub))
        verdict, detail = None, "no zip(<slice>, <its permutation>) feeds the lookup of this mode"
        for n, z in zips:
            zr = fv.res.resolve(z, n.id)
            if not (isinstance(zr, ast.Call) and len(zr.args) == 2):
                continue

            def _rowform(t):
                class R(ast.NodeTransformer):
                    def visit_Subscript(self, m):
                        self.generic_visit(m)
                        if not isinstance(m.slice, (ast.Tuple, ast.Slice)) and is_sym(m.slice, "elem") and call_fname(strip_norm(m.value)) == "make_well_array":
                            return ast.Subscript(value=m.value, slice=ast.Tuple(elts=[m.slice, ast.Slice(lower=None, upper=None, step=None)], ctx=ast.Load()), ctx=ast.Load())
                        return m

                import copy as _copy

                return R().visit(_copy.deepcopy(t))

            zr = ast.Call(func=zr.func, args=[_rowform(zr.args[0]), _rowform(zr.args[1])], keywords=[])
            k_ok = key(zr.args[0]) == key(arg)
            p_ok = isinstance(zr.args[1], ast.Call) and call_fname(zr.args[1]) in ("permutation", "tolist") and key(arg) in key(zr.args[1])
            swapped = key(zr.args[1]) == key(arg) and isinstance(zr.args[0], ast.Call) and call_fname(zr.args[0]) in ("permutation", "tolist")
            if swapped and mode != "full":
                pass  # a permutation's inverse is a permutation too, but randomize/derandomize tables would be exchanged: treat as mismatch below
            if not (k_ok and p_ok):
                verdict, detail = False, f"`{show(z)[:60]}` does not pair the wells of the slice with the permutation of the same slice"
                continue
            # how is the pairing consumed?
            consumed = False
            if n.kind == "for" and n.ast.iter is z and isinstance(n.ast.target, ast.Tuple) and len(n.ast.target.elts) == 2:
                o, r_ = n.ast.target.elts
                for m in (fv.cfg.nodes[i] for i in fv.cfg.loop_body[n.id]):
                    if m.kind == "stmt" and isinstance(m.ast, ast.Assign) and isinstance(m.ast.targets[0], ast.Subscript) and attr_of_name(m.ast.targets[0].value, selfn, "lookup") \
                            and key(m.ast.targets[0].slice) == key(o) and key(m.ast.value) == key(r_):
                        consumed = True
            elif n.kind == "stmt":
                for sub in own_walk(n.ast):
                    if isinstance(sub, ast.Call) and isinstance(sub.func, ast.Attribute) and sub.func.attr == "update" and attr_of_name(sub.func.value, selfn, "lookup") and sub.args and sub.args[0] is z:
                        consumed = True
                if isinstance(n.ast, ast.Assign) and attr_of_name(n.ast.targets[0], selfn, "lookup"):
                    v_ = n.ast.value
                    if isinstance(v_, ast.Call) and call_fname(v_) == "dict" and v_.args and v_.args[0] is z:
                        consumed = True
                    if isinstance(v_, ast.DictComp) and len(v_.generators) == 1 and v_.generators[0].iter is z and isinstance(v_.generators[0].target, ast.Tuple) \
                            and key(v_.key) == key(v_.generators[0].target.elts[0]) and key(v_.value) == key(v_.generators[0].target.elts[1]) and not v_.generators[0].ifs:
                        consumed = True
            if consumed:
                verdict, detail = True, "lookup maps the slice onto its own permutation"
                break
            detail = f"cannot see how `{show(z)[:50]}` is stored into self.lookup"
        ctx.rep.check(verdict, rule, c + "/lookup", "lookup maps the slice onto its own permutation", detail, where=w)
    missing = {"full", "row", "column"} - covered
    if missing:
        ctx.rep.inconclusive(rule, f"{f.qualname}/modes", f"no permutation site found for mode(s) {sorted(missing)}", where=f.where())
    # unknown mode raises
    rej = any(raise_class(fv, s)[0] == "ValueError" for s in own_walk(f.node) if isinstance(s, ast.Raise))
    ctx.rep.check(rej, rule, f"{f.qualname}/mode-else", "an unsupported mode raises ValueError", "an unsupported mode is not rejected", where=f.where())
    # reverse lookup = inverse comprehension
    rev = [n for n in fv.cfg.nodes if n.kind == "stmt" and isinstance(n.ast, ast.Assign) and attr_of_name(n.ast.targets[0], selfn, "lookup_reverse")]
    ok_r = False
    if len(rev) == 1 and isinstance(rev[0].ast.value, ast.DictComp):
        dc = rev[0].ast.value
        g = dc.generators[0]
        ok_r = isinstance(g.iter, ast.Call) and call_fname(g.iter) == "items" and attr_of_name(g.iter.func.value, selfn, "lookup") and isinstance(g.target, ast.Tuple) and len(g.target.elts) == 2 \
            and is_name(dc.key, g.target.elts[1].id) and is_name(dc.value, g.target.elts[0].id) and not g.ifs
        if not ok_r and isinstance(g.target, ast.Name) and not g.ifs and len(dc.generators) == 1:
            # {self.lookup[k]: k for k in self.lookup}  (or  in self.lookup.keys())
            src_ = g.iter.func.value if isinstance(g.iter, ast.Call) and call_fname(g.iter) == "keys" and isinstance(g.iter.func, ast.Attribute) and not g.iter.args else g.iter
            ok_r = attr_of_name(src_, selfn, "lookup") and is_name(dc.value, g.target.id) and isinstance(dc.key, ast.Subscript) and attr_of_name(dc.key.value, selfn, "lookup") \
                and is_name(dc.key.slice, g.target.id)
        ok_r = ok_r and fv.cfg.dominates(rev[0].id, fv.cfg.exit) and not fv.controlling(rev[0].id, skip_raising=True)
    if not ok_r and len(rev) == 1:
        # the same table built by a loop (or through a temporary): {<value of the pair>: <key of the pair> for the pairs of self.lookup.items()}
        t = fv.res.resolve(rev[0].ast.value, rev[0].id)
        if is_sym(t, "comp") and len(t.args) == 4 and isinstance(t.args[0], ast.Constant) and t.args[0].value == "DictComp" and is_sym(t.args[3], "gen") and len(t.args[3].args) == 1:
            k_, v_, it_ = t.args[1], t.args[2], t.args[3].args[0]
            ok_r = is_sym(k_, "val") and is_sym(v_, "key") and key(k_.args[0]) == key(v_.args[0]) and attr_of_name(k_.args[1], selfn, "lookup") and attr_of_name(v_.args[1], selfn, "lookup") \
                and isinstance(it_, ast.Call) and call_fname(it_) == "items" and attr_of_name(it_.func.value, selfn, "lookup")
            ok_r = ok_r and fv.cfg.dominates(rev[0].id, fv.cfg.exit) and not fv.controlling(rev[0].id, skip_raising=True)
            lid = k_.args[0].value if ok_r and isinstance(k_.args[0], ast.Constant) else ""
            if ok_r and isinstance(lid, str) and lid.startswith("loop@"):
                head = int(lid.split("@")[1])
                after = fv.cfg.reachable_from(head)
                for m in fv.cfg.nodes:
                    if m.id in after and m.id not in fv.cfg.loop_body.get(head, set()) and m.kind == "stmt" and isinstance(m.ast, (ast.Assign, ast.AugAssign)):
                        tg = m.ast.targets[0] if isinstance(m.ast, ast.Assign) else m.ast.target
                        base_ = tg.value if isinstance(tg, ast.Subscript) else tg
                        if attr_of_name(base_, selfn, "lookup"):
                            ok_r = False  # the lookup is still written after the reverse table was derived from it
    ctx.rep.check(ok_r, rule, f"{f.qualname}/reverse", "lookup_reverse = {v: k for k, v in lookup.items()} for every mode", "lookup_reverse is not the exact inverse of lookup (built for every mode, after the lookup is complete)", where=f.where())
    for short, table in (("WellRandomizer.randomize_wells", "lookup"), ("WellRandomizer.derandomize_wells", "lookup_reverse")):
        g = ctx.prog.require_func(short, rule)
        txt = ast.dump(g.node)
        uses = [s for s in own_walk(g.node) if isinstance(s, ast.Attribute) and s.attr in ("lookup", "lookup_reverse")]
        ctx.rep.touch(g)
        ctx.rep.check(bool(uses) and all(u.attr == table for u in uses), rule, f"{g.qualname}/table", f"uses self.{table}", f"{short.split('.')[1]} does not (only) use self.{table}: randomize/derandomize are not inverse to each other", where=g.where())


def slice_zero(ctx) -> None:
    rule = "C15.slice-zero"
    from .common import negative_slice_rule

    n = negative_slice_rule(ctx, rule, ("robotools/transform.py",))
    if n == 0:
        # the rule is exercised on every run by C11.slice-zero (Labware.condense_log has two such bounds)
        ctx.rep.holds(rule, "transform.py", "no slice bound of the form -<expression> in the well transforms")


def instance_state(ctx) -> None:
    """A transform object's answers depend on its own shape/seed only: no mutable container declared on the class
    (shared by all instances) is filled by its methods."""
    from .common import class_state_rule

    class_state_rule(ctx, "C15.instance-state", ("WellShifter", "WellRotator", "WellRandomizer"), "plate shape / seed")


def _modes_of(fv, node: int):
    """Modes for which `node` runs, from the must-hold atoms `mode == c` / `mode in (c, ...)`; None if unknown."""
    out = None
    for r, pol, br in fv.atoms_at(node):
        if not (isinstance(r, ast.Compare) and len(r.ops) == 1 and is_name(r.left, "mode") and pol):
            continue
        if isinstance(r.ops[0], ast.Eq) and isinstance(r.comparators[0], ast.Constant):
            cur = {r.comparators[0].value}
        elif isinstance(r.ops[0], ast.In) and isinstance(r.comparators[0], (ast.Tuple, ast.List, ast.Set)) and all(isinstance(e, ast.Constant) for e in r.comparators[0].elts):
            cur = {e.value for e in r.comparators[0].elts}
        else:
            continue
        out = cur if out is None else out & cur
    return frozenset(out) if out is not None else None


def _lane_class(val: ast.AST):
    """rows / columns / whole: what a list of lanes of the well grid consists of (None: unknown)."""
    v = val
    while isinstance(v, ast.Call) and call_fname(v) in ("list", "tuple", "iter") and len(v.args) == 1:
        v = v.args[0]

    def is_grid(x):
        return isinstance(x, ast.Call) and call_fname(x) == "make_well_array"

    if is_grid(v):
        return "rows"
    if isinstance(v, ast.Attribute) and v.attr == "T" and is_grid(v.value):
        return "columns"
    if isinstance(v, ast.Call) and call_fname(v) == "transpose" and ((isinstance(v.func, ast.Attribute) and is_grid(v.func.value) and not v.args) or (v.args and is_grid(v.args[0]) and len(v.args) == 1)):
        return "columns"
    if is_sym(v, "comp") and isinstance(v.args[0], ast.Constant) and v.args[0].value == "ListComp" and len(v.args) == 3 and is_sym(v.args[2], "gen") and len(v.args[2].args) == 1:
        # [grid[r, :] for r in range(shape[0])]  /  [grid[:, c] for c in range(shape[1])]
        elt, it = v.args[1], v.args[2].args[0]
        if isinstance(elt, ast.Subscript) and is_grid(elt.value) and isinstance(elt.slice, ast.Tuple) and len(elt.slice.elts) == 2 \
                and isinstance(it, ast.Call) and call_fname(it) == "range" and len(it.args) == 1 and isinstance(it.args[0], ast.Subscript) and isinstance(it.args[0].slice, ast.Constant):
            a0, a1 = elt.slice.elts
            axis = it.args[0].slice.value
            full = lambda s_: isinstance(s_, ast.Slice) and s_.lower is None and s_.upper is None and s_.step is None  # noqa: E731
            if is_sym(a0, "elem") and full(a1) and axis == 0:
                return "rows"
            if is_sym(a1, "elem") and full(a0) and axis == 1:
                return "columns"
        return None
    if isinstance(v, (ast.List, ast.Tuple)) and len(v.elts) == 1:
        e = v.elts[0]
        if isinstance(e, ast.Call) and call_fname(e) in ("flatten", "ravel", "reshape") and isinstance(e.func, ast.Attribute) and (is_grid(e.func.value) or (isinstance(e.func.value, ast.Attribute) and is_grid(e.func.value.value))):
            return "whole"
    return None


def _mode_of(fv, node: int):
    for r, pol, raw in fv.rfacts_at(node):
        if isinstance(r, ast.Compare) and isinstance(r.ops[0], ast.Eq) and pol and is_name(r.left, "mode") and isinstance(r.comparators[0], ast.Constant):
            return r.comparators[0].value
    return None


def accepts_valid(ctx) -> None:
    """The constructors refuse no valid geometry: each is interpreted (rules/init_model.py - our own interpreter, nothing of
    the repository is executed) for a table of valid shapes - single-row, single-column, 1x1, 8x12, 26 rows - and must not
    reach a raise through a guard that can be evaluated. (Guards that cannot be evaluated are assumed to pass.)"""
    from . import init_model

    rule = "C15.accepts-valid"
    table = {
        "WellRotator": [dict(original_shape=s) for s in ((1, 1), (1, 12), (8, 1), (8, 12), (2, 3), (26, 2), (4, 26))],
        "WellShifter": [dict(shape_A=a, shape_B=b, shifted_A01=w) for a, b, w in (((8, 12), (8, 12), "A01"), ((2, 3), (4, 6), "B02"), ((1, 1), (1, 1), "A01"), ((1, 12), (8, 12), "H01"),
                                                                              ((8, 1), (8, 12), "A12"), ((2, 3), (26, 99), "Y97"))],
        "WellRandomizer": [dict(original_shape=s, random_seed=42, mode=m) for s in ((8, 12), (1, 12), (8, 1), (1, 1), (26, 2)) for m in ("full", "row", "column")],
    }
    n = 0
    for cname, rows in table.items():
        cls = ctx.prog.class_by_name(cname)
        init = cls.methods.get("__init__") if cls is not None else None
        if init is None:
            ctx.rep.inconclusive(rule, cname, "constructor not found")
            continue
        ctx.rep.touch(init)
        bad = None
        for params in rows:
            if not set(params) <= set(init.params):
                continue
            kind, _ = init_model.run_function(init, dict(params), ctx.prog)
            n += 1
            if kind == "raise" and bad is None:
                bad = params
        ctx.rep.check(bad is None, rule, f"{init.qualname}/valid-arguments", f"none of the valid argument sets of the evaluation table is refused by {cname}()",
                      f"the valid arguments {bad} are refused (a guard that rejects them was reached): the property's mappings are defined for this geometry, {cname} raises instead", where=init.where())
    ctx.rep.floor(rule, "constructor evaluations", n, 20)
