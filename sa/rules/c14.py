"""C14 - a DilutionPlan is self-consistent and executable as planned (guard / provenance clauses only)."""
from __future__ import annotations

import ast
from typing import List, Optional

from ..canon import Cmp, Poly, to_cmp, to_poly
from ..defuse import is_sym, key, show, strip_norm
from ..engine import own_walk
from ..model import AnalysisInconclusive
from .common import attr_of_name, call_fname, is_name, raise_class, stmt_key

EXPLANATION = (
    "C14 (guards and provenance only): no attribute of the plan is stored before the feasibility check "
    "len(actual_targets) < C => ValueError, which lies on every path; argument guards raise ValueError; every volume "
    "vector appended to the instructions has an integral-rounding origin and is dominated by all(v >= min_transfer); "
    "serial sources range over the columns planned so far; every serial draw is dominated by a remaining-volume test on "
    "the chosen source column and followed by remaining[src] -= draw; instructions and actual_targets grow together; "
    "to_worklist collects ALL serial targets per source (append into a list per source), pairs each transfer with the "
    "volume/column of the same instruction and dilutes with vmax[col] - v_src. Concentration arithmetic is NOT decided."
)
ASSUMPTIONS = ["numpy.round(x, 0) / numpy.ceil yield whole numbers"]


def run(ctx) -> None:
    ctx.guard("C14.no-partial", no_partial)
    ctx.guard("C14.instructions", instructions)
    ctx.guard("C14.execute-pairing", to_worklist)
    ctx.guard("C14.execute-guards", execute_guards)
    ctx.guard("C14.totals", totals)
    # to_worklist executes through transfer(): on both devices the dispensed liquid carries the source well's composition
    from . import c01
    from .common import concrete_devices

    for dev in concrete_devices(ctx):
        ctx.reuse("C14.transfer-composition", c01.pair_transfer, dev)
    # ... and aspirating never changes what a well consists of (the source composition is read after the aspirate)
    from . import c05

    ctx.reuse("C14.transfer-composition", c05.owner)
    ctx.reuse("C14.transfer-composition", c05.read_exact)
    ctx.reuse("C14.transfer-composition", c05.mix_args)
    from . import objmodel

    ctx.guard("C14.totals", objmodel.property_identity, "C14.totals", ("DilutionPlan",), "the plan reports other numbers than the ones its instructions were computed from")
    ctx.guard("C14.execute-steps", objmodel.labware_model, "C14.execute-steps")
    from . import c04 as _c04, c20 as _c20

    ctx.reuse("C14.execute-steps", _c04.trough_alias)
    # volumes above the worklist's max_volume are split by partition_volume: the parts add up
    from . import c06

    ctx.reuse("C14.split-sum", c06.partition_volume)
    # every planned (source, destination, volume) triple is executed with its own volume on both devices, and the
    # troughs/plates it runs on track fractional volumes
    from . import c02, c07

    for dev in concrete_devices(ctx):
        ctx.reuse("C14.execute-steps", c07.step_block, dev)
        ctx.reuse("C14.execute-steps", c06.wiring, dev)
    ctx.reuse("C14.execute-steps", c02.ctor)
    # to_worklist accepts every trough as stock / diluent: "is a trough" is decided by the virtual rows, for every labware
    from . import c08

    ctx.reuse("C14.execute-guards", c08.trough_predicate)
    # ... on either device, with the device's own defaults (auto_split on): both classes are configured by the base constructor
    from . import c16

    ctx.reuse("C14.execute-steps", c16.override_set)
    # a trough that holds exactly v_stock / v_diluent above its minimum is sufficient: the limit guards are non-strict
    for kind in ("add", "remove"):
        ctx.reuse("C14.execute-steps", c02.guard, kind)
    # every planned volume up to the worklist's limit passes the record validator, on both devices, for every plan size (R <= 16)
    from . import c03

    ctx.reuse("C14.execute-steps", c03.step_guard_validator)
    ctx.reuse("C14.execute-steps", c08.regex_agreement)


def _init(ctx, rule):
    f = ctx.prog.require_func("DilutionPlan.__init__", rule)
    return f, ctx.fv(f)


def _list_names(fv, f):
    """(name of the instruction list, name of the achieved-concentration list) by their roles, not by spelling."""
    selfn = f.params[0]
    instr = None
    for n in fv.cfg.nodes:
        if n.kind == "stmt" and isinstance(n.ast, (ast.Assign, ast.AnnAssign)):
            t = n.ast.targets[0] if isinstance(n.ast, ast.Assign) else n.ast.target
            if attr_of_name(t, selfn, "instructions") and n.ast.value is not None:
                root = fv.alias_root(n.ast.value, n.id)
                instr = root.id if isinstance(root, ast.Name) else None
    targets = None
    for n in fv.cfg.nodes:
        if n.kind == "test" and isinstance(n.ast, ast.Compare) and call_fname(n.ast.left) == "len" and n.ast.left.args and isinstance(n.ast.left.args[0], ast.Name) \
                and isinstance(n.ast.ops[0], ast.Lt) and is_name(n.ast.comparators[0], "C"):
            targets = n.ast.left.args[0].id
    return instr, targets


def no_partial(ctx) -> None:
    rule = "C14.no-partial"
    f, fv = _init(ctx, rule)
    selfn = f.params[0]
    stores = [n for n in fv.cfg.nodes if n.kind == "stmt" and isinstance(n.ast, (ast.Assign, ast.AnnAssign)) and any(
        isinstance(t, ast.Attribute) and is_name(t.value, selfn) for t in (n.ast.targets if isinstance(n.ast, ast.Assign) else [n.ast.target]))]
    ctx.rep.floor(rule, "attribute stores of the plan", len(stores), 8)
    C = Poly.symbol(ast.Name(id="C", ctx=ast.Load()))
    instr_name, targets_name = _list_names(fv, f)
    planned_names = {x for x in (instr_name, targets_name) if x}
    bad = []
    for n in stores:
        ok = False
        for r, pol, raw in fv.rfacts_at(n.id):
            if isinstance(r, ast.Compare) and len(r.ops) == 1 and call_fname(r.left) == "len" and r.left.args:
                cm = to_cmp(r, pol)
                lhs = Poly.symbol(r.left)
                listed = r.left.args[0]
                planned = (is_sym(listed, "mut") and listed.args[0].value in planned_names) or (isinstance(listed, ast.Name) and listed.id in planned_names)
                if planned and cm is not None and (cm == Cmp(lhs - C, ">=") or cm == Cmp(lhs - C, "==")):
                    ok = True
        if not ok:
            bad.append(n)
    ctx.rep.check(not bad, rule, f"{f.qualname}/feasibility-first", f"all {len(stores)} attribute stores are dominated by the check that every column was planned",
                  f"`{stmt_key(bad[0].ast)[:50] if bad else ''}` (and {max(len(bad) - 1, 0)} more) can execute although fewer than C columns were planned: a partial plan is returned instead of ValueError", where=f.where(bad[0].ast) if bad else f.where())
    # the feasibility guard raises ValueError
    okc = False
    for n, test, pol, r in fv.raising_guards():
        rt = fv.res.resolve(test, n.id)
        if isinstance(rt, ast.Compare) and call_fname(rt.left) == "len" and pol and isinstance(rt.ops[0], ast.Lt) and is_name(rt.comparators[0], "C"):
            okc = raise_class(fv, r)[0] == "ValueError"
    # a nested raise (if infeasible: ...; if mode == ...: raise) is not a raising guard of the length test: accept only the direct shape
    if not okc:
        for n in fv.cfg.nodes:
            if n.kind == "test":
                rt = fv.res.resolve(n.ast, n.id)
                if isinstance(rt, ast.Compare) and call_fname(rt.left) == "len" and isinstance(rt.ops[0], ast.Lt) and is_name(rt.comparators[0], "C"):
                    t_succ = [s for s, lab in n.succ if lab == "T"]
                    if t_succ and fv.cfg.exit not in fv.cfg.reachable_from(t_succ[0]):
                        rs = [raise_class(fv, x.ast)[0] for x in fv.cfg.nodes if x.kind == "stmt" and isinstance(x.ast, ast.Raise) and x.id in fv.cfg.reachable_from(t_succ[0])]
                        okc = bool(rs) and set(rs) == {"ValueError"}
    ctx.rep.check(okc, rule, f"{f.qualname}/infeasible-raises", "an infeasible request raises ValueError on every path", "when fewer than C columns can be prepared, not every path raises ValueError", where=f.where())
    # argument guards
    need = {"stock<xmax": False, "mode": False, "len(vmax)": False}
    for n, test, pol, r in fv.raising_guards():
        if raise_class(fv, r)[0] != "ValueError":
            continue
        rt = fv.res.resolve(test, n.id)
        cm = to_cmp(rt, pol)
        if cm is not None and cm == Cmp(Poly.symbol(ast.Name(id="xmax", ctx=ast.Load())) - Poly.symbol(ast.Name(id="stock", ctx=ast.Load())), ">"):
            need["stock<xmax"] = True
        txt = show(rt)
        if "len(" in txt and "C" in txt and "vmax" in txt:
            need["len(vmax)"] = True
    for n, test, pol, r in fv.raising_guards():
        if not pol and isinstance(test, ast.Compare) and is_name(test.left, "mode") and isinstance(test.ops[0], ast.Eq) and raise_class(fv, r)[0] == "ValueError":
            need["mode"] = True
    for k, v in need.items():
        ctx.rep.check(v, rule, f"{f.qualname}/arg-guard[{k}]", f"invalid `{k}` raises ValueError", f"the argument check `{k}` does not raise ValueError", where=f.where())


def instructions(ctx) -> None:
    rule = "C14.instructions"
    f, fv = _init(ctx, rule)
    instr_name, targets_name = _list_names(fv, f)
    apps = [cs for cs in fv.calls() if isinstance(cs.call.func, ast.Attribute) and cs.call.func.attr == "append" and is_name(cs.call.func.value, instr_name)]
    ctx.rep.floor(rule, "appends to the instruction list", len(apps), 2)
    MT = Poly.symbol(ast.Name(id="min_transfer", ctx=ast.Load()))
    for cs in apps:
        tup = cs.call.args[0]
        if not (isinstance(tup, ast.Tuple) and len(tup.elts) == 4):
            ctx.rep.inconclusive(rule, f"{f.qualname}/append", "instruction is not a 4-tuple", where=f.where(cs.call))
            continue
        src_e = tup.elts[2]
        kind = "stock" if isinstance(src_e, ast.Constant) and src_e.value == "stock" else "serial"
        c = f"{f.qualname}/{kind}"
        w = f.where(cs.call)
        v = fv.res.resolve(tup.elts[3], cs.node)
        def is_whole(t, depth=0):
            """the value is a whole number: ceil/floor/rint/trunc/round(x, 0) of anything, or min/max of whole numbers"""
            fn_ = call_fname(t)
            if fn_ in ("ceil", "floor", "rint", "trunc", "fix"):
                return True
            if fn_ in ("round", "around", "round_"):
                return (len(t.args) < 2 or (isinstance(t.args[1], ast.Constant) and t.args[1].value == 0)) and not [k for k in t.keywords if k.arg == "decimals" and not (isinstance(k.value, ast.Constant) and k.value.value == 0)]
            if fn_ in ("minimum", "maximum", "fmin", "fmax", "min", "max") and len(t.args) >= 2 and depth < 3:
                return all(is_whole(a_, depth + 1) or (isinstance(a_, ast.Constant) and float(a_.value).is_integer()) for a_ in t.args)
            return False

        rounding = call_fname(v)
        whole = is_whole(v)
        ctx.rep.check(whole, "C14.whole-uL", c + "/rounding", f"transfer volumes are {rounding}(...) = whole microlitres", f"{kind} transfer volumes `{show(v)[:70]}` are not rounded to whole microlitres", where=w)
        # v <= vmax of the target column: capped by min(.., floor(vmax[c])) or guarded by all(v <= vmax[c])
        col = fv.res.resolve(tup.elts[0], cs.node)

        vmax_param = ast.Name(id="vmax", ctx=ast.Load())

        def is_vmax_of_col(e):
            # <normalised vmax>[<column of this instruction>]
            return isinstance(e, ast.Subscript) and is_name(strip_norm(e.value), "vmax") and key(e.slice) == key(col)

        def capped(t, depth=0):
            if isinstance(t, ast.Call) and call_fname(t) in ("minimum", "fmin", "clip", "min") and len(t.args) >= 2 and depth < 3:
                for a_ in t.args:
                    core = a_.args[0] if isinstance(a_, ast.Call) and call_fname(a_) in ("floor", "trunc", "int", "fix") and a_.args else a_
                    if is_vmax_of_col(core):
                        return True
                return any(capped(a_, depth + 1) for a_ in t.args)
            return False

        ok_cap = capped(v)
        if not ok_cap:
            for r, pol, br in fv.atoms_at(cs.node):
                if isinstance(r, ast.Call) and call_fname(r) == "all" and pol and r.args and isinstance(r.args[0], ast.Compare) and len(r.args[0].ops) == 1:
                    inner = r.args[0]
                    if key(inner.left) == key(v) and isinstance(inner.ops[0], ast.LtE) and is_vmax_of_col(inner.comparators[0]):
                        ok_cap = True
        ctx.rep.check(ok_cap, "C14.vmax-bound", c + "/vmax", "the planned volumes are capped at (or checked against) the vmax of the column they go into",
                      f"the {kind} transfer volumes `{show(v)[:60]}` are rounded to whole microlitres but never compared with the vmax of column `{show(col)[:20]}`: for a non-integer vmax the "
                      "rounded volume can exceed it (951 uL into a 950.6 uL column)", where=w)
        # dominated by all(v >= min_transfer) on the very vector that is appended
        ok_min = False
        for r, pol, br in fv.atoms_at(cs.node):
            if isinstance(r, ast.Call) and call_fname(r) == "all" and pol and r.args and isinstance(r.args[0], ast.Compare) and len(r.args[0].ops) == 1:
                inner = r.args[0]
                if key(inner.left) == key(v) and isinstance(inner.ops[0], ast.GtE) and is_name(inner.comparators[0], "min_transfer"):
                    ok_min = True
        ctx.rep.check(ok_min, "C14.min-transfer", c + "/min", "the appended volumes satisfy all(v >= min_transfer)", f"the {kind} instruction is appended without all(<these volumes> >= min_transfer) being established", where=w)
        # the achieved concentrations grow together with the instructions
        blk = [x for x in fv.calls() if isinstance(x.call.func, ast.Attribute) and x.call.func.attr == "append" and is_name(x.call.func.value, targets_name)
               and {(key(r), p) for r, p, br in fv.atoms_at(x.node)} == {(key(r), p) for r, p, br in fv.atoms_at(cs.node)} and fv.cfg.enclosing_loops(x.node) == fv.cfg.enclosing_loops(cs.node)]
        ctx.rep.check(len(blk) == 1, "C14.earlier-source", c + "/parallel-lists", "instructions and actual_targets grow together", "the instruction is appended without its achieved concentrations (or vice versa): later lookups by column index are misaligned", where=w)
        if len(blk) == 1 and blk[0].call.args:
            # ... and are the concentrations these very volumes produce (not those of the volumes before capping / rounding)
            at_ = fv.res.resolve(blk[0].call.args[0], blk[0].node)
            kv = key(v)
            uses_v = any(key(x) == kv for x in ast.walk(at_))
            ctx.rep.check(uses_v, "C14.achieved", c + "/achieved-from-instruction", "the recorded concentrations are computed from the instruction's own volumes",
                          f"the achieved concentrations `{show(at_)[:70]}` are not computed from the volumes of the instruction (`{show(v)[:50]}`): the plan reports concentrations that "
                          "executing its instructions does not produce", where=f.where(blk[0].call))
        if kind == "stock":
            # instructions[i] must describe column i (the serial loop continues at len(instructions) and indexes the list by
            # column): the stock loop has to stop at the first column it cannot prepare instead of skipping it
            loops = [h for h in fv.cfg.enclosing_loops(cs.node) if fv.cfg.nodes[h].kind == "for"]
            if loops:
                h = loops[-1]
                body = fv.cfg.loop_body[h]
                # a path through the body that reaches the next iteration without passing the append
                nxt = fv.cfg.reachable_from(min(body), {cs.node}) if body else set()
                skips = h in {s_ for x in nxt if x in body for s_, lab in fv.cfg.nodes[x].succ if lab != "exc"} or any(
                    fv.cfg.nodes[x].kind == "stmt" and isinstance(fv.cfg.nodes[x].ast, ast.Continue) for x in nxt if x in body)
                ctx.rep.check(not skips, "C14.earlier-source", c + "/prefix", "the stock loop stops at the first column that cannot be prepared from the stock",
                              "the stock loop can skip a column and go on with the next one: the instruction list is then no longer indexed by column (columns are planned from the wrong source / twice)", where=w)
        if kind == "serial":
            src = fv.res.resolve(src_e, cs.node)
            ep = src.args if is_sym(src, "elem") else None
            ok_src = False
            if ep is not None:
                it = ep[1]
                if isinstance(it, ast.Call) and call_fname(it) == "range" and it.args:
                    hi = it.args[-1]
                    lo = it.args[0] if len(it.args) > 1 else ast.Constant(value=0)
                    ok_src = isinstance(lo, ast.Constant) and lo.value == 0 and call_fname(hi) == "len" and hi.args and (is_name(strip_norm(hi.args[0]), instr_name) or (is_sym(hi.args[0], "mut") and hi.args[0].args[0].value in (instr_name, targets_name)))
            if is_sym(src, "idx") and len(src.args) >= 2:
                # for src_c, entry in enumerate(instructions): the index of the instructions planned so far
                seq_ = src.args[1]
                ok_src = (is_name(strip_norm(seq_), instr_name) or (is_sym(seq_, "mut") and seq_.args[0].value in (instr_name, targets_name))) and not any(
                    isinstance(x, ast.Call) and call_fname(x) == "enumerate" and len(x.args) + len(x.keywords) > 1 for x in [fv.cfg.nodes[int(src.args[0].value.split("@")[1])].ast.iter] if isinstance(src.args[0], ast.Constant) and str(src.args[0].value).startswith("loop@"))
            ctx.rep.check(ok_src, "C14.earlier-source", c + "/source-range", "the source column ranges over the columns planned so far",
                          f"the source column `{show(src)[:60]}` does not range over range(0, len(instructions)): a column could be prepared from one that is not prepared yet", where=w)
            # budget: guard all(v <= remaining[src]) and update remaining[src] = remaining[src] - v
            ok_budget = False
            rem_name = None
            src_loop = src.args[0].value if (is_sym(src, "elem") or is_sym(src, "idx")) and isinstance(src.args[0], ast.Constant) else None

            def rem_of(t):
                """remaining[src]  (or its index-loop form §elem(loop of src, remaining)) -> name of the list"""
                base = None
                if isinstance(t, ast.Subscript) and key(t.slice) == key(src):
                    base = t.value
                elif is_sym(t, "elem") and isinstance(t.args[0], ast.Constant) and t.args[0].value == src_loop:
                    base = t.args[1]
                if base is None:
                    return None
                if is_sym(base, "mut"):
                    return base.args[0].value
                return base.id if isinstance(base, ast.Name) else None

            for r, pol, br in fv.atoms_at(cs.node):
                if isinstance(r, ast.Call) and call_fname(r) == "all" and pol and r.args and isinstance(r.args[0], ast.Compare) and len(r.args[0].ops) == 1:
                    inner = r.args[0]
                    if key(inner.left) == key(v) and isinstance(inner.ops[0], ast.LtE) and rem_of(inner.comparators[0]) is not None:
                        ok_budget = True
                        rem_name = rem_of(inner.comparators[0])
                    elif key(inner.comparators[0]) == key(v) and isinstance(inner.ops[0], ast.GtE) and rem_of(inner.left) is not None:
                        ok_budget = True
                        rem_name = rem_of(inner.left)
            ctx.rep.check(ok_budget, "C14.budget", c + "/guard", "every draw is dominated by all(v <= remaining volume of the source column)",
                          "no test compares the drawn volumes with what the chosen source column still holds: several columns can be prepared from one source column beyond its content", where=w)
            if ok_budget and rem_name:
                here = {(key(r), p) for r, p, br in fv.atoms_at(cs.node)}
                upd = []
                for n in fv.cfg.nodes:
                    if n.kind == "stmt" and isinstance(n.ast, (ast.Assign, ast.AugAssign)):
                        tg = n.ast.targets[0] if isinstance(n.ast, ast.Assign) else n.ast.target
                        if isinstance(tg, ast.Subscript) and is_name(tg.value, rem_name) and {(key(r), p) for r, p, br in fv.atoms_at(n.id)} == here and fv.cfg.enclosing_loops(n.id) == fv.cfg.enclosing_loops(cs.node):
                            upd.append(n)
                ok_upd = False
                detail = f"`{rem_name}[src]` is not updated after the draw"
                if len(upd) == 1:
                    u = upd[0].ast
                    tgt = u.targets[0] if isinstance(u, ast.Assign) else u.target
                    same_idx = key(fv.res.resolve(tgt.slice, upd[0].id)) == key(src)
                    if isinstance(u, ast.AugAssign):
                        ok_upd = same_idx and isinstance(u.op, ast.Sub) and key(fv.res.resolve(u.value, upd[0].id)) == key(v)
                    else:
                        val = u.value
                        ok_upd = same_idx and isinstance(val, ast.BinOp) and isinstance(val.op, ast.Sub) and isinstance(val.left, ast.Subscript) and is_name(val.left.value, rem_name) \
                            and key(fv.res.resolve(val.left.slice, upd[0].id)) == key(src) and key(fv.res.resolve(val.right, upd[0].id)) == key(v)
                    if not ok_upd:
                        detail = f"`{stmt_key(u)[:70]}` does not subtract the draw from the previous remaining volume of the same column: earlier draws are forgotten"
                ctx.rep.check(ok_upd, "C14.budget", c + "/update", "remaining[src] = remaining[src] - draw", detail, where=f.where(upd[0].ast) if upd else w)
                news = [x for x in fv.calls() if isinstance(x.call.func, ast.Attribute) and x.call.func.attr == "append" and is_name(x.call.func.value, rem_name)]

                def same_block(x, a_):
                    return {(key(r), p) for r, p, br in fv.atoms_at(x.node)} == {(key(r), p) for r, p, br in fv.atoms_at(a_.node)} and fv.cfg.enclosing_loops(x.node) == fv.cfg.enclosing_loops(a_.node)

                per_block = all(any(same_block(x, a_) for x in news) for a_ in apps)
                ctx.rep.check(per_block, "C14.budget", f"{f.qualname}/remaining-init", "every planned column gets its own remaining-volume entry", "a planned column gets no remaining-volume entry: the budget list is misaligned with the instructions", where=w)


def totals(ctx) -> None:
    """The reported consumption: v_stock = sum of the stock draws, v_diluent = everything that ends up in the plate minus
    the stock (liquid moved between columns is neither), i.e. sum(R * vmax) - v_stock."""
    rule = "C14.totals"
    f, fv = _init(ctx, rule)
    selfn = f.params[0]
    instr_name, _t = _list_names(fv, f)
    stores = {}
    for n in fv.cfg.nodes:
        if n.kind == "stmt" and isinstance(n.ast, (ast.Assign, ast.AnnAssign)) and n.ast.value is not None:
            t = n.ast.targets[0] if isinstance(n.ast, ast.Assign) else n.ast.target
            for attr in ("v_stock", "v_diluent"):
                if attr_of_name(t, selfn, attr):
                    stores[attr] = n
    for attr in ("v_stock", "v_diluent"):
        if attr not in stores:
            ctx.rep.inconclusive(rule, f"{f.qualname}/{attr}", f"store of self.{attr} not found", where=f.where())
            return
    # v_stock: sum over the instructions with dilution step 0
    n = stores["v_stock"]
    raw, at = fv.def_expr(n.ast.value, n.id)
    ok = False
    if isinstance(raw, ast.Call) and call_fname(raw) == "sum" and raw.args and isinstance(raw.args[0], ast.Name):
        # the summed list may be bound to a local first
        inner, _at = fv.def_expr(raw.args[0], at if at is not None else n.id)
        if isinstance(inner, (ast.ListComp, ast.GeneratorExp)):
            raw = ast.Call(func=raw.func, args=[inner] + list(raw.args[1:]), keywords=raw.keywords)
    if isinstance(raw, ast.Call) and call_fname(raw) == "sum" and raw.args and isinstance(raw.args[0], (ast.ListComp, ast.GeneratorExp)) and len(raw.args[0].generators) == 1:
        comp = raw.args[0]
        g = comp.generators[0]
        if isinstance(g.target, ast.Tuple) and len(g.target.elts) == 4 and all(isinstance(e, ast.Name) for e in g.target.elts) and (is_name(g.iter, instr_name) or attr_of_name(g.iter, selfn, "instructions")):
            dstep, vol = g.target.elts[1].id, g.target.elts[3].id
            flt = len(g.ifs) == 1 and isinstance(g.ifs[0], ast.Compare) and len(g.ifs[0].ops) == 1 and isinstance(g.ifs[0].ops[0], ast.Eq) and is_name(g.ifs[0].left, dstep) \
                and isinstance(g.ifs[0].comparators[0], ast.Constant) and g.ifs[0].comparators[0].value == 0
            ok = flt and is_name(comp.elt, vol)
        elif isinstance(g.target, ast.Name) and (is_name(g.iter, instr_name) or attr_of_name(g.iter, selfn, "instructions")):
            # the same sum with the instruction's fields read by position: [ins[3] for ins in instructions if ins[1] == 0]
            t_ = g.target.id

            def field(e, k):
                return isinstance(e, ast.Subscript) and is_name(e.value, t_) and isinstance(e.slice, ast.Constant) and e.slice.value == k and not isinstance(e.slice.value, bool)

            flt = len(g.ifs) == 1 and isinstance(g.ifs[0], ast.Compare) and len(g.ifs[0].ops) == 1 and isinstance(g.ifs[0].ops[0], ast.Eq) and field(g.ifs[0].left, 1) \
                and isinstance(g.ifs[0].comparators[0], ast.Constant) and g.ifs[0].comparators[0].value == 0
            ok = flt and field(comp.elt, 3)
    ctx.rep.check(ok if ok else None, rule, f"{f.qualname}/v_stock", "v_stock = sum of the volumes of the instructions that draw from the stock (dilution step 0)",
                  f"cannot recognise `{show(raw)[:70]}` as the sum of the stock draws", where=f.where(n.ast))
    # v_diluent
    n = stores["v_diluent"]
    raw, at = fv.def_expr(n.ast.value, n.id)
    c = f"{f.qualname}/v_diluent"
    w = f.where(n.ast)

    def is_total(e):
        # numpy.sum(R * vmax_arr)
        if isinstance(e, ast.Call) and call_fname(e) == "sum" and len(e.args) == 1 and isinstance(e.args[0], ast.BinOp) and isinstance(e.args[0].op, ast.Mult):
            a, b = e.args[0].left, e.args[0].right
            names = {getattr(fv.res.resolve(x, at), "id", None) if not isinstance(x, ast.Name) else x.id for x in (a, b)}
            vmax_like = any(isinstance(x, ast.Name) and "vmax" in x.id for x in (a, b))
            return "R" in names and vmax_like
        return False

    if isinstance(raw, ast.Call) and call_fname(raw) in ("round", "around", "rint", "floor", "trunc", "int", "fix") and raw.args and isinstance(raw.args[0], ast.BinOp) \
            and isinstance(raw.args[0].op, ast.Sub) and is_total(raw.args[0].left):
        ctx.rep.refuted(rule, c, f"v_diluent is `{show(raw)[:60]}`: rounding can take the reported volume below what the instructions consume (sum(R * vmax) - v_stock with a fractional "
                        "vmax) - executing the plan then needs more diluent than the plan says", where=w)
        return
    if isinstance(raw, ast.BinOp) and isinstance(raw.op, ast.Sub) and is_total(raw.left) and (attr_of_name(raw.right, selfn, "v_stock") or key(fv.def_expr(raw.right, at)[0]) == key(fv.def_expr(stores["v_stock"].ast.value, stores["v_stock"].id)[0])):
        ctx.rep.holds(rule, c, "v_diluent = sum(R * vmax) - v_stock", where=w)
        return
    if isinstance(raw, ast.BinOp) and is_total(raw.left) and (attr_of_name(raw.right, selfn, "v_stock")) and not isinstance(raw.op, ast.Sub):
        ctx.rep.refuted(rule, c, f"v_diluent is `{show(raw)[:60]}`: the stock volume has to be subtracted from what ends up in the plate", where=w)
        return
    if isinstance(raw, ast.BinOp) and isinstance(raw.op, ast.Sub) and attr_of_name(raw.right, selfn, "v_stock") and isinstance(raw.left, ast.Call) and call_fname(raw.left) == "sum" and not is_total(raw.left):
        ctx.rep.refuted(rule, c, f"v_diluent is `{show(raw)[:60]}`: the total is not sum(R * vmax), the volume of all wells of the plan", where=w)
        return
    # a running total: every planned column contributes sum(vmax[<that column>] - <its draw>)
    if isinstance(n.ast.value, ast.Name):
        acc = n.ast.value.id
        incs = [x for x in fv.cfg.nodes if x.kind == "stmt" and isinstance(x.ast, ast.AugAssign) and is_name(x.ast.target, acc)]
        apps = [cs for cs in fv.calls() if isinstance(cs.call.func, ast.Attribute) and cs.call.func.attr == "append" and is_name(cs.call.func.value, instr_name)]
        if incs and len(incs) == len(apps):
            bad = None
            for inc in incs:
                here = {(key(r), p) for r, p, br in fv.atoms_at(inc.id)}
                mate = [cs for cs in apps if {(key(r), p) for r, p, br in fv.atoms_at(cs.node)} == here and fv.cfg.enclosing_loops(cs.node) == fv.cfg.enclosing_loops(inc.id)]
                v = inc.ast.value
                inner = v.args[0] if isinstance(v, ast.Call) and call_fname(v) == "sum" and v.args else v
                if len(mate) != 1 or not isinstance(inc.ast.op, ast.Add) or not (isinstance(inner, ast.BinOp) and isinstance(inner.op, ast.Sub) and isinstance(inner.left, ast.Subscript)):
                    bad = (inc, "unrecognised contribution")
                    continue
                tup = mate[0].call.args[0]
                col = fv.res.resolve(tup.elts[0], mate[0].node)
                draw = fv.res.resolve(tup.elts[3], mate[0].node)
                if key(fv.res.resolve(inner.left.slice, inc.id)) != key(col):
                    bad = (inc, f"the column filled up is `{show(col)[:30]}` but the capacity of column `{show(fv.res.resolve(inner.left.slice, inc.id))[:30]}` is counted")
                elif key(fv.res.resolve(inner.right, inc.id)) != key(draw):
                    bad = (inc, "the volume subtracted is not the draw of this instruction")
            if bad and bad[1] != "unrecognised contribution":
                ctx.rep.refuted(rule, c, f"`{stmt_key(bad[0].ast)[:70]}`: {bad[1]} - the reported diluent consumption differs from what executing the plan needs", where=f.where(bad[0].ast))
                return
            if not bad:
                ctx.rep.holds(rule, c, "v_diluent accumulates sum(vmax[column] - draw) for every planned column", where=w)
                return
    ctx.rep.inconclusive(rule, c, f"cannot relate `{show(raw)[:70]}` to sum(R * vmax) - v_stock", where=w)


def to_worklist(ctx) -> None:
    rule = "C14.execute-pairing"
    f = ctx.prog.require_func("DilutionPlan.to_worklist", rule)
    fv = ctx.fv(f)
    selfn = f.params[0]
    # the map source column -> [(target column, volumes)] collects every serial instruction
    maps = [n for n in fv.cfg.nodes if n.kind == "stmt" and ((isinstance(n.ast, ast.Assign) and isinstance(n.ast.targets[0], ast.Name) and "serial" in n.ast.targets[0].id)
                                                            or (isinstance(n.ast, ast.AnnAssign) and n.ast.value is not None and isinstance(n.ast.target, ast.Name) and "serial" in n.ast.target.id))]
    if len(maps) > 1:
        # the map may be created under one name and handed on under another (helper result): keep the creating definition
        maps = [n for n in maps if not isinstance(n.ast.value, ast.Name)] or maps
    if not maps:
        # the map kept on the object: it must be created anew by every execution, otherwise a second to_worklist() on the same
        # plan (EVO, then Fluent) finds the first run's entries and performs every serial transfer once more
        for cs in fv.calls():
            fn = cs.call.func
            if isinstance(fn, ast.Attribute) and fn.attr == "append" and isinstance(fn.value, ast.Subscript) and isinstance(fn.value.value, ast.Attribute) and is_name(fn.value.value.value, selfn):
                attr = fn.value.value.attr
                loops_ = [h for h in fv.cfg.enclosing_loops(cs.node) if fv.cfg.nodes[h].kind == "for" and attr_of_name(fv.cfg.nodes[h].ast.iter, selfn, "instructions")]
                if not loops_:
                    continue
                resets = [n for n in fv.cfg.nodes if n.kind == "stmt" and isinstance(n.ast, (ast.Assign, ast.AnnAssign)) and attr_of_name(n.ast.targets[0] if isinstance(n.ast, ast.Assign) else n.ast.target, selfn, attr)
                          and fv.cfg.dominates(n.id, loops_[0])]
                clears = [c2 for c2 in fv.calls() if isinstance(c2.call.func, ast.Attribute) and c2.call.func.attr == "clear" and attr_of_name(c2.call.func.value, selfn, attr) and fv.cfg.dominates(c2.node, loops_[0])]
                if not resets and not clears:
                    ctx.rep.refuted(rule, f"{f.qualname}/serial-map", f"the (target column, volumes) entries are appended to `self.{attr}`, which is not created anew (or cleared) by to_worklist: executing the same plan a second "
                                    "time (on another worklist / device) finds the entries of the first run and performs every serial transfer twice", where=f.where(cs.call))
                    return
    if len(maps) != 1:
        ctx.rep.inconclusive(rule, f"{f.qualname}/serial-map", f"serial-dilution map not found ({len(maps)})")
        return
    mname = maps[0].ast.targets[0].id if isinstance(maps[0].ast, ast.Assign) else maps[0].ast.target.id
    mv = maps[0].ast.value
    # the map created under another name (the result of an expanded helper): follow single, dominating definitions
    hops = 0
    while isinstance(mv, ast.Name) and hops < 4:
        hops += 1
        defs_ = [n for n in fv.cfg.nodes if n.kind == "stmt" and isinstance(n.ast, ast.Assign) and len(n.ast.targets) == 1 and is_name(n.ast.targets[0], mv.id)]
        if len(defs_) != 1 or not fv.cfg.dominates(defs_[0].id, maps[0].id):
            break
        maps = [defs_[0]]
        mname = mv.id
        mv = defs_[0].ast.value
    is_dd = isinstance(mv, ast.Call) and call_fname(mv) == "defaultdict" and mv.args and is_name(mv.args[0], "list")
    apps = [cs for cs in fv.calls() if isinstance(cs.call.func, ast.Attribute) and cs.call.func.attr == "append" and isinstance(cs.call.func.value, ast.Subscript) and is_name(cs.call.func.value.value, mname)]
    key_of = {id(cs): cs.call.func.value.slice for cs in apps}
    if not apps and ((isinstance(mv, ast.Dict) and not mv.keys) or (isinstance(mv, ast.Call) and call_fname(mv) == "dict" and not mv.args and not mv.keywords)):
        # a plain dict filled with D.setdefault(src, []).append(..): the same "list per source column"
        for cs in fv.calls():
            fn = cs.call.func
            if isinstance(fn, ast.Attribute) and fn.attr == "append" and isinstance(fn.value, ast.Call) and call_fname(fn.value) == "setdefault" and isinstance(fn.value.func, ast.Attribute) \
                    and is_name(fn.value.func.value, mname) and len(fn.value.args) == 2 and isinstance(fn.value.args[1], ast.List) and not fn.value.args[1].elts:
                apps.append(cs)
                key_of[id(cs)] = fn.value.args[0]
        is_dd = bool(apps)
    ok_map = False
    detail = f"`{mname}` is built as `{show(mv)[:70]}`"
    if is_dd and len(apps) == 1:
        cs = apps[0]
        loops = [h for h in fv.cfg.enclosing_loops(cs.node) if fv.cfg.nodes[h].kind == "for"]
        if loops:
            lp = fv.cfg.nodes[loops[-1]]
            it_ok = attr_of_name(lp.ast.iter, selfn, "instructions") and not fv.cfg.loop_has_break.get(lp.id)
            tgt = lp.ast.target
            names = [getattr(e, "id", None) for e in tgt.elts] if isinstance(tgt, ast.Tuple) else []
            ctrl = fv.controlling(cs.node, within=fv.cfg.loop_body[lp.id])
            cond_ok = len(ctrl) == 1 and isinstance(fv.cfg.nodes[ctrl[0][0]].ast, ast.Compare) and is_name(fv.cfg.nodes[ctrl[0][0]].ast.left, names[2] if len(names) == 4 else "?") \
                and isinstance(fv.cfg.nodes[ctrl[0][0]].ast.comparators[0], ast.Constant) and fv.cfg.nodes[ctrl[0][0]].ast.comparators[0].value == "stock" \
                and (isinstance(fv.cfg.nodes[ctrl[0][0]].ast.ops[0], ast.NotEq) == ctrl[0][1])
            arg = cs.call.args[0]
            pair_ok = len(names) == 4 and isinstance(arg, ast.Tuple) and [getattr(e, "id", None) for e in arg.elts] == [names[0], names[3]] and is_name(key_of[id(cs)], names[2])
            ok_map = it_ok and cond_ok and pair_ok
            if not ok_map:
                detail = "the per-source list of (target column, volumes) is not appended for every non-stock instruction"
    elif not is_dd:
        detail += ": not a list per source column that is appended to - only one target per source survives when several columns are diluted from the same column"
    ctx.rep.check(ok_map, rule, f"{f.qualname}/serial-map", "every serial instruction is appended to the list of its source column", detail, where=f.where(maps[0].ast))
    # main loop over the instructions
    mains = [n for n in fv.cfg.nodes if n.kind == "for" and attr_of_name(n.ast.iter, selfn, "instructions") and any(cs.node in fv.cfg.loop_body[n.id] for cs in fv.calls() if call_fname(cs.call) == "transfer")]
    if len(mains) != 1:
        ctx.rep.inconclusive(rule, f"{f.qualname}/main-loop", "main loop over self.instructions not found")
        return
    main = mains[0]
    body = fv.cfg.loop_body[main.id]
    names = [getattr(e, "id", None) for e in main.ast.target.elts] if isinstance(main.ast.target, ast.Tuple) else []
    if len(names) != 4:
        ctx.rep.inconclusive(rule, f"{f.qualname}/main-loop", "loop target is not (col, steps, src, volumes)")
        return
    col, _, src, vsrc = names
    transfers = [cs for cs in fv.calls() if cs.node in body and call_fname(cs.call) == "transfer" and isinstance(cs.call.func, ast.Attribute) and is_name(cs.call.func.value, "worklist")]
    ctx.rep.floor(rule, "transfer calls in to_worklist", len(transfers), 5)

    def arg(cs, i, name):
        if len(cs.call.args) > i:
            return cs.call.args[i]
        for k in cs.call.keywords:
            if k.arg == name:
                return k.value
        return None

    def col_slice(e, plate: str, colname: str, at=None) -> bool:
        """<plate>.wells[: self.R, <col>]  (also through a local name bound once, before the call, to exactly that expression)"""
        if isinstance(e, ast.Name) and at is not None:
            defs_ = [n for n in fv.cfg.nodes if n.kind == "stmt" and isinstance(n.ast, ast.Assign) and len(n.ast.targets) == 1 and is_name(n.ast.targets[0], e.id)]
            others = [n for n in fv.cfg.nodes if n.kind in ("stmt", "for") and n not in defs_ and any(isinstance(x, ast.Name) and x.id == e.id and isinstance(x.ctx, (ast.Store, ast.Del)) for x in ast.walk(n.ast.target if n.kind == "for" else n.ast))]
            if len(defs_) == 1 and not others and defs_[0].id in body and fv.cfg.dominates(defs_[0].id, at):
                e = defs_[0].ast.value
        return isinstance(e, ast.Subscript) and attr_of_name(e.value, plate, "wells") and isinstance(e.slice, ast.Tuple) and len(e.slice.elts) == 2 \
            and isinstance(e.slice.elts[0], ast.Slice) and e.slice.elts[0].lower is None and attr_of_name(e.slice.elts[0].upper, selfn, "R") and is_name(e.slice.elts[1], colname)

    seen = set()
    for cs in transfers:
        s_lab, s_wells, d_lab, d_wells, vol = arg(cs, 0, "source"), arg(cs, 1, "source_wells"), arg(cs, 2, "destination"), arg(cs, 3, "destination_wells"), arg(cs, 4, "volumes")
        w = f.where(cs.call)
        if is_name(s_lab, "stock"):
            seen.add("stock")
            ok = is_name(d_lab, "dilution_plate") and col_slice(d_wells, "dilution_plate", col, cs.node) and is_name(vol, vsrc)
            ctrl = fv.controlling(cs.node, within=body)
            ok = ok and any(isinstance(fv.cfg.nodes[d].ast, ast.Compare) and is_name(fv.cfg.nodes[d].ast.left, src) and pol == isinstance(fv.cfg.nodes[d].ast.ops[0], ast.Eq) for d, pol in ctrl)
            ctx.rep.check(ok, rule, f"{f.qualname}/stock-transfer", "stock instructions transfer their own volumes into their own column", "the stock transfer does not move the instruction's volumes into rows [:R] of the instruction's column (only for stock instructions)", where=w)
        elif is_name(s_lab, "diluent"):
            seen.add("diluent")
            want = Poly.symbol(ast.Subscript(value=ast.Attribute(value=ast.Name(id=selfn, ctx=ast.Load()), attr="vmax", ctx=ast.Load()), slice=ast.Name(id=col, ctx=ast.Load()), ctx=ast.Load())) - Poly.symbol(ast.Name(id=vsrc, ctx=ast.Load()))
            ok = is_name(d_lab, "dilution_plate") and col_slice(d_wells, "dilution_plate", col, cs.node) and vol is not None and to_poly(vol) == want and not fv.controlling(cs.node, within=body)
            ctx.rep.check(ok, rule, f"{f.qualname}/diluent-transfer", "every column is filled up with vmax[col] - v_src of diluent", f"the diluent volume is `{show(vol) if vol is not None else None}` / target is not rows [:R] of the column: expected self.vmax[col] - v_src for every instruction", where=w)
        elif is_name(s_lab, "dilution_plate") and is_name(d_lab, "dilution_plate"):
            loops = [h for h in fv.cfg.enclosing_loops(cs.node) if fv.cfg.nodes[h].kind == "for" and h != main.id]
            inner = fv.cfg.nodes[loops[-1]] if loops else None
            if inner is not None and isinstance(inner.ast.iter, (ast.Subscript, ast.Call)) and (mname in show(inner.ast.iter) or mname in show(fv.res.resolve(inner.ast.iter, inner.id)) or any(
                    isinstance(x, ast.Name) and is_name(fv.alias_root(x, inner.id), mname) for x in ast.walk(inner.ast.iter))):
                seen.add("serial")
                tn = [getattr(e, "id", None) for e in inner.ast.target.elts] if isinstance(inner.ast.target, ast.Tuple) else []
                it = inner.ast.iter
                key_ok = (isinstance(it, ast.Subscript) and is_name(it.slice, col)) or (isinstance(it, ast.Call) and call_fname(it) == "get" and it.args and is_name(it.args[0], col))
                ok = len(tn) == 2 and key_ok and col_slice(s_wells, "dilution_plate", col, cs.node) and col_slice(d_wells, "dilution_plate", tn[0], cs.node) and is_name(vol, tn[1])
                ctx.rep.check(ok, rule, f"{f.qualname}/serial-transfer", "serial transfers go from the finished column to each of its targets with the planned volumes",
                              "a serial transfer does not take (target column, volumes) of the current column's list and move them from column `col` to that target", where=w)
            else:
                seen.add("mix")
                # the mixing volume never exceeds what the column holds: vmax[col] * mix_volume (capped by the worklist's limit),
                # not rounded - rounding to whole microlitres can go up (100.75 -> 101 uL out of a 100.75 uL well)
                vt = fv.res.resolve(vol, cs.node) if vol is not None else None
                if vt is not None:
                    rounded = [call_fname(x) for x in ast.walk(vt) if isinstance(x, ast.Call) and not is_sym(x) and call_fname(x) in ("round", "around", "round_", "ceil", "rint")
                               and any(isinstance(y, ast.Name) and y.id == "mix_volume" for y in ast.walk(x))]
                    ctx.rep.check(not rounded, rule, f"{f.qualname}/mix-volume[{stmt_key(cs.call)[:30]}]", "the mixing volume is at most vmax[col] * mix_volume",
                                  f"the mixing volume `{show(vt)[:70]}` is rounded ({rounded[0] if rounded else ''}): it can exceed the content of the column (non-integer vmax, mix_volume near 1) and the "
                                  "mixing step is refused with VolumeUnderflowError", where=w)
        elif is_name(d_lab, "destination_plate"):
            seen.add("destination")
    ctx.rep.check({"stock", "diluent", "serial"} <= seen, rule, f"{f.qualname}/all-kinds", "stock, diluent and serial transfers are all executed", f"only {sorted(seen)} transfer kinds found in to_worklist", where=f.where())


def execute_guards(ctx) -> None:
    """to_worklist refuses a plate only when the *plan* does not fit: every raising test on the rows / columns of the dilution or
    destination plate compares them with the plan's own R / C (helpers expanded; an attribute read of `.shape[k]` counts like
    `.n_rows` / `.n_columns`)."""
    rule = "C14.execute-guards"
    f = ctx.prog.require_func("DilutionPlan.to_worklist", rule)
    fv = ctx.fv(f)
    selfn = f.params[0]
    plates = ("dilution_plate", "destination_plate")

    def dim_of(e):
        """(plate, 'rows' | 'columns') when e reads a dimension of one of the plates"""
        if isinstance(e, ast.Attribute) and isinstance(e.value, ast.Name) and e.value.id in plates and e.attr in ("n_rows", "n_columns"):
            return e.value.id, "rows" if e.attr == "n_rows" else "columns"
        if isinstance(e, ast.Subscript) and isinstance(e.value, ast.Attribute) and e.value.attr == "shape" and isinstance(e.value.value, ast.Name) and e.value.value.id in plates \
                and isinstance(e.slice, ast.Constant) and e.slice.value in (0, 1):
            return e.value.value.id, "rows" if e.slice.value == 0 else "columns"
        return None

    seen = {}
    # the tests of the `if` statements that enclose each raise (with the branch taken), split into atoms
    parents = {}
    for p_ in ast.walk(f.node):
        for ch in ast.iter_child_nodes(p_):
            parents[id(ch)] = p_

    def enclosing_atoms(stmt):
        out = []
        cur = stmt
        while id(cur) in parents:
            par = parents[id(cur)]
            if isinstance(par, ast.If) and cur is not par.test:
                pol = any(cur is x for x in par.body)

                def split(e, p):
                    if isinstance(e, ast.UnaryOp) and isinstance(e.op, ast.Not):
                        split(e.operand, not p)
                    elif isinstance(e, ast.BoolOp) and ((isinstance(e.op, ast.And) and p) or (isinstance(e.op, ast.Or) and not p)):
                        for v_ in e.values:
                            split(v_, p)
                    else:
                        out.append((e, p))

                split(par.test, pol)
            cur = par
        return out

    for rn in fv.cfg.nodes:
        if rn.kind != "stmt" or not isinstance(rn.ast, ast.Raise):
            continue
        for raw, pol in enclosing_atoms(rn.ast):
            r = fv.res.resolve(raw, rn.id)
            if not (isinstance(r, ast.Compare) and len(r.ops) == 1):
                continue
            a, b = r.left, r.comparators[0]
            for side, other, flip in ((a, b, False), (b, a, True)):
                d = dim_of(side)
                if d is None:
                    continue
                plate, axis = d
                op = type(r.ops[0])
                # the raise is reached when  dim < bound  (written in any of the equivalent ways)
                less = (op is ast.Lt and pol and not flip) or (op is ast.GtE and not pol and not flip) or (op is ast.Gt and pol and flip) or (op is ast.LtE and not pol and flip)
                want = "R" if axis == "rows" else "C"
                ok = less and isinstance(other, ast.Attribute) and is_name(other.value, selfn) and other.attr == want
                c = f"{f.qualname}/{plate}.{axis}"
                seen[(plate, axis)] = True
                ctx.rep.check(ok, rule, c, f"{plate} is refused exactly when it has fewer {axis} than the plan (self.{want})",
                              f"{plate} is refused when `{show(r)[:70]}` is {pol}: the {axis} of the plate are not compared with the plan's own self.{want} - a plate that has room for the plan is "
                              "refused (or one that is too small is accepted)", where=f.where(rn.ast))
    # ... and a plate that does not fit is refused before anything was executed: no call on the worklist (transfer, commit,
    # comment ..) can run before a plate-size raise is reached - otherwise the refused request has already consumed stock and
    # left records behind, and the plan cannot be executed as planned on the same labware afterwards
    effects = [cs for cs in fv.calls() if isinstance(cs.call.func, ast.Attribute) and is_name(cs.call.func.value, "worklist")]
    late = []
    for rn in fv.cfg.nodes:
        if rn.kind == "stmt" and isinstance(rn.ast, ast.Raise) and any(dim_of(x) is not None for raw, _p in enclosing_atoms(rn.ast) for x in ast.walk(fv.res.resolve(raw, rn.id))):
            for cs in effects:
                if fv.cfg.reaches(cs.node, rn.id):
                    late.append((rn, cs))
                    break
    ctx.rep.check(not late, rule, f"{f.qualname}/guards-before-effects", f"the plate-size refusals are reached before any of the {len(effects)} calls on the worklist",
                  (f"the plate-size refusal at line {late[0][0].ast.lineno} can be reached after `{show(late[0][1].call)[:60]}` has run: a request that is refused has already been executed in part "
                   "(records appended, stock and diluent consumed, plate filled)") if late else "", where=f.where(late[0][0].ast) if late else f.where())
    ctx.rep.floor(rule, "plate-size guards of to_worklist", len(seen), 4)
