"""C04 - exact volume bookkeeping per real well, including trough aliasing (shape of the update loop)."""
from __future__ import annotations

import ast
from typing import List, Optional, Tuple

from ..canon import Cmp, Poly, to_cmp, to_poly
from ..defuse import flatten_order, is_sym, key, norm_chains, show, strip_norm, sym
from ..engine import own_walk
from ..model import AnalysisInconclusive
from . import labware_loop as LL
from .common import call_fname, elem_parts, has_unknown, same_seq, seq_transformers, stmt_key, is_name

EXPLANATION = (
    "C04: shape of the in-place update loops. Every store into the volume array is a single-element store whose index is "
    "self.indices[<well of this iteration>]; the value left in the element minus the value loaded before is exactly "
    "+volume (add) / -volume (remove) of the same iteration; the loop iterates the normalised argument sequences "
    "themselves (no de-duplication, slicing or reordering, no early exit); every site that pairs wells with volumes "
    "flattens column-major ('F'), broadcasts only singletons, and add/remove reject unequal lengths; trough IDs of all "
    "virtual rows map to (0, column). Float summation over long histories is not decided."
)
ASSUMPTIONS = ["numpy.array(x).flatten('F') enumerates a 2-D argument column-major; zip pairs element-wise"]

# functions that pair a wells-like argument with a volumes-like argument (confirmed by reading; floor = 8)
PAIRING_FAMILY = {
    "Labware.add": ("wells", "volumes"),
    "Labware.remove": ("wells", "volumes"),
    "BaseWorklist.aspirate": ("wells", "volumes"),
    "BaseWorklist.dispense": ("wells", "volumes"),
    "EvoWorklist.evo_aspirate": ("wells", "volumes"),
    "EvoWorklist.evo_dispense": ("wells", "volumes"),
    "EvoWorklist.transfer": ("source_wells", "destination_wells", "volumes"),
    "FluentWorklist.transfer": ("source_wells", "destination_wells", "volumes"),
}


def run(ctx) -> None:
    for kind in ("add", "remove"):
        ctx.guard("C04.frame", frame_delta, kind)
        ctx.guard("C04.once-per-occurrence", once, kind)
        ctx.guard("C04.pairing", length_guard, kind)
    ctx.guard("C04.pairing", pairing_family)
    ctx.guard("C04.alias", trough_alias)
    # distribute charges the source once per destination occurrence; the volume array is private to the labware
    from . import c01, c02

    ctx.reuse("C04.once-per-occurrence", c01.pair_distribute, "C01.pair-distribute")
    ctx.reuse("C04.frame", c02.ctor)
    ctx.reuse("C04.frame", c02.alias)
    # through transfer: every (source, destination, volume) triple of a column group is visited with its own volume
    from . import c06
    from .common import concrete_devices

    from . import c18

    ctx.reuse("C04.pairing", c18.grouping)
    ctx.reuse("C04.pairing", c18.sorting)
    for kind in ("add", "remove"):
        ctx.reuse("C04.frame", c02.nonneg, kind)
    # a requested volume that is split into several steps is charged in full: the steps add up to the request
    ctx.reuse("C04.split-sum", c06.partition_volume)
    # a refused operation charges nothing (the limit check precedes the store), and no error of an operation is discarded
    for kind in ("add", "remove"):
        ctx.reuse("C04.frame", c02.guard, kind)
    ctx.reuse("C04.frame", c02.no_swallow)
    # the well IDs that operations address are the IDs of the index map (no truncated copies), and the helper that hands out
    # trough wells for n tips reads them column-major
    from . import c08, c19

    ctx.reuse("C04.alias", c08.id_width)
    from . import objmodel

    ctx.guard("C04.frame", objmodel.labware_model, "C04.frame")
    # "its initial volume": the initial volumes are laid out as given (row-major reshape, scalars broadcast) in a float array
    from . import c20

    ctx.reuse("C04.frame", c20.parallel)
    ctx.reuse("C04.alias", c19.check)
    for dev in concrete_devices(ctx):
        ctx.reuse("C04.pairing", c06.wiring, dev)
        ctx.reuse("C04.pairing", c06.iteration_space, dev)
        # ... and a step is left out only when its volume is not positive (not when it rounds to 0.00)
        from . import c07 as _c07

        ctx.reuse("C04.pairing", _c07.step_block, dev)


def _loop_param_seq(fv, seq: ast.AST) -> Optional[str]:
    base = strip_norm(seq)
    return base.id if isinstance(base, ast.Name) and base.id in fv.f.params else None


def frame_delta(ctx, kind: str) -> None:
    f = ctx.prog.require_func(f"Labware.{kind}", "C04.frame")
    fv = ctx.fv(f)
    stores = LL.analyse_stores(ctx, fv)
    ctx.rep.floor("C04.frame", f"volume stores in Labware.{kind}", len(stores), 1)
    sign = 1 if kind == "add" else -1
    for st in stores:
        c = f"{f.qualname}/{stmt_key(st.stmt)}"
        w = f.where(st.stmt)
        if not st.element_store:
            ctx.rep.refuted("C04.frame", c, f"{st.why_not_element}: wells that were not addressed may change", where=w)
            continue
        if st.well_elem is None or st.loop_head is None:
            if has_unknown(st.idx_term):
                ctx.rep.inconclusive("C04.frame", c, f"index origin unknown: {show(st.idx_term)}", where=w)
            else:
                ctx.rep.refuted("C04.frame", c, f"index `{show(st.idx_term)}` is not self.indices[<well of this iteration>]", where=w)
            continue
        loop, wseq = st.well_elem
        if loop != f"loop@{st.loop_head}":
            ctx.rep.refuted("C04.frame", c, "index is taken from a different loop than the one enclosing the store", where=w)
            continue
        wparam = _loop_param_seq(fv, wseq)
        ok = wparam is not None
        ctx.rep.check(ok, "C04.frame", c, f"element store at self.indices[elem({wparam})]", f"well sequence `{show(wseq)}` is not the (normalised) wells argument", where=w)
        # delta
        if st.delta is None:
            ctx.rep.inconclusive("C04.delta", c, "stored value is outside the polynomial fragment", where=w)
            continue
        if st.stale_writes:
            ctx.rep.refuted("C04.delta", c, "an earlier write in the same iteration makes the loaded old value stale", where=w)
            continue
        seqs = LL.loop_sequences(fv, st.loop_head)
        match = None
        for sq in seqs:
            e = sym("elem", ast.Constant(value=f"loop@{st.loop_head}"), sq)
            if st.delta == Poly.symbol(e) * Poly.const(sign):
                match = sq
        if match is None:
            ctx.rep.refuted(
                "C04.delta", c,
                f"value left in the element minus the old value is `{st.delta.pretty()}`; expected exactly {'+' if sign > 0 else '-'}<volume of this iteration>",
                where=w, delta=st.delta.pretty())
            continue
        vparam = _loop_param_seq(fv, match)
        ctx.rep.check(vparam is not None and vparam != wparam, "C04.delta", c, f"delta is {'+' if sign > 0 else '-'}elem({vparam}) of the same zip iteration",
                      f"delta sequence `{show(match)}` is not the (normalised) volumes argument", where=w)


def once(ctx, kind: str) -> None:
    rule = "C04.once-per-occurrence"
    f = ctx.prog.require_func(f"Labware.{kind}", rule)
    fv = ctx.fv(f)
    for st in LL.analyse_stores(ctx, fv):
        if st.loop_head is None or not st.element_store:
            continue
        c = f"{f.qualname}/loop"
        w = f.where(fv.cfg.nodes[st.loop_head].ast)
        seqs = LL.loop_sequences(fv, st.loop_head)
        bad = []
        for sq in seqs:
            tr = [t for t in seq_transformers(sq) if t not in ("len",)]
            variants = sq.args[1:] if is_sym(sq, "norm") else [sq]
            for v in variants:
                tr += [t for t in seq_transformers(v)]
            if tr:
                bad.append((show(sq)[:80], tr))
        ctx.rep.check(not bad, rule, c + "/sequences", "loop iterates the normalised argument sequences themselves",
                      f"loop sequence is transformed before iteration {bad}: wells may be dropped, merged or reordered relative to their volumes", where=w)
        # early exits
        body = fv.cfg.loop_body[st.loop_head]
        exits = []
        for nid in body:
            n = fv.cfg.nodes[nid]
            if n.kind == "stmt" and isinstance(n.ast, (ast.Break, ast.Return)):
                exits.append(n)
            if n.kind == "stmt" and isinstance(n.ast, ast.Continue):
                # a `continue` is fine only after the store of this iteration
                if not fv.cfg.dominates(st.node, nid):
                    exits.append(n)
        ctx.rep.check(not exits, rule, c + "/exits", "no break/return/early continue in the update loop",
                      f"early exit `{stmt_key(exits[0].ast) if exits else ''}` in the update loop skips wells", where=w)
        # the loop itself must not be conditional on data (other than the raising guards): store dominated only by raising tests
        nonraising = [br for _, _, br in fv.atoms_at(st.node, within=body, skip_raising=True)] + [br for _, _, br in fv.compound_conditions_at(st.node, within=body, skip_raising=True)]
        ctx.rep.check(not nonraising, rule, c + "/unconditional", "the store is conditional only on raising guards",
                      f"the store is skipped when `{stmt_key(fv.cfg.nodes[nonraising[0]].ast) if nonraising else ''}` decides so: an occurrence is not charged", where=w)
        break


def length_guard(ctx, kind: str) -> None:
    rule = "C04.pairing"
    f = ctx.prog.require_func(f"Labware.{kind}", rule)
    fv = ctx.fv(f)
    stores = [s for s in LL.analyse_stores(ctx, fv) if s.loop_head is not None]
    if not stores:
        raise AnalysisInconclusive(rule, f.qualname, "no update loop found")
    head = stores[0].loop_head
    seqs = LL.loop_sequences(fv, head)
    params = [(sq, _loop_param_seq(fv, sq)) for sq in seqs]
    wl = [sq for sq, p in params if p == "wells"]
    vl = [sq for sq, p in params if p == "volumes"]
    if not wl or not vl:
        raise AnalysisInconclusive(rule, f.qualname, "loop does not iterate zip(<wells>, <volumes>, ...)")
    found = False
    for r, pol, raw in fv.rfacts_at(head):
        c = r
        p = pol
        while isinstance(c, ast.UnaryOp) and isinstance(c.op, ast.Not):
            c, p = c.operand, not p
        if isinstance(c, ast.Compare) and len(c.ops) == 1 and ((isinstance(c.ops[0], ast.Eq) and p) or (isinstance(c.ops[0], ast.NotEq) and not p)):
            a, b = c.left, c.comparators[0]
            if call_fname(a) == "len" and call_fname(b) == "len" and a.args and b.args:
                if (same_seq(a.args[0], wl[0]) and same_seq(b.args[0], vl[0])) or (same_seq(a.args[0], vl[0]) and same_seq(b.args[0], wl[0])):
                    found = True
    ctx.rep.check(found, rule, f"{f.qualname}/length-guard", "len(volumes) == len(wells) is established before the loop",
                  "no guard establishes len(volumes) == len(wells) before the zip loop: surplus wells or volumes are silently dropped", where=f.where(fv.cfg.nodes[head].ast))
    # every further sequence zipped into the loop (the compositions) must be as long as the wells as well:
    # zip() stops at the shortest one, and the wells beyond it would not be charged at all
    hn = fv.cfg.nodes[head]
    raw_it = hn.ast.iter
    while isinstance(raw_it, ast.Call) and call_fname(raw_it) == "enumerate" and raw_it.args:
        raw_it = raw_it.args[0]
    raw_args = [a_ for _n, a_ in LL.loop_sequence_exprs(fv, head)]
    for a in raw_args:
        ra = fv.res.resolve(a, head)
        if _loop_param_seq(fv, ra) in ("wells", "volumes"):
            continue
        c = f"{f.qualname}/length-guard[{show(a)[:20]}]"
        w = f.where(hn.ast)
        if not isinstance(a, ast.Name):
            ctx.rep.inconclusive(rule, c, f"cannot relate the length of `{show(a)[:40]}` to the wells", where=w)
            continue
        defs = sorted(fv.cfg.reaching()[head].get(a.id, ()))
        guards = set()
        for gn, test, pol_raise, r in fv.raising_guards():
            t = fv.res.resolve(test, gn.id)
            cc, pp = t, not pol_raise  # condition that holds when the guard is passed
            while isinstance(cc, ast.UnaryOp) and isinstance(cc.op, ast.Not):
                cc, pp = cc.operand, not pp
            if isinstance(cc, ast.Compare) and len(cc.ops) == 1 and ((isinstance(cc.ops[0], ast.Eq) and pp) or (isinstance(cc.ops[0], ast.NotEq) and not pp)):
                x, y = cc.left, cc.comparators[0]
                if call_fname(x) == "len" and call_fname(y) == "len" and x.args and y.args:
                    names = [x.args[0], y.args[0]]
                    if any(is_name(strip_norm(n_), a.id) or is_name(n_, a.id) for n_ in names) and any(same_seq(n_, wl[0]) for n_ in names):
                        guards.add(gn.id)
        verdict, detail = True, f"`{a.id}` is as long as the wells on every path ({len(guards)} length guard(s))"

        def len_test(tn):
            """(constant c, True if `==`) when the test node compares len(<this sequence>) with a constant"""
            e_ = tn.ast
            if isinstance(e_, ast.Compare) and len(e_.ops) == 1 and isinstance(e_.ops[0], (ast.Eq, ast.NotEq)) and call_fname(e_.left) == "len" and e_.left.args \
                    and is_name(e_.left.args[0], a.id) and isinstance(e_.comparators[0], ast.Constant) and isinstance(e_.comparators[0].value, int):
                return e_.comparators[0].value, isinstance(e_.ops[0], ast.Eq)
            return None

        def reaches_loop(d, known_len):
            dn_ = fv.cfg.nodes[d]
            blocked = set(guards) | {x for x in defs if x != d}
            stack = [s_ for s_, lab in dn_.succ if lab != "exc"] if dn_.kind != "entry" else [s_ for s_, lab in dn_.succ]
            seen = set()
            while stack:
                x = stack.pop()
                if x in seen or x in blocked:
                    continue
                seen.add(x)
                if x == head:
                    return True
                xn = fv.cfg.nodes[x]
                lt = len_test(xn) if xn.kind == "test" else None
                for s_, lab in xn.succ:
                    if lab == "exc":
                        continue
                    if lt is not None and known_len is not None and lab in ("T", "F"):
                        holds = (known_len == lt[0]) == lt[1]
                        if (lab == "T") != holds:
                            continue
                    stack.append(s_)
            return False

        for d in defs:
            dn = fv.cfg.nodes[d]
            known_len = None
            if dn.kind == "stmt" and isinstance(dn.ast, ast.Assign):
                v = dn.ast.value
                if isinstance(v, ast.BinOp) and isinstance(v.op, ast.Mult):
                    sides = [(v.left, v.right), (v.right, v.left)]
                    by_construction = None
                    for ln, other in sides:
                        ln = fv.res.resolve(ln, d) if isinstance(ln, ast.Name) else ln
                        if call_fname(ln) == "len" and ln.args and same_seq(fv.res.resolve(ln.args[0], d), wl[0]):
                            if isinstance(other, ast.List):
                                by_construction = len(other.elts) == 1
                            else:
                                base = other
                                while isinstance(base, ast.Call) and call_fname(base) in ("list", "tuple") and len(base.args) == 1:
                                    base = base.args[0]
                                if is_name(base, a.id):
                                    # repeating the sequence itself: as long as the wells only where it is known to hold one element
                                    one = any(pol_ and (lt_ := len_test(fv.cfg.nodes[t_])) is not None and lt_ == (1, True)
                                              for t_, pol_ in fv.controlling(d, skip_raising=True) if fv.cfg.nodes[t_].kind == "test")
                                    by_construction = True if one else None
                    if by_construction is True:
                        continue
                    if by_construction is False:
                        verdict, detail = False, f"`{stmt_key(dn.ast)[:50]}` repeats a list that does not hold exactly one element: not one entry per well"
                        continue
                    verdict, detail = None, f"cannot relate the length of `{stmt_key(dn.ast)[:50]}` to the wells"
                    continue
                if isinstance(v, (ast.List, ast.Tuple)) and not any(isinstance(e_, ast.Starred) for e_ in v.elts):
                    known_len = len(v.elts)
                else:
                    verdict, detail = None, f"cannot relate the length of `{stmt_key(dn.ast)[:50]}` to the wells"
                    continue
            elif dn.kind != "entry":
                verdict, detail = None, f"cannot relate the length of `{a.id}` defined at `{stmt_key(dn.ast)[:40]}` to the wells"
                continue
            # the caller's sequence (or a literal of known length): every path on which it reaches the loop unchanged must pass a length guard
            if reaches_loop(d, known_len) and verdict is True:
                what = f"the caller's `{a.id}`" if known_len is None else f"`{stmt_key(dn.ast)[:40]}` ({known_len} element(s))"
                verdict, detail = False, (f"{what} can reach the zip loop without a check that it is as long as the wells: zip() stops at the shortest "
                                          "sequence, so the wells beyond it are silently not charged")
        ctx.rep.check(verdict, rule, c, detail, detail, where=w)


def check_sequence_normalisation(ctx, rule: str, fv, term: ast.AST, construct: str, where: str, what: str) -> None:
    """A paired sequence must be flattened column-major on every path; singleton broadcast via numpy.repeat only."""
    chains = norm_chains(term)
    problems = []
    any_flatten = False
    for ch in chains:
        fl = [(n, c) for n, c in ch if n in ("flatten", "ravel")]
        if not fl:
            problems.append("not flattened at all (2-D arguments would be iterated row-wise / as rows)")
        for n, c in fl:
            any_flatten = True
            order = flatten_order(n, c)
            if order != "F":
                problems.append(f"`{show(c)[:70]}` flattens in {'row-major (default)' if order is None else repr(order)} order instead of column-major 'F'")
    extra = [t for t in seq_transformers(term)]
    for v in (term.args[1:] if is_sym(term, "norm") else []):
        extra += seq_transformers(v)
    if extra:
        problems.append(f"sequence is transformed by {sorted(set(extra))} before pairing")
    if has_unknown(strip_norm(term)):
        ctx.rep.inconclusive(rule, construct, f"{what}: origin unknown ({show(term)[:80]})", where=where)
        return
    ctx.rep.check(not problems, rule, construct, f"{what}: column-major normalisation on every path",
                  f"{what}: " + "; ".join(sorted(set(problems))), where=where)


def pairing_family(ctx) -> None:
    rule = "C04.pairing"
    n = 0
    for short in PAIRING_FAMILY:
        f = ctx.prog.func(short)
        if f is None:
            ctx.rep.inconclusive(rule, short, "pairing-family function not found (renamed?)")
            continue
        fv = ctx.fv(f)
        n += 1
        anchors = _anchor_terms(ctx, fv)
        if len(anchors) < 2:
            ctx.rep.inconclusive(rule, f"{f.qualname}", "fewer than two paired sequences found (tracking call / partition call / zip loop vanished?)")
            continue
        locals_ = set()
        for what, nid, expr in anchors:
            term = fv.res.resolve(expr, nid)
            base = strip_norm(term)
            if not (isinstance(base, ast.Name) and base.id in f.params):
                scaled = [x for x in ast.walk(term) if isinstance(x, ast.BinOp) and isinstance(x.op, ast.Mult)
                          and any(call_fname(s_) == "len" for s_ in (x.left, x.right))
                          and any(not isinstance(s_, (ast.List, ast.Tuple)) and any(isinstance(y, ast.Call) and call_fname(y) in ("array", "asarray", "atleast_1d", "flatten", "ravel") for y in ast.walk(s_))
                                  for s_ in (x.left, x.right) if call_fname(s_) != "len")]
                if scaled:
                    ctx.rep.refuted(rule, f"{f.qualname}/{what}", f"the single volume is 'broadcast' with `{show(scaled[0])[:70]}`: `*` on a numpy array multiplies its values (it repeats only a "
                                    "list) - every well is booked with n times the volume", where=f.where(expr))
                    continue
                if has_unknown(base) or any(is_sym(x_, "comp") for x_ in ast.walk(term)):
                    ctx.rep.inconclusive(rule, f"{f.qualname}/{what}", f"origin of the paired sequence unknown: {show(term)[:80]}", where=f.where(expr))
                else:
                    ctx.rep.refuted(rule, f"{f.qualname}/{what}", f"paired sequence `{show(term)[:80]}` is not a normalisation of an argument of {f.short}", where=f.where(expr))
                continue
            if isinstance(expr, ast.Name):
                locals_.add(expr.id)
            check_sequence_normalisation(ctx, rule, fv, term, f"{f.qualname}/{what}", f.where(expr), f"`{what}` (from argument `{base.id}`)")
            # the wells say how many cavities are charged: only the volume may be a singleton that is applied to all of them.
            # (the worklist methods pair the caller's wells with the volumes record by record - a labware that expands one well
            # to several volumes books amounts for which no record is written)
            if base.id == "wells" and f.short in ("Labware.add", "Labware.remove", "BaseWorklist.aspirate", "BaseWorklist.dispense"):
                rep = [c_ for ch in norm_chains(term) for nm, c_ in ch if nm in ("repeat", "tile", "resize", "broadcast_to")]
                ctx.rep.check(not rep, rule, f"{f.qualname}/{what}/wells-not-broadcast", "the named wells are charged as they are (no recycling of a single well)",
                              f"a single well is repeated to match several volumes (`{show(rep[0])[:60] if rep else ''}`): the labware books every volume on that well while aspirate()/dispense() write one record "
                              "per named well - tracked volumes and records disagree (such calls used to be rejected)", where=f.where(expr))
        _check_broadcast(ctx, rule, fv, locals_ | set(PAIRING_FAMILY[short]))
    ctx.rep.floor(rule, "pairing-family functions", n, 8)


def _anchor_terms(ctx, fv) -> List[Tuple[str, int, ast.AST]]:
    """(label, node, expr) of the sequences that the function pairs element-wise."""
    out: List[Tuple[str, int, ast.AST]] = []
    f = fv.f
    if f.short in ("Labware.add", "Labware.remove"):
        stores = [s for s in LL.analyse_stores(ctx, fv) if s.loop_head is not None]
        if stores:
            head = stores[0].loop_head
            exprs = LL.loop_sequence_exprs(fv, head)
            # the wells and the volumes wherever they stand in the zip (a further sequence - the compositions - is judged by the length guard)
            named = [(nid, a) for nid, a in exprs if _loop_param_seq(fv, fv.res.resolve(a, nid)) in ("wells", "volumes")]
            for i, (nid, a) in enumerate(named if len(named) == 2 and len(exprs) > 2 else exprs[:2]):
                out.append((f"zip[{i}]", nid, a))
        return out
    for cs in fv.calls():
        if cs.callee.kind != "func":
            continue
        short = cs.callee.func.short
        b = fv.bind_args(cs) or {}
        if short in ("Labware.add", "Labware.remove"):
            for name in ("wells", "volumes"):
                if name in b:
                    out.append((f"{short.split('.')[1]}({name})", cs.node, b[name]))
        elif short == "partition_by_column":
            for name in ("sources", "destinations", "volumes"):
                if name in b:
                    out.append((f"partition_by_column({name})", cs.node, b[name]))
    return out


def _check_broadcast(ctx, rule: str, fv, params) -> None:
    f = fv.f
    for n in fv.cfg.nodes:
        if n.kind != "stmt" or not isinstance(n.ast, ast.Assign) or len(n.ast.targets) != 1:
            continue
        t = n.ast.targets[0]
        if not (isinstance(t, ast.Name) and t.id in params):
            continue
        v = n.ast.value
        fn = call_fname(v)
        if fn in ("repeat", "resize", "tile", "broadcast_to", "full"):
            c = f"{f.qualname}/broadcast:{t.id}"
            if fn != "repeat":
                ctx.rep.refuted(rule, c, f"`{stmt_key(n.ast)}` recycles the argument with numpy.{fn}: lists of incompatible lengths are silently accepted", where=f.where(n.ast))
                continue
            # must be dominated by len(<same param>) == 1
            ok = False
            rep_arg = fv.res.resolve(v.args[0], n.id) if v.args else None
            for r, pol, raw in fv.rfacts_at(n.id):
                if isinstance(r, ast.Compare) and len(r.ops) == 1 and isinstance(r.ops[0], ast.Eq) and pol:
                    a, b = r.left, r.comparators[0]
                    if call_fname(a) == "len" and isinstance(b, ast.Constant) and b.value == 1 and a.args and rep_arg is not None:
                        if same_seq(a.args[0], rep_arg):
                            ok = True
            ctx.rep.check(ok, rule, c, "singleton broadcast only under len(x) == 1",
                          f"`{stmt_key(n.ast)}` repeats `{t.id}` without the guard len({t.id}) == 1: non-singleton arguments are recycled instead of rejected", where=f.where(n.ast))


def trough_alias(ctx) -> None:
    rule = "C04.alias"
    f = ctx.prog.require_func("Labware.__init__", rule)
    fv = ctx.fv(f)
    n_found = 0
    direct = [n for n in fv.cfg.nodes if n.kind == "stmt" and isinstance(n.ast, ast.Assign) and isinstance(n.ast.targets[0], ast.Attribute) and n.ast.targets[0].attr == "_indices"]
    if len(direct) < 2 or not all(isinstance(n.ast.value, ast.DictComp) for n in direct):
        # the index map is not written as the two comprehensions (plate / trough): evaluate the constructor's table for a
        # table of geometries instead (see init_model.py)
        from . import init_model

        v, detail = init_model.verdict(ctx, "_indices")
        c = f"{f.qualname}/_indices[evaluated]"
        ctx.rep.touch(f)
        if v == "holds":
            ctx.rep.holds(rule, c, detail + ": plate IDs map to (r, c), every virtual row of a trough column to (0, c)", where=f.where())
        elif v == "refuted":
            ctx.rep.refuted(rule, c, detail, where=f.where())
        else:
            ctx.rep.inconclusive(rule, c, detail, where=f.where())
        return
    for n in fv.cfg.nodes:
        if n.kind != "stmt" or not isinstance(n.ast, ast.Assign):
            continue
        t = n.ast.targets[0]
        if not (isinstance(t, ast.Attribute) and t.attr == "_indices"):
            continue
        n_found += 1
        v = n.ast.value
        c = f"{f.qualname}/_indices"
        w = f.where(n.ast)
        if not isinstance(v, ast.DictComp):
            ctx.rep.inconclusive(rule, c, "index map is not built by a dict comprehension", where=w)
            continue
        # is this the trough branch?
        trough = None
        for r, pol, raw in fv.rfacts_at(n.id):
            if isinstance(r, ast.Compare) and len(r.ops) == 1 and isinstance(r.left, ast.Name) and r.left.id == "virtual_rows" \
                    and isinstance(r.comparators[0], ast.Constant) and r.comparators[0].value is None:
                isnone = isinstance(r.ops[0], ast.Is) == pol
                trough = not isnone
        if trough is None:
            ctx.rep.inconclusive(rule, c, "cannot tell whether this index map is the plate or the trough branch (no `virtual_rows is None` fact)", where=w)
            continue
        # generators: one over enumerate(self.row_ids), one over enumerate(self.column_ids)
        counters = {}
        for g in v.generators:
            if isinstance(g.iter, ast.Call) and call_fname(g.iter) == "enumerate" and g.iter.args and isinstance(g.target, ast.Tuple) and len(g.target.elts) == 2:
                src = g.iter.args[0]
                which = src.attr if isinstance(src, ast.Attribute) else getattr(src, "id", "?")
                if isinstance(g.target.elts[0], ast.Name):
                    counters[g.target.elts[0].id] = which
        val = v.value
        if not (isinstance(val, ast.Tuple) and len(val.elts) == 2):
            ctx.rep.refuted(rule, c, f"index entries are not (row, column) tuples: {show(val)}", where=w)
            continue
        r_e, c_e = val.elts
        col_ok = isinstance(c_e, ast.Name) and counters.get(c_e.id) == "column_ids"
        if trough:
            row_ok = isinstance(r_e, ast.Constant) and r_e.value == 0 and not isinstance(r_e.value, bool)
            ctx.rep.check(row_ok and col_ok, rule, c + "/trough", "every virtual-row ID of a column maps to (0, column counter)",
                          f"trough index entries are `{show(val)}`; every virtual row of a column must alias the single real well (0, c)", where=w)
        else:
            row_ok = isinstance(r_e, ast.Name) and counters.get(r_e.id) == "row_ids"
            ctx.rep.check(row_ok and col_ok, rule, c + "/plate", "plate IDs map to (row counter, column counter)",
                          f"plate index entries are `{show(val)}`; expected (r, c) with r/c the counters of row_ids/column_ids", where=w)
    ctx.rep.floor(rule, "index-map constructions", n_found, 2)
