"""C11 - the labware history is append-only, condensed per operation, and truthful."""
from __future__ import annotations

import ast
from typing import List, Optional

from ..canon import Cmp, Poly, to_cmp, to_poly
from ..defuse import is_sym, key, show, strip_norm
from ..engine import Effect, own_walk, return_exprs
from ..model import AnalysisInconclusive
from . import labware_loop as LL
from .common import attr_of_name, call_fname, concrete_devices, elem_parts, has_unknown, identity_eq_rule, is_name, stmt_key

EXPLANATION = (
    "C11: ownership of the history lists (only __init__/log/condense_log touch them, condense_log is called only by "
    "transfer/distribute), snapshot rule (everything stored in the history is a copy), log exactly once on every "
    "normal path of add/remove after the last volume write, step counter incremented exactly once per "
    "aspirate+dispense block and handed to condense_log unconditionally (2n for same-labware), condense_log guarded "
    "against n == 0 (x[:-0] wipes the list), LVH count summands clamped at 0, report iterates the whole history."
)
ASSUMPTIONS = ["list slicing / append semantics of Python lists"]

HIST_OWNERS = {"Labware.__init__": "initial one-element lists", "Labware.log": "append of one snapshot + label", "Labware.condense_log": "the only truncation"}
CONDENSE_CALLERS = {"EvoWorklist.transfer", "FluentWorklist.transfer", "BaseWorklist.distribute"}


def run(ctx) -> None:
    ctx.guard("C11.owner", owner)
    ctx.guard("C11.snapshot", snapshot)
    for kind in ("add", "remove"):
        ctx.guard("C11.log-once", log_once, kind)
    for dev in concrete_devices(ctx):
        ctx.guard("C11.condense-count", condense_count, dev)
        ctx.guard("C11.lvh-count", lvh_count, dev)
        ctx.guard("C11.lvh-note", lvh_note_once, dev)
    ctx.guard("C11.slice-zero", slice_zero)
    ctx.guard("C11.same-labware", identity_eq_rule, "C11.same-labware")
    ctx.guard("C11.snapshot", history_readonly)
    ctx.guard("C11.snapshot", log_pair_atomic)
    ctx.guard("C11.owner", history_not_trimmed)
    ctx.guard("C11.report", report)
    ctx.guard("C11.distribute", distribute)
    ctx.guard("C11.per-call", per_call_ops)
    # the live volume array belongs to one labware: an array handed out earlier (volumes / history) is never its buffer
    from . import c02

    from .common import none_concat_rule

    ctx.guard("C11.lvh-note", none_concat_rule, "C11.lvh-note", ("EvoWorklist.transfer", "FluentWorklist.transfer", "Labware.condense_log", "Labware.log", "Labware.add", "Labware.remove"),
              "recording the operation (an unlabelled operation is valid)")
    ctx.reuse("C11.snapshot", c02.ctor)
    from . import objmodel

    ctx.guard("C11.owner", objmodel.labware_model, "C11.owner")
    # the LVH note counts len(steps) - 1 per well: it is the number of extra pairs only if every step of every well is pipetted
    from . import c06 as _c06

    for dev in concrete_devices(ctx):
        ctx.reuse("C11.lvh-count", _c06.iteration_space, dev)
    ctx.reuse("C11.snapshot", c02.alias)


def owner(ctx) -> None:
    rule = "C11.owner"
    n = 0
    for f in ctx.prog.all_functions():
        fv = ctx.E.fv(f)
        for node in fv.cfg.nodes:
            effs = [e for e in ctx.E.direct(fv, node) if e.kind == "HISTWRITE"]
            if not effs:
                continue
            n += 1
            ctx.rep.touch(f)
            ctx.rep.check(f.short in HIST_OWNERS, rule, f"{f.qualname}/{stmt_key(node.ast)[:60]}", HIST_OWNERS.get(f.short, ""),
                          f"{f.short} mutates the history lists (`{stmt_key(node.ast)[:80]}`); only __init__/log/condense_log may", where=f.where(node.ast))
    ctx.rep.floor(rule, "history write sites", n, 6)
    # who calls condense_log
    callers = set()
    for f in ctx.prog.all_functions():
        fv = ctx.E.fv(f)
        for cs in fv.calls():
            if (cs.callee.kind == "func" and cs.callee.func.short == "Labware.condense_log") or (cs.callee.kind == "method" and cs.callee.name == "condense_log"):
                callers.add(f.short)
                ctx.rep.touch(f)
                ctx.rep.check(f.short in CONDENSE_CALLERS, rule, f"{f.qualname}/condense_log-call", "condense_log is called by a multi-step operation",
                              f"{f.short} calls condense_log: single operations would drop earlier history entries", where=f.where(cs.call))
    ctx.rep.floor(rule, "condense_log callers", len(callers), 2)
    # history property returns a fresh list
    lab = ctx.prog.require_class("Labware", rule)
    h = lab.methods.get("history")
    if h is None:
        ctx.rep.inconclusive(rule, "Labware.history", "property not found")
    else:
        ctx.rep.touch(h)
        ok = all(isinstance(r, ast.Call) and (call_fname(r) in ("list", "tuple", "zip") or is_sym(r, "comp")) or isinstance(r, (ast.ListComp, ast.List)) for n, r in ctx.fv(h).returns())
        ctx.rep.check(ok, rule, f"{h.qualname}/return", "history returns a freshly built list", "history hands out an internal list", where=h.where())


def _is_snapshot(term: ast.AST, selfn: str) -> Optional[bool]:
    """True: a copy; False: the live array; None: unknown."""
    if attr_of_name(term, selfn, "volumes"):
        return True  # property returning a copy (checked in C11.snapshot/volumes)
    if isinstance(term, ast.Call) and call_fname(term) in ("copy", "array", "deepcopy"):
        return True
    if attr_of_name(term, selfn, "_volumes"):
        return False
    if isinstance(term, ast.Subscript):
        base = term.value
        if attr_of_name(base, selfn, "_history"):
            return True  # an entry that is already a snapshot
        if attr_of_name(base, selfn, "_volumes"):
            return False if isinstance(term.slice, ast.Slice) else None
    return None


def history_not_trimmed(ctx) -> None:
    """Entries leave the history only in condense_log: no `del self._history[..]`, slice re-binding, pop() or clear() elsewhere."""
    rule = "C11.owner"
    hits = []
    for cname in ("Labware", "Trough"):
        cls = ctx.prog.class_by_name(cname)
        if cls is None:
            continue
        for m in cls.methods.values():
            if m.name in ("condense_log", "__init__", "__deepcopy__", "__copy__") or not m.params:
                continue
            selfn = m.params[0]

            def hist(e):
                return isinstance(e, ast.Attribute) and is_name(e.value, selfn) and e.attr in ("_history", "_labels")

            for x in own_walk(m.node):
                if isinstance(x, ast.Delete) and any(isinstance(t, ast.Subscript) and hist(t.value) for t in x.targets):
                    hits.append((m, x))
                elif isinstance(x, ast.Assign) and any(hist(t) for t in x.targets) and isinstance(x.value, ast.Subscript) and isinstance(x.value.slice, ast.Slice):
                    hits.append((m, x))
                elif isinstance(x, ast.Call) and isinstance(x.func, ast.Attribute) and x.func.attr in ("pop", "clear", "remove") and hist(x.func.value):
                    hits.append((m, x))
    for m, x in hits:
        ctx.rep.refuted(rule, f"{m.qualname}/trim", f"`{stmt_key(x)[:60]}` removes entries from the history outside condense_log: earlier states disappear (and a later condense_log counts from the wrong end)", where=m.where(x))
    if not hits:
        ctx.rep.holds(rule, "Labware/history-append-only", "entries leave the history only in condense_log")


def history_readonly(ctx) -> None:
    """Nothing that *reads* the history writes into an entry: a name bound to an element of the history (loop variable over
    `self.history` / `self._history`, an indexed entry) is never the target of an in-place operation - `out=<entry>`,
    `entry += ..`, `entry[..] = ..`, `entry.fill(..)` and the like."""
    rule = "C11.snapshot"
    lab = ctx.prog.require_class("Labware", rule)
    INPLACE = {"fill", "sort", "resize", "put", "itemset", "partition", "setfield", "byteswap"}
    n = 0
    for cls in [lab] + list(ctx.prog.subclasses(lab)):
        for m in cls.methods.values():
            if not m.params:
                continue
            selfn = m.params[0]
            ctx.rep.touch(m)

            def is_hist(e):
                return attr_of_name(e, selfn, "_history") or attr_of_name(e, selfn, "history")

            entries = set()
            for sub in own_walk(m.node):
                it = tgt = None
                if isinstance(sub, ast.For):
                    it, tgt = sub.iter, sub.target
                elif isinstance(sub, ast.comprehension):
                    it, tgt = sub.iter, sub.target
                elif isinstance(sub, ast.Assign) and len(sub.targets) == 1 and isinstance(sub.value, ast.Subscript) and is_hist(sub.value.value) and not isinstance(sub.value.slice, ast.Slice):
                    entries |= {x.id for x in ast.walk(sub.targets[0]) if isinstance(x, ast.Name)}
                if it is None:
                    continue
                srcs = [it] + (list(it.args) if isinstance(it, ast.Call) and call_fname(it) in ("zip", "enumerate", "reversed", "list") else [])
                for a_ in list(srcs):
                    if isinstance(a_, ast.Call) and call_fname(a_) in ("zip", "enumerate", "reversed", "list"):
                        srcs += list(a_.args)
                if any(is_hist(x) or (isinstance(x, ast.Subscript) and is_hist(x.value)) for x in srcs):
                    entries |= {x.id for x in ast.walk(tgt) if isinstance(x, ast.Name)}
            if not entries:
                continue
            n += 1
            hits = []
            for sub in own_walk(m.node):
                if isinstance(sub, ast.Call):
                    for k in sub.keywords:
                        if k.arg == "out" and any(isinstance(x, ast.Name) and x.id in entries for x in ast.walk(k.value)):
                            hits.append((sub, f"`{stmt_key(sub)[:60]}` writes its result into the entry (out=)"))
                    if isinstance(sub.func, ast.Attribute) and sub.func.attr in INPLACE and isinstance(sub.func.value, ast.Name) and sub.func.value.id in entries:
                        hits.append((sub, f"`{stmt_key(sub)[:60]}` changes the entry in place"))
                if isinstance(sub, ast.AugAssign):
                    root = sub.target
                    while isinstance(root, ast.Subscript):
                        root = root.value
                    if isinstance(root, ast.Name) and root.id in entries:
                        hits.append((sub, f"`{stmt_key(sub)[:60]}` is an in-place operation on the entry"))
                if isinstance(sub, (ast.Assign, ast.AnnAssign)):
                    for t in (sub.targets if isinstance(sub, ast.Assign) else [sub.target]):
                        if isinstance(t, ast.Subscript):
                            root = t.value
                            while isinstance(root, ast.Subscript):
                                root = root.value
                            if isinstance(root, ast.Name) and root.id in entries:
                                hits.append((sub, f"`{stmt_key(sub)[:60]}` stores into the entry"))
            for sub, why in hits:
                ctx.rep.refuted(rule, f"{m.qualname}/entry-write", f"{why}: reading the history ({m.name}) alters earlier entries, which are supposed to be snapshots", where=m.where(sub))
            if not hits:
                ctx.rep.holds(rule, f"{m.qualname}/entries-read-only", f"{m.name} only reads the history entries it iterates ({sorted(entries)})", where=m.where())
    ctx.rep.floor(rule, "methods that iterate history entries", n, 1)


def _param_snapshot(ctx, f, p: str):
    """What the callers of history owner `f` pass for its parameter `p`: (True, "") when every caller passes a fresh copy that
    nothing else keeps, (False, why) when some caller passes the live array / an array it also keeps, (None, why) otherwise."""
    idx = f.params.index(p) - 1  # position among the arguments (self excluded)
    sites = 0
    for g in ctx.prog.all_functions():
        gv = ctx.fv(g)
        for cs in gv.calls():
            if not (cs.callee.kind == "func" and cs.callee.func is f):
                continue
            arg = None
            for k in cs.call.keywords:
                if k.arg == p:
                    arg = k.value
            if arg is None and 0 <= idx < len(cs.call.args) and not any(isinstance(a_, ast.Starred) for a_ in cs.call.args):
                arg = cs.call.args[idx]
            if arg is None:
                if any(isinstance(a_, ast.Starred) for a_ in cs.call.args) or any(k.arg is None for k in cs.call.keywords):
                    return None, f"{g.qualname} passes `{p}` in a way that cannot be followed"
                continue  # default value: decided by the body of f itself
            sites += 1
            gs = g.params[0] if g.params else ""
            if isinstance(arg, ast.Name):
                # the same array object kept elsewhere by the caller (bound to an attribute, stored in a container)?
                for nd in gv.cfg.nodes:
                    if nd.kind == "stmt" and isinstance(nd.ast, (ast.Assign, ast.AnnAssign)) and nd.ast.value is not None and is_name(nd.ast.value, arg.id):
                        tg = nd.ast.targets[0] if isinstance(nd.ast, ast.Assign) else nd.ast.target
                        if isinstance(tg, (ast.Attribute, ast.Subscript)):
                            return False, f"{g.qualname} passes `{arg.id}` and also keeps it as `{show(tg)[:40]}`: the history entry is that live object"
            t = gv.res.resolve(arg, cs.node)
            sn = _is_snapshot(t, gs)
            if sn is False:
                return False, f"{g.qualname} passes `{show(t)[:40]}` (the live array)"
            if sn is None:
                return None, f"cannot establish that `{show(t)[:40]}` passed by {g.qualname} is a copy"
    return True, f"{sites} call sites pass a fresh copy"


def snapshot(ctx) -> None:
    rule = "C11.snapshot"
    lab = ctx.prog.require_class("Labware", rule)
    n = 0
    for name in HIST_OWNERS:
        f = ctx.prog.func(name)
        if f is None:
            ctx.rep.inconclusive(rule, name, "history owner not found")
            continue
        fv = ctx.fv(f)
        selfn = f.params[0]
        for node in fv.cfg.nodes:
            vals: List[ast.AST] = []
            a = node.ast
            if node.kind != "stmt":
                continue
            for sub in own_walk(a):
                if isinstance(sub, ast.Call) and isinstance(sub.func, ast.Attribute) and sub.func.attr in ("append", "insert", "extend") and attr_of_name(sub.func.value, selfn, "_history"):
                    vals += list(sub.args[-1:])
            if isinstance(a, (ast.Assign, ast.AnnAssign)):
                tgt = a.targets[0] if isinstance(a, ast.Assign) else a.target
                if attr_of_name(tgt, selfn, "_history") and a.value is not None:
                    def parts(v, at, depth=0):
                        # the entries a new history list is made of: list displays, concatenations, slices of the history itself
                        if isinstance(v, ast.Name) and depth < 4:
                            raw, d = fv.def_expr(v, at)
                            if raw is not v:
                                return parts(raw, d, depth + 1)
                        if isinstance(v, ast.List):
                            return list(v.elts)
                        if isinstance(v, ast.BinOp) and isinstance(v.op, ast.Add):
                            return parts(v.left, at, depth + 1) + parts(v.right, at, depth + 1)
                        if isinstance(v, ast.Subscript) and isinstance(v.slice, ast.Slice) and attr_of_name(v.value, selfn, "_history"):
                            return []  # slicing the history itself
                        return [v]

                    vals += parts(a.value, node.id)
                    if isinstance(a.value, ast.Name):
                        # a new list put together in a local first: what is appended to that local ends up in the history
                        for sub in own_walk(f.node):
                            if isinstance(sub, ast.Call) and isinstance(sub.func, ast.Attribute) and sub.func.attr in ("append", "insert", "extend") and is_name(sub.func.value, a.value.id):
                                vals += list(sub.args[-1:])
            for v in vals:
                n += 1
                t = fv.res.resolve(v, node.id)
                snap = _is_snapshot(t, selfn)
                alts = list(t.args) if is_sym(t, "phi") else [t] if isinstance(t, ast.Name) and t.id in f.params[1:] else None
                if snap is None and alts is not None:
                    # a value handed in by the callers (possibly with a default computed here): every alternative must be a copy
                    verdicts = []
                    for a_ in alts:
                        if isinstance(a_, ast.Name) and a_.id in f.params[1:]:
                            verdicts.append(_param_snapshot(ctx, f, a_.id))
                        else:
                            verdicts.append((_is_snapshot(a_, selfn), show(a_)[:40]))
                    if any(v_[0] is False for v_ in verdicts):
                        why = next(v_[1] for v_ in verdicts if v_[0] is False)
                        ctx.rep.refuted(rule, f"{f.qualname}/{stmt_key(a)[:60]}", f"`{stmt_key(a)[:70]}` stores what the caller hands in, and {why} - later operations silently rewrite this entry", where=f.where(a))
                        continue
                    if all(v_[0] is True for v_ in verdicts):
                        snap = True
                if snap is None and isinstance(t, ast.Call) and call_fname(t) in ("round", "around", "round_", "floor", "ceil", "rint", "trunc", "astype"):
                    ctx.rep.refuted(rule, f"{f.qualname}/{stmt_key(a)[:60]}/exact", f"`{stmt_key(a)[:70]}` stores `{show(t)[:50]}`: the history entry is a rounded / converted version of the "
                                    "volumes, not the state the labware was in", where=f.where(a))
                    continue
                ctx.rep.check(snap, rule, f"{f.qualname}/{stmt_key(a)[:60]}", "stored history value is a snapshot",
                              f"`{stmt_key(a)[:80]}` stores `{show(t)[:60]}` in the history: the live volume array (no copy) - later operations silently rewrite this entry" if snap is False
                              else f"cannot establish that `{show(t)[:60]}` is a copy", where=f.where(a))
    ctx.rep.floor(rule, "values stored in the history", n, 3)
    # ... and no history entry ever becomes the live array (restoring the volumes from the history needs a copy as well)
    for m in lab.methods.values():
        mv = ctx.fv(m)
        sn = m.params[0] if m.params else None
        for node in mv.cfg.nodes:
            if node.kind == "stmt" and isinstance(node.ast, (ast.Assign, ast.AnnAssign)) and node.ast.value is not None:
                tgt = node.ast.targets[0] if isinstance(node.ast, ast.Assign) else node.ast.target
                if not attr_of_name(tgt, sn, "_volumes"):
                    continue
                t = mv.res.resolve(node.ast.value, node.id)
                core = t
                while isinstance(core, ast.Subscript):
                    core = core.value
                if attr_of_name(core, sn, "_history") or attr_of_name(core, sn, "history"):
                    ctx.rep.refuted(rule, f"{m.qualname}/{stmt_key(node.ast)[:50]}", f"`{stmt_key(node.ast)[:70]}` makes a history entry the live volume array (no copy): the next operation "
                                    "rewrites that earlier entry in place", where=m.where(node.ast))
    vol = lab.methods.get("volumes")
    if vol is not None:
        ctx.rep.touch(vol)
        from .c02 import _is_copy

        rets = [t for n, t in ctx.fv(vol).returns()]
        ctx.rep.check(bool(rets) and all(_is_copy(r) for r in rets), rule, f"{vol.qualname}/return", "`volumes` returns a copy",
                      "`volumes` returns the live array: history entries and arrays obtained from `volumes` change with later operations", where=vol.where())


def log_pair_atomic(ctx) -> None:
    """`Labware.log` appends the snapshot and its label as a pair: nothing that can raise sits between the two appends
    (a refusal after the first one leaves the two lists of different length, and `history` zips every later label with the
    state of the operation before it)."""
    rule = "C11.snapshot"
    f = ctx.prog.require_func("Labware.log", rule)
    fv = ctx.fv(f)
    selfn = f.params[0]
    apps = {}
    for node in fv.cfg.nodes:
        if node.kind != "stmt":
            continue
        for sub in own_walk(node.ast):
            if isinstance(sub, ast.Call) and isinstance(sub.func, ast.Attribute) and sub.func.attr == "append":
                for attr in ("_history", "_labels"):
                    if attr_of_name(sub.func.value, selfn, attr):
                        apps.setdefault(attr, []).append((node, sub))
    if set(apps) != {"_history", "_labels"} or any(len(v) != 1 for v in apps.values()):
        return  # another shape of log(): judged by the other C11.snapshot / C11.owner obligations
    (n1, c1), (n2, c2) = sorted((apps["_history"][0], apps["_labels"][0]), key=lambda t: (t[0].ast.lineno, t[0].id))
    if not (n1.id == n2.id or fv.cfg.reaches(n1.id, n2.id)):
        (n1, c1), (n2, c2) = (n2, c2), (n1, c1)

    def may_raise(tree) -> Optional[str]:
        for x in ast.walk(tree):
            if isinstance(x, (ast.Raise, ast.Assert)):
                return ast.unparse(x)[:50]
            if isinstance(x, ast.Call) and x is not c1 and x is not c2:
                cal = ctx.prog.resolve_call(f, x)
                if cal.kind == "func" and cal.func is not None and any(isinstance(y, (ast.Raise, ast.Assert)) for y in own_walk(cal.func.node)):
                    return f"{ast.unparse(x)[:40]} (raises: {cal.func.qualname})"
        return None

    bad = None
    for a_ in c2.args:
        bad = bad or may_raise(a_)
    if n1.id != n2.id:
        for nid in fv.cfg.between(n1.id, n2.id):
            nd = fv.cfg.nodes[nid]
            if nd.ast is not None and nd.kind in ("stmt", "if", "while", "for"):
                bad = bad or may_raise(nd.ast if nd.kind == "stmt" else getattr(nd.ast, "test", getattr(nd.ast, "iter", nd.ast)))
    ctx.rep.touch(f)
    ctx.rep.check(bad is None, rule, f"{f.qualname}/pair-atomic", "the snapshot and its label are appended with nothing in between that can refuse",
                  f"after the first of the two appends `{bad}` can raise: the state list is then one entry longer than the label list and every later label is paired with the "
                  "state of the operation before it (the newest state is dropped from `history`)", where=f.where(n2.ast))


def log_once(ctx, kind: str) -> None:
    rule = "C11.log-once"
    f = ctx.prog.require_func(f"Labware.{kind}", rule)
    fv = ctx.fv(f)
    logs = fv.calls_func("Labware.log")
    c = f"{f.qualname}/log"
    if len(logs) != 1:
        ctx.rep.refuted(rule, c, f"{len(logs)} log() calls in Labware.{kind}; every successful call must contribute exactly one history entry", where=f.where())
        return
    lg = logs[0]
    in_loop = fv.cfg.enclosing_loops(lg.node)
    pd = fv.cfg.postdominates(lg.node, fv.cfg.entry)
    ctx.rep.check(pd and not in_loop, rule, c + "/every-path", "log() lies on every normal path, outside any loop",
                  "log() is not executed exactly once on every normal path (conditional, or inside a loop)", where=f.where(lg.call))
    writes = LL.volwrite_nodes(ctx, fv)
    late = [x for x in writes if fv.cfg.reaches(lg.node, x)]
    ctx.rep.check(not late, rule, c + "/after-writes", "log() follows the last volume write", "a volume write can follow log(): the newest entry would not equal the current volumes", where=f.where(lg.call))
    arg = fv.res.resolve(lg.call.args[0], lg.node) if lg.call.args else None
    ctx.rep.check(arg is not None and is_name(arg, "label"), rule, c + "/label", "entry is labelled with the operation's label",
                  f"history entry is labelled `{show(arg) if arg is not None else None}` instead of the operation's label", where=f.where(lg.call))
    # the log body: one append to each list
    lf = ctx.prog.require_func("Labware.log", rule)
    lfv = ctx.fv(lf)
    apps = [cs for cs in lfv.calls() if isinstance(cs.call.func, ast.Attribute) and cs.call.func.attr == "append"]
    targets = sorted(cs.call.func.value.attr for cs in apps if isinstance(cs.call.func.value, ast.Attribute))
    uncond = all(lfv.cfg.postdominates(cs.node, lfv.cfg.entry) and not lfv.cfg.enclosing_loops(cs.node) for cs in apps)
    ctx.rep.check(targets == ["_history", "_labels"] and uncond, rule, f"{lf.qualname}/appends", "log appends one snapshot and one label",
                  f"log() appends to {targets} ({'conditionally' if not uncond else 'unconditionally'}); the parallel lists must grow by exactly one each", where=lf.where())


def _flow_names(fv, expr: ast.AST, at: int, depth: int = 0) -> set:
    """Names an expression's value is computed from, following every reaching definition of the locals involved."""
    out = set()
    for s_ in ast.walk(expr):
        if not isinstance(s_, ast.Name):
            continue
        out.add(s_.id)
        if depth > 5:
            continue
        for d in fv.cfg.reaching()[at].get(s_.id, ()):
            dn = fv.cfg.nodes[d]
            if dn.kind == "stmt" and isinstance(dn.ast, (ast.Assign, ast.AnnAssign)) and getattr(dn.ast, "value", None) is not None:
                out |= _flow_names(fv, dn.ast.value, d, depth + 1)
    return out


def _root_names(fv, expr: ast.AST, at: int, depth: int = 0) -> set:
    """Names an expression is computed from, looking through single-definition temporaries (n_entries = nsteps * 2)."""
    out = set()
    for s_ in ast.walk(expr):
        if not isinstance(s_, ast.Name):
            continue
        raw, d = fv.def_expr(s_, at)
        if raw is s_ or depth > 4 or isinstance(raw, ast.Constant):
            out.add(s_.id)
        else:
            inner = _root_names(fv, raw, d, depth + 1)
            out |= inner if inner else {s_.id}
    return out


def condense_count(ctx, dev) -> None:
    rule = "C11.condense-count"
    f = ctx.prog.find_method(dev, "transfer")
    if f is None:
        raise AnalysisInconclusive(rule, dev.name, "transfer not found")
    fv = ctx.fv(f, dev)
    cb = f"{dev.name}.transfer"
    from .c01 import find_step_calls

    asp, dis = find_step_calls(ctx, fv, dev)
    cond = [cs for cs in fv.calls() if cs.callee.kind == "func" and cs.callee.func.short == "Labware.condense_log"]
    if len(asp) != 1 or len(dis) != 1 or not cond:
        ctx.rep.check(None, rule, cb, "", f"step block / condense calls not found ({len(asp)}/{len(dis)}/{len(cond)})", where=f.where())
        return
    A, D = asp[0], dis[0]
    # the counter handed to condense_log
    counters = set()
    for cs in cond:
        n_arg = (fv.bind_args(cs) or {}).get("n")
        if n_arg is None:
            continue
        counters |= _root_names(fv, n_arg, cs.node)
    unbound = [cs for cs in cond if (fv.bind_args(cs) or {}).get("n") is None]
    for cs in unbound:
        recv = cs.call.func.value.id if isinstance(cs.call.func, ast.Attribute) and isinstance(cs.call.func.value, ast.Name) else "?"
        ctx.rep.refuted(rule, f"{cb}/condense({recv})/count", "condense_log is called without the number of entries this operation logged: how many entries are merged then depends on "
                        "what the history happens to contain, so entries of earlier operations can be swallowed (or the operation's own entries left uncondensed)", where=f.where(cs.call))
    if unbound:
        return
    if len(counters) != 1:
        ctx.rep.inconclusive(rule, cb + "/counter", f"cannot identify the step counter ({sorted(counters)})", where=f.where())
        return
    cnt = counters.pop()
    def counts_steps(name: str, depth: int = 0):
        """(ok, detail, where): `name` is 0 plus one for every executed aspirate+dispense pair in the scope of its initialisation."""
        incs_ = [n for n in fv.cfg.nodes if n.kind == "stmt" and isinstance(n.ast, ast.AugAssign) and is_name(n.ast.target, name)]
        inits_ = [n for n in fv.cfg.nodes if n.kind == "stmt" and isinstance(n.ast, ast.Assign) and any(is_name(t, name) for t in n.ast.targets)]
        if len(inits_) != 1 or not (isinstance(inits_[0].ast.value, ast.Constant) and inits_[0].ast.value.value == 0):
            return False, f"`{name}` is not initialised to 0 exactly once", inits_[0].ast if inits_ else None
        init_loops = fv.cfg.enclosing_loops(inits_[0].id)
        if len(incs_) != 1:
            return False, f"`{name}` is incremented {len(incs_)} times", incs_[0].ast if incs_ else None
        inc = incs_[0]
        if not isinstance(inc.ast.op, ast.Add):
            return False, f"`{stmt_key(inc.ast)}` does not add", inc.ast
        if fv.cfg.enclosing_loops(inc.id)[: len(init_loops)] != init_loops:
            return False, f"`{name}` is initialised inside a loop that does not enclose its increment", inc.ast
        if isinstance(inc.ast.value, ast.Constant) and inc.ast.value.value == 1:
            same_block = fv.cfg.dominates(D.node, inc.id) and fv.cfg.dominates(A.node, inc.id) and fv.cfg.enclosing_loops(inc.id) == fv.cfg.enclosing_loops(D.node)
            extra_tests = [d for d, _ in fv.controlling(inc.id) if d not in {x for x, _ in fv.controlling(D.node)}]
            blocked = set(fv.cfg.enclosing_loops(D.node)[-1:])
            always = inc.id in fv.cfg.reachable_from(D.node, blocked) and not extra_tests
            if same_block and always:
                return True, "", inc.ast
            return False, f"`{stmt_key(inc.ast)}` is not executed exactly once per aspirate+dispense block", inc.ast
        # += <sub-counter of one iteration>
        if depth < 3 and isinstance(inc.ast.value, ast.Name):
            chain = fv.alias_chain(inc.ast.value, inc.id)
            sub_name = chain[-1] if chain else None
            sub_inits = [n for n in fv.cfg.nodes if n.kind == "stmt" and isinstance(n.ast, ast.Assign) and any(is_name(t, sub_name) for t in n.ast.targets)]
            inc_loops = fv.cfg.enclosing_loops(inc.id)
            # the sub-counter starts from 0 in every iteration of the loop in which it is added, and is added unconditionally
            if sub_name and len(sub_inits) == 1 and fv.cfg.enclosing_loops(sub_inits[0].id) == inc_loops and inc_loops and fv.cfg.dominates(sub_inits[0].id, inc.id) \
                    and not fv.controlling(inc.id, within=fv.cfg.loop_body[inc_loops[-1]]):
                return counts_steps(sub_name, depth + 1)
        return False, f"`{stmt_key(inc.ast)}` does not add exactly 1", inc.ast

    ok_cnt, detail, where_ast = counts_steps(cnt)
    inits = [n for n in fv.cfg.nodes if n.kind == "stmt" and isinstance(n.ast, ast.Assign) and any(is_name(t, cnt) for t in n.ast.targets)]
    ok_init = len(inits) == 1 and isinstance(inits[0].ast.value, ast.Constant) and inits[0].ast.value.value == 0 and not fv.cfg.enclosing_loops(inits[0].id)
    ctx.rep.check(ok_init, rule, cb + "/init", f"`{cnt}` starts at 0 before the loops", f"`{cnt}` is not initialised to 0 exactly once before the loops", where=f.where())
    ctx.rep.check(ok_cnt, rule, cb + "/increment", "counter += 1 exactly once per executed aspirate+dispense pair",
                  (detail or "") + ": condense_log would merge too many or too few history entries", where=f.where(where_ast))
    # condense calls: after all loops, conditional only on the identity of the two labware
    for cs in cond:
        recv = cs.call.func.value.id if isinstance(cs.call.func, ast.Attribute) and isinstance(cs.call.func.value, ast.Name) else "?"
        c = f"{cb}/condense({recv})"
        w = f.where(cs.call)
        if fv.cfg.enclosing_loops(cs.node):
            ctx.rep.refuted(rule, c, "condense_log is called inside a loop", where=w)
            continue
        same_branch = None
        bad_test = None
        for d, pol in fv.controlling(cs.node, skip_raising=True):
            t = fv.cfg.nodes[d].ast
            rt = fv.res.resolve(t, d)
            is_id = isinstance(rt, ast.Compare) and len(rt.ops) == 1 and isinstance(rt.ops[0], (ast.Eq, ast.Is)) and {getattr(rt.left, "id", None), getattr(rt.comparators[0], "id", None)} == {"source", "destination"}
            if is_id:
                same_branch = pol
            else:
                bad_test = t
        if bad_test is not None:
            ctx.rep.refuted(rule, c, f"condense_log is skipped depending on `{stmt_key(bad_test)[:60]}`: the operation's entries are not condensed / labelled in every case", where=w)
            continue
        n_arg = fv.res.resolve((fv.bind_args(cs) or {})["n"], cs.node)
        cp = Poly.symbol(ast.Name(id="§cnt", ctx=ast.Load()))

        def opaque(e, _cnt=cnt):
            # the counter after the loops (a §phi / §rec of its definitions)
            return cp if any(isinstance(s, ast.Name) and s.id == _cnt for s in ast.walk(e)) or is_sym(e, "phi") or is_sym(e, "rec") else None

        raw_n = fv.def_expr((fv.bind_args(cs) or {})["n"], cs.node)[0]
        rp = to_poly(raw_n, lambda e: cp if is_name(e, cnt) else None)
        want = cp * Poly.const(2) if same_branch else cp
        if same_branch is None:
            ctx.rep.refuted(rule, c, "condense_log is not selected by the source/destination identity test", where=w)
            continue
        ctx.rep.check(rp == want, rule, c + "/count", f"condenses {'2*' if same_branch else ''}{cnt} entries on the {'same' if same_branch else 'distinct'}-labware branch",
                      f"condenses `{rp.pretty()}` entries on the {'same' if same_branch else 'distinct'}-labware branch; expected `{want.pretty()}` (one entry per aspirate and per dispense on that labware)".replace("§cnt", cnt), where=w)
        lab_arg = (fv.bind_args(cs) or {}).get("label")
        ctx.rep.check(lab_arg is not None and "label" in _flow_names(fv, lab_arg, cs.node), rule, c + "/label", "condensed entry carries the operation's label", "condensed entry does not get the operation's label", where=w)
    recvs = sorted({cs.call.func.value.id for cs in cond if isinstance(cs.call.func, ast.Attribute) and isinstance(cs.call.func.value, ast.Name)})
    ctx.rep.check(recvs == ["destination", "source"], rule, cb + "/both-labware", "both labware are condensed", f"only {recvs} get their history condensed", where=f.where())
    # step calls pass label=None (per-step entries are unlabelled; the label is attached by condense_log)
    for cs, nm in ((A, "aspirate"), (D, "dispense")):
        lab = (fv.bind_args(cs) or {}).get("label")
        ctx.rep.check(isinstance(lab, ast.Constant) and lab.value is None, rule, f"{cb}/{nm}-label", "sub-steps are unlabelled", f"sub-step {nm} passes label=`{show(lab) if lab is not None else 'omitted'}`", where=f.where(cs.call))


def lvh_count(ctx, dev) -> None:
    rule = "C11.lvh-count"
    from . import lvh_model
    from .c06 import _vol_lists, keyed_by_wells

    if keyed_by_wells(ctx, dev, rule):
        return
    t, cands = _vol_lists(ctx, dev, rule)
    fv, f = t.fv, t.f
    cb = f"{dev.name}.transfer"
    cnt = lvh_model.counter_name(fv, f)
    if cnt is None:
        ctx.rep.inconclusive(rule, cb, "cannot identify the counter printed into the `LVH steps` label", where=f.where())
        return
    if len(cands) != 1:
        ctx.rep.inconclusive(rule, cb, "list of per-well step lists not found", where=f.where())
        return
    L = cands[0].name
    # the step counter handed to condense_log (its meaning - one per executed pair - is C11.condense-count)
    counters = set()
    for cs in fv.calls():
        if cs.callee.kind == "func" and cs.callee.func.short == "Labware.condense_log":
            n_arg = (fv.bind_args(cs) or {}).get("n")
            if n_arg is not None:
                counters |= _root_names(fv, n_arg, cs.node)
    step_counter = counters.pop() if len(counters) == 1 else None
    verdict, detail = lvh_model.evaluate(ctx, t, L, cnt, step_counter)
    defs = [n for n in fv.cfg.nodes if n.kind == "stmt" and isinstance(n.ast, (ast.Assign, ast.AugAssign)) and is_name(n.ast.targets[0] if isinstance(n.ast, ast.Assign) else n.ast.target, cnt)]
    w = f.where(defs[-1].ast) if defs else f.where()
    ctx.rep.check(True if verdict == "holds" else False if verdict == "refuted" else None, rule, cb + "/summand",
                  detail, detail + (": the history label reports a wrong number of LVH steps" if verdict == "refuted" else ""), where=w)


def lvh_note_once(ctx, dev) -> None:
    """The label handed to condense_log is the operation's label with at most one large-volume note: following the
    definitions of the label variable backwards from every condense_log call, at most one of them appends `... LVH steps`."""
    rule = "C11.lvh-note"
    f = ctx.prog.find_method(dev, "transfer")
    if f is None:
        raise AnalysisInconclusive(rule, f"{dev.name}.transfer", "not found")
    fv = ctx.fv(f, dev)
    cb = f"{dev.name}.transfer"
    rd = fv.cfg.reaching()

    def is_note(e: ast.AST) -> bool:
        return any(isinstance(x, ast.Constant) and isinstance(x.value, str) and "LVH" in x.value for x in ast.walk(e))

    memo = {}

    def depth(var: str, at: int, stack=()) -> int:
        """largest number of LVH notes the text in `var` can carry at node `at`"""
        k = (var, at)
        if k in memo:
            return memo[k]
        if k in stack:
            # the text flows back into its own definition (a loop): if a note is appended on the way, it is appended again
            # on every round
            i0 = stack.index(k)
            on_cycle = [fv.cfg.nodes[a_].ast for _v, a_ in stack[i0:] + (k,)]
            return 1 if any(isinstance(x_, (ast.Assign, ast.AugAssign, ast.AnnAssign)) and getattr(x_, "value", None) is not None and is_note(x_.value) for x_ in on_cycle) else 0
        best = 0
        for d in rd[at].get(var, ()):
            dn = fv.cfg.nodes[d]
            if dn.kind != "stmt" or not isinstance(dn.ast, (ast.Assign, ast.AugAssign, ast.AnnAssign)) or dn.ast.value is None:
                continue
            v = dn.ast.value
            own = 1 if is_note(v) else 0
            inner = 0
            names = {x.id for x in ast.walk(v) if isinstance(x, ast.Name)}
            if isinstance(dn.ast, ast.AugAssign):
                names.add(var)
            for nm in names:
                if nm == var or any(isinstance(fv.cfg.nodes[d2].ast, (ast.Assign, ast.AugAssign, ast.AnnAssign)) and fv.cfg.nodes[d2].kind == "stmt" and
                                    getattr(fv.cfg.nodes[d2].ast, "value", None) is not None and (is_note(fv.cfg.nodes[d2].ast.value) or "label" in {y.id for y in ast.walk(fv.cfg.nodes[d2].ast.value) if isinstance(y, ast.Name)})
                                    for d2 in rd[d].get(nm, ())):
                    inner = max(inner, depth(nm, d, stack + (k,)))
            best = max(best, own + inner)
        memo[k] = best
        return best

    n = 0
    for cs in fv.calls():
        if not (isinstance(cs.call.func, ast.Attribute) and cs.call.func.attr == "condense_log"):
            continue
        la = next((k_.value for k_ in cs.call.keywords if k_.arg == "label"), cs.call.args[1] if len(cs.call.args) > 1 else None)
        if la is None:
            continue
        n += 1
        names = [x.id for x in ast.walk(la) if isinstance(x, ast.Name)]
        dmax = (1 if is_note(la) else 0) + max([depth(nm, cs.node) for nm in names] or [0])
        ctx.rep.check(dmax <= 1, rule, f"{cb}/{stmt_key(cs.call)[:50]}", "the condensed entry's label carries at most one large-volume note",
                      f"the label handed to `{stmt_key(cs.call)[:50]}` can have passed through {dmax} statements that each append an `LVH steps` note: the newest history entry "
                      "reads `<label> (n LVH steps) (n LVH steps)`", where=f.where(cs.call))
    ctx.rep.floor(rule, f"{cb}: condense_log calls with a label", n, 1)


def slice_zero(ctx) -> None:
    rule = "C11.slice-zero"
    f = ctx.prog.require_func("Labware.condense_log", rule)
    fv = ctx.fv(f)
    n_sl = 0
    for node in fv.cfg.nodes:
        if node.kind != "stmt":
            continue
        for sub in own_walk(node.ast):
            if isinstance(sub, ast.Subscript) and isinstance(sub.slice, ast.Slice) and sub.slice.upper is not None and isinstance(sub.slice.upper, ast.UnaryOp) and isinstance(sub.slice.upper.op, ast.USub):
                n_sl += 1
                x = fv.res.resolve(sub.slice.upper.operand, node.id)
                px = to_poly(x)
                ok = False
                for cmpf, atom, pol, br in __import__("sa.rules.common", fromlist=["cmp_facts"]).cmp_facts(fv, node.id):
                    if cmpf == Cmp(px - Poly.const(1), ">=") or cmpf == Cmp(px, ">") or cmpf == Cmp(px, "!="):
                        ok = True
                ctx.rep.check(ok, rule, f"{f.qualname}/{stmt_key(node.ast)[:50]}", "slice bound -n is guarded by n >= 1",
                              f"`{stmt_key(node.ast)[:60]}`: for n == 0 the slice [:-0] is empty and wipes the whole history (a transfer that moves nothing condenses 0 entries)", where=f.where(node.ast))
    ctx.rep.floor(rule, "negative-bound slices in condense_log", n_sl, 2)
    # the condensed state is the newest snapshot
    for node in fv.cfg.nodes:
        if node.kind == "stmt":
            for sub in own_walk(node.ast):
                if isinstance(sub, ast.Call) and isinstance(sub.func, ast.Attribute) and sub.func.attr == "append" and attr_of_name(sub.func.value, f.params[0], "_history"):
                    t = fv.res.resolve(sub.args[0], node.id)
                    newest = isinstance(t, ast.Subscript) and attr_of_name(t.value, f.params[0], "_history") and isinstance(t.slice, ast.UnaryOp) and isinstance(t.slice.operand, ast.Constant) and t.slice.operand.value == 1
                    ctx.rep.check(True if newest else (_is_snapshot(t, f.params[0])), rule.replace("slice-zero", "condense-state"), f"{f.qualname}/state",
                                  "condensed entry is the newest snapshot", f"condensed entry is `{show(t)[:60]}`: not a snapshot of the newest state", where=f.where(node.ast))


def report(ctx) -> None:
    rule = "C11.report"
    lab = ctx.prog.require_class("Labware", rule)
    f = lab.methods.get("report")
    if f is None:
        raise AnalysisInconclusive(rule, "Labware.report", "not found")
    fv = ctx.fv(f)
    loops = [n for n in fv.cfg.nodes if n.kind == "for"]
    if len(loops) != 1:
        ctx.rep.inconclusive(rule, f.qualname, "expected one loop over the history")
        return
    lp = loops[0]
    it = fv.res.resolve(lp.ast.iter, lp.id)
    ok_iter = attr_of_name(it, f.params[0], "history") or (isinstance(it, ast.Call) and call_fname(it) == "zip")
    ctx.rep.check(ok_iter, rule, f"{f.qualname}/iteration", "report iterates the whole history in order",
                  f"report iterates `{show(it)[:60]}` instead of the whole history (filtered, sliced or reordered)", where=f.where(lp.ast))
    body = fv.cfg.loop_body[lp.id]
    exits = [n for n in (fv.cfg.nodes[i] for i in body) if n.kind == "stmt" and isinstance(n.ast, (ast.Break, ast.Continue, ast.Return))]
    ctx.rep.check(not exits and not fv.cfg.loop_has_break.get(lp.id), rule, f"{f.qualname}/exits", "no entry is skipped", "an entry can be skipped (break/continue in the report loop)", where=f.where(lp.ast))
    # the state of every entry is appended unconditionally
    state_names = _names(lp.ast.target)
    hit = False
    for i in body:
        n = fv.cfg.nodes[i]
        if n.kind == "stmt" and isinstance(n.ast, ast.AugAssign):
            cond = fv.controlling(i, within=body)
            if not cond and len(state_names) == 2 and state_names[1] in _root_names(fv, n.ast.value, i):
                hit = True
        # the pieces may be collected in a list that is joined into the returned text after the loop
        if n.kind == "stmt" and isinstance(n.ast, ast.Expr) and isinstance(n.ast.value, ast.Call) and isinstance(n.ast.value.func, ast.Attribute) and n.ast.value.func.attr == "append" \
                and isinstance(n.ast.value.func.value, ast.Name) and len(n.ast.value.args) == 1:
            acc = n.ast.value.func.value.id
            joined = any(isinstance(x, ast.Call) and isinstance(x.func, ast.Attribute) and x.func.attr == "join" and len(x.args) == 1 and is_name(x.args[0], acc)
                         for m in fv.cfg.nodes if m.kind == "stmt" and m.id not in body and fv.cfg.dominates(lp.id, m.id) for x in ast.walk(m.ast))
            if joined and not fv.controlling(i, within=body) and len(state_names) == 2 and state_names[1] in _root_names(fv, n.ast.value.args[0], i):
                hit = True
    ctx.rep.check(hit, rule, f"{f.qualname}/state", "every entry's state is printed unconditionally", "the state of an entry is not printed on every iteration", where=f.where(lp.ast))


def _names(t):
    if isinstance(t, ast.Name):
        return [t.id]
    if isinstance(t, (ast.Tuple, ast.List)):
        out = []
        for e in t.elts:
            out += _names(e)
        return out
    return []


def distribute(ctx) -> None:
    rule = "C11.distribute"
    f = ctx.prog.require_func("BaseWorklist.distribute", rule)
    dev = concrete_devices(ctx)[0]
    fv = ctx.fv(f, dev)
    rem, add = fv.calls_func("Labware.remove"), fv.calls_func("Labware.add")
    ok = len(rem) == 1 and len(add) == 1 and not fv.cfg.enclosing_loops(rem[0].node) and not fv.cfg.enclosing_loops(add[0].node)
    ctx.rep.check(ok, rule, f"{f.qualname}/one-entry-each", "one remove on the source and one add on the destination, outside loops",
                  f"{len(rem)} remove / {len(add)} add calls (or inside a loop): distribute would leave several history entries per labware", where=f.where())
    for cs, nm in ((rem[0], "remove"), (add[0], "add")) if ok else ():
        lab = (fv.bind_args(cs) or {}).get("label")
        ctx.rep.check(lab is not None and is_name(lab, "label"), rule, f"{f.qualname}/{nm}-label", "entry carries the operation's label", f"{nm} is logged with label `{show(lab) if lab is not None else 'omitted'}`", where=f.where(cs.call))
    # same-labware case: contradiction check with the sibling `transfer`, which condenses
    cond = [cs for cs in fv.calls() if cs.callee.kind == "func" and cs.callee.func.short == "Labware.condense_log"]
    good = False
    for cs in cond:
        for r, pol, raw in fv.rfacts_at(cs.node):
            if isinstance(r, ast.Compare) and len(r.ops) == 1 and isinstance(r.ops[0], (ast.Eq, ast.Is)) and pol and {getattr(r.left, "id", None), getattr(r.comparators[0], "id", None)} == {"source", "destination"}:
                n_arg = (fv.bind_args(cs) or {}).get("n")
                good = isinstance(n_arg, ast.Constant) and n_arg.value == 2
                lab_arg = (fv.bind_args(cs) or {}).get("label")
                ctx.rep.check(lab_arg is not None and is_name(lab_arg, "label"), rule, f"{f.qualname}/same-labware-label", "the condensed entry carries the operation's label",
                              f"the condensed entry gets label `{show(lab_arg) if lab_arg is not None else 'the default'}` instead of the operation's label", where=f.where(cs.call))
    ctx.rep.check(good, rule, f"{f.qualname}/same-labware", "source is destination => the two entries are condensed into one",
                  "when source and destination are the same labware, distribute leaves two history entries (transfer condenses them, distribute does not)", where=f.where())


def per_call_ops(ctx) -> None:
    """aspirate/dispense (and evo_*) contribute one entry per call: exactly one tracking call, outside loops, with the label."""
    rule = "C11.per-call"
    n = 0
    for dev in concrete_devices(ctx):
        for name in ("aspirate", "dispense", "evo_aspirate", "evo_dispense"):
            f = ctx.prog.find_method(dev, name)
            if f is None:
                continue
            fv = ctx.fv(f, dev)
            tr = fv.calls_func("Labware.add") + fv.calls_func("Labware.remove")
            n += 1
            ok = len(tr) == 1 and not fv.cfg.enclosing_loops(tr[0].node) and fv.cfg.postdominates(tr[0].node, fv.cfg.entry)
            ctx.rep.check(ok, rule, f"{dev.name}.{name}/one-tracking-call", "one tracking call per operation (one history entry)",
                          f"{len(tr)} tracking calls (or conditional / in a loop): the operation does not contribute exactly one history entry", where=f.where())
            if ok:
                lab = (fv.bind_args(tr[0]) or {}).get("label")
                ctx.rep.check(lab is not None and is_name(fv.res.resolve(lab, tr[0].node), "label"), rule, f"{dev.name}.{name}/label", "entry carries the operation's label",
                              "the tracking call does not receive the operation's label", where=f.where(tr[0].call))
    ctx.rep.floor(rule, "per-call operations", n, 6)
